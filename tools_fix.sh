#!/bin/sh
# tools_fix.sh <format-patch file> <property> <obligation> <what failed>
# applies a prepared repair as one commit in /repo (message from the patch) and records it as fixed
set -e
git -C /repo am -q "$1"
H=$(git -C /repo log --format=%h -1)
python3 - "$2" "$H" "$3" "$4" <<'PY'
import json, sys
pid, h, ob, what = sys.argv[1:5]
rec = {"status": "fixed", "property": pid, "commit": h, "obligation": ob, "what": f"fixed: property={pid} {h} {what}"}
open("/verif/KNOWN_FINDINGS.jsonl", "a").write(json.dumps(rec) + "\n")
PY
git -C /repo log --oneline -1
