#!/usr/bin/env python3
"""Compare a junit xml of the repository suite with BASELINE.json's stable_pass
(test_region_combinations ids are compared as unordered pairs, see DESIGN.md section 6)."""
import json, re, sys, xml.etree.ElementTree as ET

base = json.load(open("/root/.vp/BASELINE.json"))
def norm(t):
    m = re.match(r"(.*test_region_combinations)\[(.*)-(.*)\]$", t)
    if m:
        a, b = sorted([m.group(2), m.group(3)])
        return f"{m.group(1)}[{a}-{b}]"
    return t
passed, failed = set(), set()
for tc in ET.parse(sys.argv[1]).getroot().iter("testcase"):
    tid = (tc.get("classname") or "") + "::" + (tc.get("name") or "")
    if tc.find("failure") is not None or tc.find("error") is not None:
        failed.add(norm(tid))
    elif tc.find("skipped") is None:
        passed.add(norm(tid))
stable = {norm(t) for t in base["stable_pass"]}
missing = sorted(stable - passed)
print(f"passed={len(passed)} failed={len(failed)} stable_pass={len(stable)} stable-not-passed={len(missing)}")
for m in missing[:40]:
    print("  NOT PASSED:", m, "(FAILED)" if m in failed else "(not run)")
sys.exit(1 if missing else 0)
