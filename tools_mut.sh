#!/bin/sh
# usage: tools_mut.sh <repo-relative file> <sed expr> <property> ; applies, checks, reverts
f=${PYVC_REPO:-/repo}/$1
cp "$f" /tmp/_mut_backup
sed -i "$2" "$f"
if cmp -s "$f" /tmp/_mut_backup; then echo "MUTATION DID NOT APPLY"; fi
cd /verif && ./check $3 2>&1 | grep -E "VIOLATION|UNDECIDED|CHECKER|VACUITY|proved, wall" | head -8
cp /tmp/_mut_backup "$f"
