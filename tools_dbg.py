import sys
sys.path.insert(0,'/verif')
from pyvc.run import build_registry
from pyvc import contracts as C
mods, key = sys.argv[1].split(','), sys.argv[2]
reg = build_registry(mods)
rep = C.verify(reg, reg.contracts[key], timeout_ms=10000)
print('paths', rep.paths, 'err', rep.error)
seen=set()
for o in rep.instances:
    if o.verdict!='proved':
        k=(o.name,str(o.detail)[:80])
        if k in seen: continue
        seen.add(k)
        print(o.name, o.verdict, o.detail, o.model, 'line', o.line)
