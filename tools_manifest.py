#!/usr/bin/env python3
"""Regenerate MANIFEST.json from contracts/props.py (keeps it schema-valid at all times)."""
import json, os, sys
HERE = os.path.dirname(os.path.abspath(__file__))
sys.path.insert(0, HERE)
import contracts.props as props

ALL = [json.loads(l)["id"] for l in open(os.path.join(HERE, "properties.jsonl"))]
# properties whose evidence reports bounded checks although the fragment has no `bounded` list
BOUNDED_ANYWAY = set()
for _pid in ALL:
    try:
        if json.load(open(os.path.join(HERE, "evidence", f"{_pid}.json")))["coverage"].get("bounded_checks", {}).get("total"):
            BOUNDED_ANYWAY.add(_pid)
    except Exception:
        pass
checks = []
for pid in ALL:
    spec = props.PROPERTIES.get(pid)
    if not spec or spec.get("disabled"):
        continue
    if not os.path.exists(os.path.join(HERE, "locks", f"{pid}.json")):
        continue  # claimed only once the check has been run green on the unchanged tree and locked
    checks.append(dict(
        property_id=pid,
        engine="pyvc",
        technique=spec.get("technique", "contract-based deductive verification: sidecar contracts on the real functions, VCs generated from /repo's AST by symbolic execution, discharged by z3 (cvc5 on unknown); counter-models replayed on the real code") + ("; contracts with a stated input bound and run-time stand-ins on the real code are reported as bounded checks, separately from the discharged obligations, and never counted as proved" if spec.get("bounded") or pid in BOUNDED_ANYWAY else ""),
        quick_cmd=f"./check {pid} --tier quick",
        thorough_cmd=f"./check {pid} --tier thorough",
        replay_cmd_template=f"./check {pid} --replay {{path}}",
        evidence_file=f"evidence/{pid}.json",
        level_claimed=dict(category=spec["level"], text=spec["claim"], design_ref=f"DESIGN.md section 5 {pid}"),
        level_note=spec["note"] + (" | bounded parts (never counted as proved): " + "; ".join(spec["bounded"]) if spec.get("bounded") else ""),
    ))
na = [dict(property_id=pid, reason=props.NOT_APPLICABLE.get(pid, "no contract set built yet for this property in this round; not claimed")) for pid in ALL if pid not in {c["property_id"] for c in checks}]
man = dict(
    version=1,
    setup_cmd="sh ./setup.sh",
    hooks=dict(guard="SCENIC_VERIF_HOOKS", enable="no hooks are needed: contracts are sidecar files and replays import the real modules", baseline_off_cmd=props.BASELINE_CMD, source_commits=[], add_only=True),
    engines=[dict(name="pyvc", path="pyvc/", serves_properties=[c["property_id"] for c in checks], kind_free_text="self-built deductive verifier for a Python subset: extracts the real function bodies from /repo with ast on every run, symbolic execution to verification conditions against sidecar contracts (requires/ensures/raises/loop invariants/modifies), z3 5.1 + cvc5 back ends, replay of counter-models on the real code")],
    checks=checks,
    not_applicable=na,
    notes="See DESIGN.md. Known findings and fixed defects: KNOWN_FINDINGS.jsonl. Exit codes: 0 held, 1 violation, 2 undecided, 3 checker failure.",
)
json.dump(man, open(os.path.join(HERE, "MANIFEST.json"), "w"), indent=1)
import jsonschema
jsonschema.validate(man, json.load(open("/root/.vp/MANIFEST.schema.json")))
print("MANIFEST ok:", [c["property_id"] for c in checks], "n/a:", len(na))
