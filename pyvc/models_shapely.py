"""Library models for shapely / numpy / trimesh and the trigonometric functions (C16, C03, C04).

Planar geometry is *abstract*: a geometry is a heap object whose point set is a predicate mem(g, x, y).
Base geometries have an uninterpreted membership predicate; the results of the set operations are defined
structurally (intersection = conjunction, union = disjunction, difference = conjunction with the negation),
so no quantified axiom is needed for them.  Universally quantified library facts ("an empty geometry has no
member", "no member is nearer than the reported distance", ...) are instantiated on demand at the finitely
many points a verification path talks about (`World.add_point`); existential facts come with Skolem
witnesses, which are registered as points too.  Every fact assumed here is a trusted library contract and is
listed by `install(reg)` through `reg.trust`.

numpy: `NDArr` = array of known shape whose entries are (symbolic) scalars; `linalg.norm` without `axis` is
the Frobenius norm (ONE scalar, whatever the shape), with `axis=1` the vector of row norms; `argmin` of a
scalar is 0, of a vector the first index of a minimal entry.

trimesh: a mesh is an abstract solid with `bounds` (every point of the mesh lies within them) and a ray
caster `ray.intersects_location(origins, directions, multiple_hits=False)` that reports, for each ray in the
order given, its first hit (if any)."""
import fractions
import math

import z3

from . import builtins_model as BM
from .builtins_model import EXTRA_MODULES, NativeModule
from .engine import PathEnd
from .interp import BuiltinFn, ClassVal
from .values import PList, PObj, PyvcError, SV, arith, compare, is_scalar, sv_and, sv_implies, sv_ite, sv_not, sv_or, tobool, toz3

TRUSTED = [
    ("G-setops", "shapely intersection/union/difference (`&`, `|`, `-`, unary_union) are the exact set operations on the point sets (away from the operands' boundaries)"),
    ("G-empty", "geom.is_empty holds exactly when the geometry has no point"),
    ("G-valid", "geometries handed to / returned by the set operations are valid (is_valid)"),
    ("G-kinds", "the result of a set operation is empty or one of Polygon, MultiPolygon, LineString, MultiLineString, Point, MultiPoint, GeometryCollection; a GeometryCollection is heterogeneous (area > 0 or length > 0) and its `.geoms` partition it by dimension"),
    ("G-lowdim", "when two polygonal geometries meet only in a lower-dimensional set (line strings / points), or for the lower-dimensional members of a GeometryCollection, every such point lies on the boundary of one of the operands"),
    ("G-distance", "shapely.distance(g, p) / g.distance(p) is non-negative, zero exactly on the points of g (geometries are closed), not larger than the distance to any point of g, and attained at some point of g"),
    ("G-disc-distance", "the distance from p to the closed disc of centre c and radius R is max(0, |p - c| - R)"),
    ("G-buffer", "g.buffer(t) for t >= 0 is the set of points within distance t of g; the zero-width buffer of a line string or point is EMPTY"),
    ("G-contains", "a.contains(b) / a.covers(b): every point of b is a point of a (b non-empty for contains); when false some point of b lies outside a"),
    ("G-intersects", "a.intersects(b) / shapely.intersects_xy(a, x, y): the two point sets share a point / (x, y) is a point of a"),
    ("G-bounds", "g.bounds = (minx, miny, maxx, maxy) encloses every point of g"),
    ("G-disc-polygon", "the polygon of a CircularRegion is identified with the exact disc (resolution -> infinity)"),
    ("N-norm", "numpy.linalg.norm(a) without axis = sqrt of the sum of ALL squared entries (one scalar); with axis=1 on an (n,3) array the n row norms; the norm is a function of its argument and |a - b| = |b - a|"),
    ("N-argmin", "numpy.argmin of a scalar is 0; of a 1-D array the first index of a minimal entry"),
    ("N-broadcast", "array - vector subtracts the vector from every row; scalar * array scales every entry; array[i] is row i"),
    ("E-earcut", "mapbox_earcut.triangulate_float64(vertices, rings) -- vertices = the polygon's rings one after the other (each without its closing point), rings = the cumulative end offsets, exterior first -- returns 3k indices into `vertices`: the k = n + 2h - 2 triangles (vertices[i0], vertices[i1], vertices[i2]) lie inside the polygon, overlap only in edges and their union is the polygon (their areas sum to its area)"),
    ("T-ray", "mesh.ray.intersects_location(origins, directions, multiple_hits=False) returns the first hit of each ray that hits the mesh, in the order of the rays; a hit of ray (o, d) is o + t d with t >= 0"),
    ("G-affine", "shapely.affinity.affine_transform(g, [a, b, d, e, xoff, yoff]) is the image of g under (x, y) -> (a x + b y + xoff, d x + e y + yoff); a polygon maps to the polygon over the images of its vertices in the same order"),
    ("N-where", "numpy.where(mask) of a 2-d Boolean array returns (row indices, column indices) of exactly the true entries, each once, in row-major order"),
    ("N-reduce", "numpy.all / any / max reduce over all entries; array > scalar compares entry-wise; ndarray - Vector converts the Vector to a length-3 array and broadcasts"),
    ("T-bounds", "every point of a trimesh mesh lies within mesh.bounds; extents = bounds[1] - bounds[0]; bounding_box.center_mass is the midpoint of the bounds"),
    ("A2-pythagoras", "sin(x)^2 + cos(x)^2 = 1"),
    ("A2-shift", "cos(x) = -sin(x - pi/2) and sin(x) = cos(x - pi/2) (pi/2 is the float math.pi/2, A1)"),
    ("A2-zero", "sin(0) = 0, cos(0) = 1"),
]


def install(reg):
    """Register hooks and the trusted-base entries of this model with a contract registry (idempotent)."""
    if getattr(reg, "_models_shapely", False):
        return
    reg._models_shapely = True
    for n, t in TRUSTED:
        reg.trust(n, t)
    reg.isinstance_hook = _isinstance_hook
    reg.binop_fallback = _binop_fallback
    reg.getattr_fallback = _getattr_fallback
    reg.getitem_fallback = _getitem_fallback
    reg.len_fallback = _len_fallback
    reg.iterate_fallback = _iterate_fallback
    reg.compare_fallback = _compare_fallback
    _install_array_equality()
    for dn, sym in (("__rsub__", "-"), ("__radd__", "+")):
        def reflected(I, self, other, dn=dn, sym=sym):
            if isinstance(other, NDArr):  # ndarray.__sub__(Vector): the Vector is converted to an array (it is a Sequence)
                return nd_binop(I, sym, other, self)
            f = I.find_method(self.cls, dn)
            return I.run_function(f, [self, other], {}, None)

        reg.models[f"scenic.core.vectors:Vector.{dn}"] = reflected
    reg.models["scenic.core.geometry:sin"] = lambda I, x: sin(I, x)
    reg.models["scenic.core.geometry:cos"] = lambda I, x: cos(I, x)
    reg.models["scenic.core.geometry:hypot"] = lambda I, *xs: BM.mhypot(I, *xs)
    reg.models["scenic.core.geometry:max"] = lambda I, *a, **k: BM.mmax(I, *a, **k)
    reg.models["scenic.core.geometry:min"] = lambda I, *a, **k: BM.mmin(I, *a, **k)


# ------------------------------------------------------------------------------------------------
# the finite universe of points of a path


class World:
    def __init__(self, eng):
        self.eng = eng
        self.points = []
        self.facts = []
        self.count = 0

    def fresh_id(self):
        self.count += 1
        return self.count

    def _assume(self, v):
        if v is None or v is True:
            return
        self.eng.assume(v)

    def add_point(self, x, y):
        for a, b in self.points:
            if _same(a, x) and _same(b, y):
                return
        self.points.append((x, y))
        for f in list(self.facts):
            self._assume(f(x, y))

    def add_fact(self, f):
        """f(x, y) -> formula: a universally quantified library fact, instantiated at every point of the path."""
        self.facts.append(f)
        for x, y in list(self.points):
            self._assume(f(x, y))


def _same(a, b):
    if a is b:
        return True
    if isinstance(a, SV) and isinstance(b, SV):
        return a.e.eq(b.e)
    if not isinstance(a, SV) and not isinstance(b, SV):
        return a == b
    return False


def world(I):
    eng = I.eng
    for n in eng.path_notes:
        if isinstance(n, World):
            return n
    w = World(eng)
    eng.path_notes.append(w)
    return w


# ------------------------------------------------------------------------------------------------
# trigonometry (A2)

_R = z3.RealSort()
SIN = z3.Function("sin", _R, _R)
COS = z3.Function("cos", _R, _R)
HALF_PI = z3.RealVal(str(fractions.Fraction(repr(math.pi / 2))))


def _trig_terms(I, x):
    eng = I.eng
    xr = toz3(x, want_real=True)
    s, c = SIN(xr), COS(xr)
    done = getattr(eng, "_trig_done", None)
    if done is None or done[0] is not eng.pc:
        done = eng._trig_done = (eng.pc, set())
    key = xr.get_id()
    if key not in done[1]:
        done[1].add(key)
        eng.assume(s * s + c * c == 1)
        xs = z3.simplify(xr - HALF_PI)
        s2, c2 = SIN(xs), COS(xs)
        if xs.get_id() not in done[1]:
            done[1].add(xs.get_id())
            eng.assume(s2 * s2 + c2 * c2 == 1)
        eng.assume(z3.And(c == -s2, s == c2))
    return SV(s, True), SV(c, True)


def sin(I, x):
    if not isinstance(x, SV) and x == 0:
        return 0.0
    return _trig_terms(I, x)[0]


def cos(I, x):
    if not isinstance(x, SV) and x == 0:
        return 1.0
    return _trig_terms(I, x)[1]


BM.EXTERNAL.setdefault("math.cos", lambda I: BuiltinFn("math.cos", lambda x: cos(I, x)))
BM.EXTERNAL.setdefault("math.sin", lambda I: BuiltinFn("math.sin", lambda x: sin(I, x)))


# ------------------------------------------------------------------------------------------------
# geometries

DIM = {"Polygon": 2, "MultiPolygon": 2, "LineString": 1, "MultiLineString": 1, "LinearRing": 1, "Point": 0, "MultiPoint": 0, "GeometryCollection": None}


class GeomKind:
    """Marker classes standing for shapely.geometry.<Kind> (isinstance targets and constructors)."""

    def __init__(self, name):
        self.name = "shapely.geometry." + name
        self.kind = name

    def __repr__(self):
        return f"<{self.name}>"


KINDS = {k: GeomKind(k) for k in DIM}


def is_geom(x):
    return isinstance(x, PObj) and x.cls == "Geom"


def gmem(g, x, y):
    """Membership of (x, y) in geometry g -> python bool or SV(Bool)."""
    return g.fields["_mem"](x, y)


def gbd(g, x, y):
    """(x, y) is within tolerance of the boundary of g (abstract; for linear/point geometries: every point)."""
    return g.fields["_bd"](x, y)


def gdim(g):
    return DIM[g.fields["_kind"]]


def make_geom(I, kind, mem=None, empty=False, tag=None, parts=None, area=None, length=None):
    """A geometry of the given kind.  mem(x, y) -> formula (None: a base geometry with an uninterpreted point
    set).  `empty` is a python bool or SV."""
    eng = I.eng
    w = world(I)
    tag = eng.fresh_name(tag or kind.lower())
    g = PObj("Geom", tag=tag)
    if mem is None:
        pred = z3.Function(f"mem!{tag}", _R, _R, z3.BoolSort())
        mem = lambda x, y, pred=pred: SV(pred(toz3(x, want_real=True), toz3(y, want_real=True)))
    f = g.fields
    f["_kind"] = kind
    f["_mem"] = mem
    f["_empty"] = empty
    f["_parts"] = parts
    f["_distf"] = z3.Function(f"dist!{tag}", _R, _R, _R)
    f["_dist_cache"] = []
    if DIM[kind] == 2:
        bdp = z3.Function(f"bd!{tag}", _R, _R, z3.BoolSort())
        f["_bd"] = lambda x, y, bdp=bdp: SV(bdp(toz3(x, want_real=True), toz3(y, want_real=True)))
    else:
        f["_bd"] = mem
    # G-empty
    if empty is True:
        w.add_fact(lambda x, y: sv_not(mem(x, y)))
    else:
        wx, wy = eng.fresh_real(tag + ".wit.x"), eng.fresh_real(tag + ".wit.y")
        if empty is False:
            eng.assume(mem(wx, wy))
        else:
            eng.assume(sv_or(empty, mem(wx, wy)))
            w.add_fact(lambda x, y: sv_implies(empty, sv_not(mem(x, y))))
        f["_witness"] = (wx, wy)
        w.add_point(wx, wy)
    # measures
    d = DIM[kind]
    if area is None:
        if d == 2:
            area = eng.fresh_real(tag + ".area")
            eng.assume(sv_and(compare(">=", area, 0), sv_or(empty, compare(">", area, 0)) if empty is not False else compare(">", area, 0)) if empty is not True else compare("==", area, 0))
        else:
            area = 0.0
    if length is None:
        if d in (1, 2):
            length = eng.fresh_real(tag + ".length")
            eng.assume(compare(">=", length, 0) if empty is not False else compare(">", length, 0))
        else:
            length = 0.0
    f["area"], f["length"] = area, length
    f["is_empty"] = empty
    f["is_valid"] = True
    f["geom_type"] = kind
    fn = lambda name, impl: BuiltinFn(name, impl)
    f["intersection"] = fn("intersection", lambda o, g=g: g_intersection(I, g, o))
    f["union"] = fn("union", lambda o, g=g: g_union(I, [g, o]))
    f["difference"] = fn("difference", lambda o, g=g: g_difference(I, g, o))
    f["buffer"] = fn("buffer", lambda t, *a, g=g, **k: g_buffer(I, g, t))
    f["contains"] = fn("contains", lambda o, g=g: g_contains(I, g, o, strict=True))
    f["covers"] = fn("covers", lambda o, g=g: g_contains(I, g, o, strict=False))
    f["intersects"] = fn("intersects", lambda o, g=g: g_intersects(I, g, o))
    f["distance"] = fn("distance", lambda o, g=g: g_distance(I, g, o))
    if parts is not None:
        f["geoms"] = PList(parts)
    elif kind.startswith("Multi"):
        f["geoms"] = PList([g])  # members not individually modelled
    return g


def point_geom(I, coords):
    """shapely Point with the given coordinates (2 or 3)."""
    coords = tuple(coords)
    x0, y0 = coords[0], coords[1]
    mem = lambda x, y: sv_and(compare("==", x, x0), compare("==", y, y0))
    g = make_geom(I, "Point", mem=mem, empty=False, tag="pt")
    g.fields["_xy"] = (x0, y0)
    g.fields["coords"] = (coords,)
    g.fields["x"], g.fields["y"] = x0, y0
    world(I).add_point(x0, y0)
    return g


def disc_geom(I, cx, cy, radius, tag="disc"):
    """The polygon of a CircularRegion, identified with the exact closed disc (G-disc-polygon)."""

    def mem(x, y):
        dx, dy = arith("-", x, cx), arith("-", y, cy)
        return compare("<=", arith("+", arith("*", dx, dx), arith("*", dy, dy)), arith("*", radius, radius))

    g = make_geom(I, "Polygon", mem=mem, empty=False, tag=tag)
    g.fields["_disc"] = (cx, cy, radius)
    return g


def tri_geom(I, pts):
    """shapely Polygon built from three coordinate pairs: the closed triangle (exact membership by the three edge tests)."""
    (ax, ay), (bx, by), (cx, cy) = [(p[0], p[1]) for p in pts]

    def cross(px, py, qx, qy, x, y):  # (q - p) x ((x, y) - p)
        return arith("-", arith("*", arith("-", qx, px), arith("-", y, py)), arith("*", arith("-", qy, py), arith("-", x, px)))

    def mem(x, y):
        d1, d2, d3 = cross(ax, ay, bx, by, x, y), cross(bx, by, cx, cy, x, y), cross(cx, cy, ax, ay, x, y)
        nonneg = sv_and(compare(">=", d1, 0), compare(">=", d2, 0), compare(">=", d3, 0))
        nonpos = sv_and(compare("<=", d1, 0), compare("<=", d2, 0), compare("<=", d3, 0))
        return sv_or(nonneg, nonpos)

    twice = cross(ax, ay, bx, by, cx, cy)
    area = arith("/", sv_ite(compare(">=", twice, 0), twice, arith("-", 0, twice)), 2)
    g = make_geom(I, "Polygon", mem=mem, empty=False, tag="triangle", area=area)
    g.fields["_tri"] = ((ax, ay), (bx, by), (cx, cy))
    g.fields["bounds"] = (BM.mmin(I, ax, bx, cx), BM.mmin(I, ay, by, cy), BM.mmax(I, ax, bx, cx), BM.mmax(I, ay, by, cy))
    return g


def ring_polygon(I, exterior, holes=(), tag="polygon"):
    """shapely Polygon given by its rings (lists of coordinate pairs, not closed): an abstract point set with
    `.exterior.coords` / `.interiors[i].coords` (closed coordinate sequences, as shapely reports them)."""
    g = make_geom(I, "Polygon", empty=False, tag=tag)

    def ring(pts, name):
        r = PObj("LinearRing", tag=f"{g.tag}.{name}")
        pts = [tuple(p) for p in pts]
        r.fields["coords"] = tuple(pts + [pts[0]])
        return r

    g.fields["exterior"] = ring(exterior, "exterior")
    g.fields["interiors"] = PList([ring(h, f"interior{i}") for i, h in enumerate(holes)])
    g.fields["_rings"] = ([tuple(p) for p in exterior], [[tuple(p) for p in h] for h in holes])
    return g


def line_geom(I, pts, tag="linestring"):
    """shapely LineString through the given coordinate tuples (2 or 3 coordinates each): an abstract 1-dimensional point
    set that contains its vertices, with `.coords` = the coordinates as given (shapely reports them in order)."""
    pts = [tuple(p) for p in pts]
    g = make_geom(I, "LineString", empty=False, tag=tag)
    g.fields["coords"] = tuple(pts)
    for p in pts:
        world(I).add_point(p[0], p[1])
        I.eng.assume(gmem(g, p[0], p[1]))
    return g


def _forms_for(da, db):
    lo = min(da, db)
    if lo == 2:
        return ["empty", "Polygon", "MultiPolygon", "LineString", "MultiLineString", "Point", "MultiPoint", "GC-area", "GC-line"]
    if lo == 1:
        return ["empty", "LineString", "MultiLineString", "Point", "MultiPoint", "GC-line"]
    return ["empty", "Point", "MultiPoint"]


def g_intersection(I, a, b):
    """a & b (G-setops, G-kinds, G-lowdim)."""
    eng = I.eng
    w = world(I)
    da, db = gdim(a), gdim(b)
    if da is None or db is None:
        raise PyvcError("intersection with a GeometryCollection not modelled")
    mem = lambda x, y: sv_and(gmem(a, x, y), gmem(b, x, y))
    forms = _forms_for(da, db)
    form = forms[eng.choose(len(forms), "kind of the intersection")]
    both_poly = da == 2 and db == 2
    onbd = lambda x, y: sv_or(gbd(a, x, y), gbd(b, x, y))
    w.__dict__.setdefault("intersections", []).append((a, b, form))
    if form == "empty":
        return make_geom(I, "Polygon", mem=mem, empty=True, tag="inter")
    if not form.startswith("GC"):
        g = make_geom(I, form, mem=mem, empty=False, tag="inter")
        if both_poly and DIM[form] < 2:
            w.add_fact(lambda x, y: sv_implies(mem(x, y), onbd(x, y)))
        return g
    # GeometryCollection: partition by dimension; the lower-dimensional members lie on operand boundaries
    tag = eng.fresh_name("gc")
    low = z3.Function(f"low!{tag}", _R, _R, z3.BoolSort())
    lowp = lambda x, y: SV(low(toz3(x, want_real=True), toz3(y, want_real=True)))
    if form == "GC-area":
        hi = make_geom(I, "Polygon", mem=lambda x, y: sv_and(mem(x, y), sv_not(lowp(x, y))), empty=False, tag=tag + ".poly")
        lo = make_geom(I, "LineString", mem=lambda x, y: sv_and(mem(x, y), lowp(x, y)), empty=False, tag=tag + ".line")
        if both_poly:
            w.add_fact(lambda x, y: sv_implies(sv_and(mem(x, y), lowp(x, y)), onbd(x, y)))
        return make_geom(I, "GeometryCollection", mem=mem, empty=False, tag=tag, parts=[hi, lo], area=hi.fields["area"], length=lo.fields["length"])
    hi = make_geom(I, "LineString", mem=lambda x, y: sv_and(mem(x, y), sv_not(lowp(x, y))), empty=False, tag=tag + ".line")
    lo = make_geom(I, "Point", mem=lambda x, y: sv_and(mem(x, y), lowp(x, y)), empty=False, tag=tag + ".pt")
    if both_poly:
        w.add_fact(lambda x, y: sv_implies(mem(x, y), onbd(x, y)))
    elif da == 2 or db == 2:
        # a line meets a closed polygon in an isolated point only on the polygon's boundary
        pg = a if da == 2 else b
        w.add_fact(lambda x, y: sv_implies(sv_and(mem(x, y), lowp(x, y)), gbd(pg, x, y)))
    return make_geom(I, "GeometryCollection", mem=mem, empty=False, tag=tag, parts=[lo, hi], area=0.0, length=hi.fields["length"])


def g_union(I, geoms):
    """unary_union / a | b (G-setops)."""
    geoms = [g for g in geoms]
    if not geoms:
        return make_geom(I, "Polygon", mem=lambda x, y: False, empty=True, tag="union")
    dims = {gdim(g) for g in geoms}
    if len(dims) != 1 or None in dims:
        kind = "GeometryCollection"
    else:
        kind = {2: "MultiPolygon", 1: "MultiLineString", 0: "MultiPoint"}[dims.pop()]
        if len(geoms) == 1:
            kind = geoms[0].fields["_kind"]
    mem = lambda x, y: sv_or(*[gmem(g, x, y) for g in geoms])
    empties = [g.fields["_empty"] for g in geoms]
    if any(e is False for e in empties):
        empty = False
    elif all(e is True for e in empties):
        empty = True
    else:
        empty = sv_and(*[e for e in empties if e is not True])
    return make_geom(I, kind, mem=mem, empty=empty, tag="union")


def g_difference(I, a, b):
    """a - b (G-setops)."""
    eng = I.eng
    da = gdim(a)
    if da is None:
        raise PyvcError("difference of a GeometryCollection not modelled")
    mem = lambda x, y: sv_and(gmem(a, x, y), sv_not(gmem(b, x, y)))
    forms = {2: ["empty", "Polygon", "MultiPolygon"], 1: ["empty", "LineString", "MultiLineString"], 0: ["empty", "Point", "MultiPoint"]}[da]
    form = forms[eng.choose(len(forms), "kind of the difference")]
    if form == "empty":
        return make_geom(I, forms[1], mem=mem, empty=True, tag="diff")
    return make_geom(I, form, mem=mem, empty=False, tag="diff")


def dist_at(I, g, x, y, witness=True):
    """Distance from (x, y) to g with the instances of G-distance at the points of the path.
    witness=False (used when a buffer's membership is evaluated at a point): no nearest-point witness is
    introduced, so that instantiating facts at points never creates new points."""
    eng = I.eng
    w = world(I)
    f = g.fields
    for k, (cx, cy, d, n) in enumerate(f["_dist_cache"]):
        if _same(cx, x) and _same(cy, y):
            if witness and n is None:
                n = _nearest(I, g, x, y, d)
                f["_dist_cache"][k] = (cx, cy, d, n)
            return d
    d = SV(f["_distf"](toz3(x, want_real=True), toz3(y, want_real=True)), True)
    empty = f["_empty"]
    eng.assume(compare(">=", d, 0))
    f["_dist_cache"].append((x, y, d, None))
    if empty is not True:
        ne = True if empty is False else sv_not(empty)
        eng.assume(sv_implies(ne, compare("==", compare("==", d, 0), gmem(g, x, y))))
        if witness:
            f["_dist_cache"][-1] = (x, y, d, _nearest(I, g, x, y, d))

        def lower(qx, qy, d=d, x=x, y=y):
            ex, ey = arith("-", x, qx), arith("-", y, qy)
            return sv_implies(gmem(g, qx, qy), compare("<=", arith("*", d, d), arith("+", arith("*", ex, ex), arith("*", ey, ey))))

        w.add_fact(lower)
        disc = f.get("_disc")
        if disc is not None:  # G-disc-distance
            cx, cy, rad = disc
            ex, ey = arith("-", x, cx), arith("-", y, cy)
            s = eng.fresh_real("centre_dist")
            eng.assume(sv_and(compare(">=", s, 0), compare("==", arith("*", s, s), arith("+", arith("*", ex, ex), arith("*", ey, ey)))))
            eng.assume(compare("==", d, sv_ite(compare(">", arith("-", s, rad), 0), arith("-", s, rad), 0)))
    w.add_point(x, y)
    return d


def _nearest(I, g, x, y, d):
    eng = I.eng
    empty = g.fields["_empty"]
    ne = True if empty is False else sv_not(empty)
    nx, ny = eng.fresh_real(g.tag + ".nearest.x"), eng.fresh_real(g.tag + ".nearest.y")
    dx, dy = arith("-", x, nx), arith("-", y, ny)
    eng.assume(sv_implies(ne, sv_and(gmem(g, nx, ny), compare("==", arith("*", d, d), arith("+", arith("*", dx, dx), arith("*", dy, dy))))))
    world(I).add_point(nx, ny)
    return (nx, ny)


def nearest_witness(g, x, y):
    for (cx, cy, d, n) in g.fields["_dist_cache"]:
        if _same(cx, x) and _same(cy, y):
            return n
    return None


def g_distance(I, g, o):
    if is_geom(o) and "_xy" in o.fields:
        return dist_at(I, g, *o.fields["_xy"])
    raise PyvcError("distance between two extended geometries not modelled")


def g_buffer(I, g, t):
    """g.buffer(t), t >= 0 (G-buffer)."""
    d = gdim(g)
    if not isinstance(t, SV) and t == 0:
        if d == 2:
            return g
        return make_geom(I, "Polygon", mem=lambda x, y: False, empty=True, tag=g.tag + ".buffer0")
    if not isinstance(t, SV) and t < 0:
        raise PyvcError("negative buffer not modelled")
    if d == 2:
        mem = lambda x, y: compare("<=", dist_at(I, g, x, y, witness=False), t)
        empty = g.fields["_empty"]
    else:
        mem = lambda x, y: sv_and(compare(">", t, 0), compare("<=", dist_at(I, g, x, y, witness=False), t))
        e0 = g.fields["_empty"]
        pos = compare(">", t, 0)
        empty = e0 if pos is True else (True if pos is False else sv_or(e0, sv_not(pos)))
    r = make_geom(I, "Polygon", mem=mem, empty=empty, tag=g.tag + ".buffer")
    return r


def g_contains(I, a, b, strict):
    """a.contains(b) / a.covers(b) (G-contains)."""
    eng = I.eng
    w = world(I)
    r = eng.fresh_bool(f"{a.tag}.contains({b.tag})")
    w.add_fact(lambda x, y: sv_implies(sv_and(r, gmem(b, x, y)), gmem(a, x, y)))
    eb = b.fields["_empty"]
    if strict and eb is True:
        return False
    # a counter-witness when the answer is no (b non-empty is implied by the witness)
    cx, cy = eng.fresh_real("outside.x"), eng.fresh_real("outside.y")
    if strict and eb is not False:
        eng.assume(sv_or(r, eb, sv_and(gmem(b, cx, cy), sv_not(gmem(a, cx, cy)))))
        eng.assume(sv_implies(r, sv_not(eb)))
    else:
        eng.assume(sv_or(r, sv_and(gmem(b, cx, cy), sv_not(gmem(a, cx, cy)))))
    w.add_point(cx, cy)
    w.__dict__.setdefault("contains_log", []).append((a, b, r, (cx, cy)))
    return r


def g_intersects(I, a, b):
    """a.intersects(b) (G-intersects)."""
    eng = I.eng
    w = world(I)
    r = eng.fresh_bool(f"{a.tag}.intersects({b.tag})")
    w.add_fact(lambda x, y: sv_implies(sv_and(gmem(a, x, y), gmem(b, x, y)), r))
    sx, sy = eng.fresh_real("shared.x"), eng.fresh_real("shared.y")
    eng.assume(sv_implies(r, sv_and(gmem(a, sx, sy), gmem(b, sx, sy))))
    w.add_point(sx, sy)
    a.fields.setdefault("_intersects_log", []).append((b, r, (sx, sy)))
    return r


def g_bounds(I, g):
    eng = I.eng
    f = g.fields
    if "_bounds" not in f:
        b = tuple(eng.fresh_real(f"{g.tag}.{n}") for n in ("minx", "miny", "maxx", "maxy"))
        eng.assume(sv_and(compare("<=", b[0], b[2]), compare("<=", b[1], b[3])))
        f["_bounds"] = b
        world(I).add_fact(lambda x, y: sv_implies(gmem(g, x, y), sv_and(compare("<=", b[0], x), compare("<=", x, b[2]), compare("<=", b[1], y), compare("<=", y, b[3]))))
    return f["_bounds"]


# ------------------------------------------------------------------------------------------------
# module `shapely`


def _make_shapely(I):
    def kindfn(kind):
        def construct(*args, **kwargs):
            if kind == "MultiPolygon" and len(args) == 1:
                parts = BM.iterate(I, args[0])
                if all(is_geom(p) for p in parts) and len(parts) == 1:
                    p = parts[0]
                    return make_geom(I, "MultiPolygon", mem=p.fields["_mem"], empty=p.fields["_empty"], tag=p.tag + ".multi", area=p.fields["area"], length=p.fields["length"])
                if all(is_geom(p) for p in parts):
                    u = g_union(I, parts)
                    return u
            if kind == "MultiLineString" and len(args) == 1:
                parts = BM.iterate(I, args[0])
                if all(is_geom(p) for p in parts):
                    u = g_union(I, parts)
                    u.fields["_kind"] = "MultiLineString"
                    return u
            if kind == "Point":
                return point_geom(I, args[0] if len(args) == 1 else args)
            if kind == "Polygon" and len(args) == 1 and not kwargs and not is_geom(args[0]):
                try:
                    cs = [tuple(BM.iterate(I, p)) for p in BM.iterate(I, args[0])]
                except Exception:
                    cs = None
                if cs and len(cs) >= 3 and all(len(c) == 2 and all(is_scalar(x) for x in c) for c in cs):
                    return ring_polygon(I, cs)
            if kind == "LineString" and len(args) == 1 and not is_geom(args[0]):
                try:
                    cs = [tuple(BM.iterate(I, p)) for p in BM.iterate(I, args[0])]
                except Exception:
                    cs = None
                if cs and all(len(c) in (2, 3) and all(is_scalar(x) for x in c) for c in cs):
                    return line_geom(I, cs)
            # a geometry built from explicit coordinates: an abstract base geometry of that kind
            return make_geom(I, kind, empty=False, tag=kind.lower())

        b = BuiltinFn("shapely.geometry." + kind, construct)
        b.pytype = KINDS[kind]
        return b

    geometry = NativeModule("shapely.geometry", {k: kindfn(k) for k in DIM})

    def unary_union(geoms):
        return g_union(I, BM.iterate(I, geoms))

    def s_distance(a, b):
        return g_distance(I, a, b)

    def intersects_xy(g, x, y):
        world(I).add_point(x, y)
        return gmem(g, x, y)

    def polygons(coords, *rest, **kw):
        """shapely.polygons(array of coordinate arrays): one Polygon per entry (here: triangles)"""
        out = []
        for c in BM.iterate(I, coords):
            A = to_ndarr(I, c)
            if A.shape != (3, 2):
                raise PyvcError("shapely.polygons: only triangles (3 x 2 coordinate arrays) are modelled")
            out.append(tri_geom(I, A.data))
        return PList(out)

    def points(coords, *rest):
        if rest:
            coords = (coords,) + tuple(rest)
        return point_geom(I, BM.iterate(I, coords))

    def affine_transform(geom, matrix):
        """shapely.affinity.affine_transform(g, [a, b, d, e, xoff, yoff]) (G-affine): image of g under
        (x, y) -> (a x + b y + xoff, d x + e y + yoff); a polygon given by its vertex ring maps to the polygon over the
        images of its vertices, in the same order."""
        m = BM.iterate(I, matrix)
        if len(m) != 6 or not is_geom(geom) or "_rings" not in geom.fields or geom.fields["_rings"][1]:
            raise PyvcError("affine_transform: only the 2-d matrix form on a polygon given by its exterior ring is modelled")
        a, b, d, e, xo, yo = m
        img = lambda p: (arith("+", arith("+", arith("*", a, p[0]), arith("*", b, p[1])), xo), arith("+", arith("+", arith("*", d, p[0]), arith("*", e, p[1])), yo))
        out = ring_polygon(I, [img(p) for p in geom.fields["_rings"][0]], tag=geom.tag + ".affine")
        out.fields["_affine_of"] = (geom, tuple(m))
        return out

    affinity = NativeModule("shapely.affinity", {"affine_transform": BuiltinFn("affine_transform", affine_transform)})
    ops = NativeModule("shapely.ops", {"unary_union": BuiltinFn("unary_union", unary_union)})
    attrs = {
        "geometry": geometry,
        "ops": ops,
        "affinity": affinity,
        "prepare": BuiltinFn("prepare", lambda g: None),
        "distance": BuiltinFn("distance", s_distance),
        "intersects_xy": BuiltinFn("intersects_xy", intersects_xy),
        "points": BuiltinFn("points", points),
        "polygons": BuiltinFn("polygons", polygons),
        "unary_union": BuiltinFn("unary_union", unary_union),
    }
    for k in DIM:
        attrs[k] = geometry.attrs[k]
    return NativeModule("shapely", attrs)


EXTRA_MODULES["shapely"] = _make_shapely


def _isinstance_hook(I, x, cls):
    if isinstance(cls, GeomKind):
        return is_geom(x) and x.fields["_kind"] == cls.kind
    if cls is NDArr:
        return isinstance(x, NDArr)
    if isinstance(x, NDArr) or is_geom(x):
        return False
    return None


def _binop_fallback(I, sym, a, b):
    if isinstance(a, NDArr) or isinstance(b, NDArr):
        return nd_binop(I, sym, a, b)
    if is_geom(a) and is_geom(b):
        # `sym` is None for the bitwise operators: recover the operator from the current expression
        op = _current_bitop(I)
        if sym == "-":
            return g_difference(I, a, b)
        if op == "&":
            return g_intersection(I, a, b)
        if op == "|":
            return g_union(I, [a, b])
    raise PyvcError(f"binary operator {sym} on {a!r}, {b!r} not modelled (line {I.lineno})")


def _current_bitop(I):
    """The interpreter hands `sym=None` to the fallback for the bitwise operators; the operator node is the
    local `op` of the calling frame (builtins_model.binop_object)."""
    import ast
    import sys

    fr = sys._getframe(2)
    op = fr.f_locals.get("op")
    if isinstance(op, ast.BitAnd):
        return "&"
    if isinstance(op, ast.BitOr):
        return "|"
    return None


def _getattr_fallback(I, obj, name):
    if isinstance(obj, NDArr):
        return obj.attr(I, name)
    raise PyvcError(f"attribute {name!r} of {obj!r} not modelled (line {I.lineno})")


def _getitem_fallback(I, obj, idx):
    if isinstance(obj, NDArr):
        return obj.getitem(I, idx)
    raise PyvcError(f"subscript of {obj!r} not modelled (line {I.lineno})")


def _len_fallback(I, obj):
    if isinstance(obj, NDArr):
        if not obj.shape:
            I.raise_("TypeError", "len() of unsized object")
        return obj.shape[0]
    raise PyvcError(f"len of {obj!r} not modelled")


def _iterate_fallback(I, obj):
    if isinstance(obj, NDArr):
        if not obj.shape:
            I.raise_("TypeError", "iteration over a 0-d array")
        return [obj.getitem(I, i) for i in range(obj.shape[0])]
    if isinstance(obj, PObj) and isinstance(obj.cls, ClassVal) and "coordinates" in obj.fields:
        # collections.abc.Sequence protocol of Vector: __getitem__(0), (1), ... until IndexError
        return list(obj.fields["coordinates"])
    raise PyvcError(f"iteration over {obj!r} not modelled (line {I.lineno})")


def _compare_fallback(I, sym, a, b):
    if isinstance(a, NDArr) or isinstance(b, NDArr):
        A, B = to_ndarr(I, a), to_ndarr(I, b)
        if not B.shape:
            return _map(A, lambda x: compare(sym, x, B.data)) if A.shape else compare(sym, A.data, B.data)
        if not A.shape:
            return _map(B, lambda y: compare(sym, A.data, y))
        if A.shape == B.shape and len(A.shape) == 1:
            return NDArr(A.shape, [compare(sym, x, y) for x, y in zip(A.data, B.data)])
    raise PyvcError(f"comparison {sym} of {a!r} and {b!r} not modelled")


# ------------------------------------------------------------------------------------------------
# numpy


def _install_array_equality():
    """`array == scalar` / `array != scalar` are entry-wise (N-reduce), like the ordering comparisons routed through
    `_compare_fallback`; every other `==` keeps the interpreter's meaning."""
    if getattr(BM, "_ndarr_eq_installed", False):
        return
    BM._ndarr_eq_installed = True
    orig = BM.equal_values

    def equal_values(I, a, b):
        if (isinstance(a, NDArr) and is_scalar(b)) or (isinstance(b, NDArr) and is_scalar(a)):
            return _compare_fallback(I, "==", a, b)
        return orig(I, a, b)

    BM.equal_values = equal_values


class NDArr:
    """numpy array of known shape: 0-d (scalar), 1-d (list of scalars) or 2-d (list of rows)."""

    elementwise = True  # comparisons with arrays are arrays (interp.ex_Compare passes them through)

    def __init__(self, shape, data):
        self.shape = tuple(shape)
        self.data = data

    def __repr__(self):
        return f"NDArr{self.shape}"

    def rows(self):
        return self.data

    def attr(self, I, name):
        if name == "shape":
            return self.shape
        if name == "ndim":
            return len(self.shape)
        if name == "tolist":
            return BuiltinFn("tolist", lambda: PList(self.data) if len(self.shape) == 1 else PList([PList(r) for r in self.data]))
        raise PyvcError(f"numpy array attribute {name} not modelled")

    def getitem(self, I, idx):
        if not self.shape:
            I.raise_("IndexError", "too many indices for array")
        n = self.shape[0]
        if isinstance(idx, tuple):
            if len(idx) == 1:
                return self.getitem(I, idx[0])
            if len(idx) == 2 and len(self.shape) == 2 and isinstance(idx[0], slice) and isinstance(idx[1], slice):
                rows = self.data[idx[0]]
                rows = [list(r[idx[1]]) for r in rows]
                return NDArr((len(rows), len(rows[0]) if rows else len(range(self.shape[1])[idx[1]])), rows)
            if len(idx) == 2 and len(self.shape) == 2:
                row = self.getitem(I, idx[0])
                return row.getitem(I, idx[1])
            raise PyvcError("numpy multi-dimensional indexing form not modelled")
        if isinstance(idx, slice):
            if any(isinstance(x, SV) for x in (idx.start, idx.stop, idx.step)):
                raise PyvcError("symbolic slice of a numpy array not modelled")
            rows = self.data[idx]
            return NDArr((len(rows),) + self.shape[1:], [list(r) if isinstance(r, list) else r for r in rows])
        if isinstance(idx, (PList, list, NDArr)):
            # integer-array indexing: result[j] = self[idx[j]]
            ks = idx.data if isinstance(idx, NDArr) else (idx.items if isinstance(idx, PList) else idx)
            out = [self.getitem(I, k) for k in ks]
            if len(self.shape) == 1:
                return NDArr((len(out),), out)
            return NDArr((len(out),) + self.shape[1:], [list(r.data) for r in out])
        if isinstance(idx, SV):
            j = BM.norm_index(I, idx, n)
            if n == 0:
                raise PathEnd()
            out = self._row(0)
            for k in range(1, n):
                out = _merge(compare("==", j, k), self._row(k), out)
            return out
        if isinstance(idx, bool):
            idx = int(idx)
        if not isinstance(idx, int):
            raise PyvcError("numpy fancy indexing not modelled")
        if idx < -n or idx >= n:
            I.raise_("IndexError", "index out of bounds")
        return self._row(idx % n if n else 0)

    def _row(self, k):
        r = self.data[k]
        if len(self.shape) == 1:
            return r
        return NDArr(self.shape[1:], list(r))


def _merge(c, a, b):
    if isinstance(a, NDArr):
        return NDArr(a.shape, [_merge(c, x, y) for x, y in zip(a.data, b.data)])
    if isinstance(a, list):
        return [_merge(c, x, y) for x, y in zip(a, b)]
    return sv_ite(c, a, b)


def to_ndarr(I, v):
    if isinstance(v, NDArr):
        return v
    if is_scalar(v):
        return NDArr((), v)
    items = BM.iterate(I, v)
    if all(is_scalar(x) for x in items):
        return NDArr((len(items),), list(items))
    rows = [to_ndarr(I, x) for x in items]
    if rows and all(r.shape == rows[0].shape and len(r.shape) == 1 for r in rows):
        return NDArr((len(rows), rows[0].shape[0]), [list(r.data) for r in rows])
    if not rows:
        return NDArr((0,), [])
    raise PyvcError("ragged / higher-dimensional numpy array not modelled")


def nd_binop(I, sym, a, b):
    if sym not in ("+", "-", "*", "/"):
        raise PyvcError(f"numpy operator {sym} not modelled")
    A, B = to_ndarr(I, a), to_ndarr(I, b)
    op = lambda x, y: arith(sym, x, y)
    if not A.shape and not B.shape:
        return NDArr((), op(A.data, B.data))
    if not A.shape:
        return _map(B, lambda y: op(A.data, y))
    if not B.shape:
        return _map(A, lambda x: op(x, B.data))
    if A.shape == B.shape:
        if len(A.shape) == 1:
            return NDArr(A.shape, [op(x, y) for x, y in zip(A.data, B.data)])
        return NDArr(A.shape, [[op(x, y) for x, y in zip(r, s)] for r, s in zip(A.data, B.data)])
    if len(A.shape) == 2 and len(B.shape) == 1 and A.shape[1] == B.shape[0]:
        return NDArr(A.shape, [[op(x, y) for x, y in zip(r, B.data)] for r in A.data])
    if len(B.shape) == 2 and len(A.shape) == 1 and B.shape[1] == A.shape[0]:
        return NDArr(B.shape, [[op(x, y) for x, y in zip(A.data, r)] for r in B.data])
    I.raise_("ValueError", "operands could not be broadcast together")


def _map(A, f):
    if len(A.shape) == 1:
        return NDArr(A.shape, [f(x) for x in A.data])
    return NDArr(A.shape, [[f(x) for x in r] for r in A.data])


def _norm_key(I, xs):
    """Identity of an argument list: the z3 term ids; the terms are kept alive in `norm_terms` (ids of dead terms are re-used)."""
    terms = [toz3(x, want_real=True) for x in xs]
    key = tuple(t.get_id() for t in terms)
    world(I).__dict__.setdefault("norm_terms", {}).setdefault(key, terms)
    return key


def _norm_of(I, xs):
    """Euclidean norm of a list of entries.  The norm is a FUNCTION of its argument: the same entries (same terms) give
    the same value on a path (one Skolem constant per distinct argument list), so that a specification which mentions
    `|v - q|` talks about the very term the program computes."""
    if not xs:
        return 0.0
    if len(xs) == 1:
        return BM.mabs(I, xs[0])
    if not any(isinstance(x, SV) for x in xs):
        return BM.mhypot(I, *xs)
    cache = world(I).__dict__.setdefault("norms", {})
    key = _norm_key(I, xs)
    if key not in cache:
        if getattr(world(I), "abstract_norms", False):
            # only `norm is a non-negative function of its argument` is used (contracts that compare norms with each other and
            # with kernel radii but never look inside them): fewer non-linear facts, same proofs
            h = I.eng.fresh_real("norm")
            I.eng.assume(compare(">=", h, 0))
            cache[key] = h
        else:
            cache[key] = BM.mhypot(I, *xs)
    return cache[key]


def norm_of_difference(I, a, b):
    """|a - b| for coordinate sequences, as numpy computes it (entry-wise difference, then the norm); |a - b| = |b - a|."""
    a, b = list(a), list(b)
    cache = world(I).__dict__.setdefault("norms", {})
    fwd = [arith("-", x, y) for x, y in zip(a, b)]
    rev = [arith("-", y, x) for x, y in zip(a, b)]
    if any(isinstance(x, SV) for x in fwd):
        kf, kr = _norm_key(I, fwd), _norm_key(I, rev)
        if kf not in cache and kr in cache:
            cache[kf] = cache[kr]
    return _norm_of(I, fwd)


def _make_numpy(I):
    def array(v, *a, **k):
        return to_ndarr(I, v)

    def norm(x, ord=None, axis=None, keepdims=False):
        A = to_ndarr(I, x)
        if ord is not None:
            raise PyvcError("numpy.linalg.norm with ord not modelled")
        if axis is None:  # N-norm: Frobenius / 2-norm of ALL entries, one scalar
            if not A.shape:
                return BM.mabs(I, A.data)
            flat = list(A.data) if len(A.shape) == 1 else [x for r in A.data for x in r]
            return _norm_of(I, flat)
        if len(A.shape) == 2 and axis in (1, -1):
            return NDArr((A.shape[0],), [_norm_of(I, list(r)) for r in A.data])
        if len(A.shape) == 2 and axis == 0:
            cols = list(zip(*A.data)) if A.data else []
            return NDArr((A.shape[1],), [_norm_of(I, list(c)) for c in cols])
        if len(A.shape) == 1 and axis in (0, -1):
            return _norm_of(I, list(A.data))
        I.raise_("ValueError", "axis out of bounds")

    def argmin(x, axis=None):
        if is_scalar(x):
            return 0  # N-argmin: a scalar is a 0-d array; its flattened argmin is 0
        A = to_ndarr(I, x)
        if not A.shape:
            return 0
        if axis is not None or len(A.shape) != 1:
            raise PyvcError("numpy.argmin of a 2-d array / with axis not modelled")
        if A.shape[0] == 0:
            I.raise_("ValueError", "attempt to get argmin of an empty sequence")
        best, bi = A.data[0], 0
        for k in range(1, A.shape[0]):
            c = compare("<", A.data[k], best)
            best = sv_ite(c, A.data[k], best)
            bi = sv_ite(c, k, bi)
        return bi

    def amin(x, axis=None):
        A = to_ndarr(I, x)
        if len(A.shape) == 2 and axis == 0:
            return NDArr((A.shape[1],), [BM.mmin(I, *c) if len(c) > 1 else c[0] for c in zip(*A.data)])
        raise PyvcError("numpy.amin form not modelled")

    def amax(x, axis=None):
        A = to_ndarr(I, x)
        if len(A.shape) == 2 and axis == 0:
            return NDArr((A.shape[1],), [BM.mmax(I, *c) if len(c) > 1 else c[0] for c in zip(*A.data)])
        raise PyvcError("numpy.amax form not modelled")

    def np_all(x, axis=None):
        if isinstance(x, (bool, SV)):
            return x
        A = to_ndarr(I, x)
        flat = [A.data] if not A.shape else (list(A.data) if len(A.shape) == 1 else [v for r in A.data for v in r])
        return sv_and(*flat) if flat else True

    def np_any(x, axis=None):
        if isinstance(x, (bool, SV)):
            return x
        A = to_ndarr(I, x)
        flat = [A.data] if not A.shape else (list(A.data) if len(A.shape) == 1 else [v for r in A.data for v in r])
        return sv_or(*flat) if flat else False

    def np_max(x, axis=None):
        if is_scalar(x):
            return x
        A = to_ndarr(I, x)
        if axis is not None:
            return amax(x, axis)
        flat = [A.data] if not A.shape else (list(A.data) if len(A.shape) == 1 else [v for r in A.data for v in r])
        if not flat:
            I.raise_("ValueError", "zero-size array to reduction operation maximum which has no identity")
        return BM.mmax(I, *flat) if len(flat) > 1 else flat[0]

    def np_split(a, sections, axis=0):
        A = to_ndarr(I, a)
        if isinstance(sections, SV):
            raise PyvcError("numpy.split into a symbolic number of sections not modelled")
        n = int(sections)
        if n <= 0 or not A.shape or A.shape[0] % n:
            I.raise_("ValueError", "array split does not result in an equal division")
        step = A.shape[0] // n
        return PList([NDArr((step,) + A.shape[1:], [list(r) if isinstance(r, list) else r for r in A.data[j * step : (j + 1) * step]]) for j in range(n)])

    def np_where(cond, *rest):
        """numpy.where(mask) of a 2-d Boolean array: (row indices, column indices) of the true entries in row-major order (N-where)"""
        if rest:
            raise PyvcError("numpy.where(cond, x, y) not modelled")
        A = to_ndarr(I, cond)
        if len(A.shape) != 2:
            raise PyvcError("numpy.where of a non-2-d array not modelled")
        rows, cols = [], []
        for r in range(A.shape[0]):
            for c in range(A.shape[1]):
                v = A.data[r][c]
                if (v is True) or (v is not False and I.eng.branch(tobool(v))):
                    rows.append(r)
                    cols.append(c)
        return (NDArr((len(rows),), rows), NDArr((len(cols),), cols))

    linalg = NativeModule("numpy.linalg", {"norm": BuiltinFn("numpy.linalg.norm", norm)})
    nd = BuiltinFn("numpy.ndarray", lambda *a, **k: (_ for _ in ()).throw(PyvcError("numpy.ndarray() not modelled")))
    nd.pytype = NDArr
    return NativeModule(
        "numpy",
        {
            "array": BuiltinFn("numpy.array", array),
            "asarray": BuiltinFn("numpy.asarray", array),
            "linalg": linalg,
            "argmin": BuiltinFn("numpy.argmin", argmin),
            "amin": BuiltinFn("numpy.amin", amin),
            "amax": BuiltinFn("numpy.amax", amax),
            "split": BuiltinFn("numpy.split", np_split),
            "float64": float,
            "all": BuiltinFn("numpy.all", np_all),
            "any": BuiltinFn("numpy.any", np_any),
            "max": BuiltinFn("numpy.max", np_max),
            "ndarray": nd,
            "where": BuiltinFn("numpy.where", np_where),
            "newaxis": None,
        },
    )


EXTRA_MODULES["numpy"] = _make_numpy


# ------------------------------------------------------------------------------------------------
# trimesh


def make_mesh(I, tag="mesh"):
    """Abstract trimesh mesh: bounds + ray caster (T-ray, T-bounds).  `hits` configures the ray caster:
    mesh.fields['_cast'](origin, direction) -> None | hit point (tuple)."""
    eng = I.eng
    tag = eng.fresh_name(tag)
    m = PObj("Trimesh", tag=tag)
    lo = tuple(eng.fresh_real(f"{tag}.lo.{c}") for c in "xyz")
    hi = tuple(eng.fresh_real(f"{tag}.hi.{c}") for c in "xyz")
    for a, b in zip(lo, hi):
        eng.assume(compare("<=", a, b))
    m.fields["bounds"] = NDArr((2, 3), [list(lo), list(hi)])
    m.fields["extents"] = NDArr((3,), [arith("-", b, a) for a, b in zip(lo, hi)])
    bb = PObj("TrimeshBox", tag=tag + ".bounding_box")
    bb.fields["center_mass"] = NDArr((3,), [arith("/", arith("+", a, b), 2) for a, b in zip(lo, hi)])
    m.fields["bounding_box"] = bb
    m.fields["_lo"], m.fields["_hi"] = lo, hi
    memp = z3.Function(f"mem3!{tag}", _R, _R, _R, z3.BoolSort())

    def mem3(x, y, z):
        inside = SV(memp(toz3(x, want_real=True), toz3(y, want_real=True), toz3(z, want_real=True)))
        # T-bounds instance at this point
        eng.assume(sv_implies(inside, sv_and(*[sv_and(compare("<=", a, v), compare("<=", v, b)) for a, v, b in zip(lo, (x, y, z), hi)])))
        return inside

    m.fields["_mem3"] = mem3
    ray = PObj("RayIntersector", tag=tag + ".ray")
    calls = []
    m.fields["_ray_calls"] = calls

    def intersects_location(ray_origins=None, ray_directions=None, multiple_hits=True, **kw):
        origins = [to_ndarr(I, o) for o in BM.iterate(I, ray_origins)]
        dirs = [to_ndarr(I, d) for d in BM.iterate(I, ray_directions)]
        if multiple_hits is not False:
            raise PyvcError("intersects_location(multiple_hits=True) not modelled")
        rows, idx = [], []
        hits = []
        for k, (o, d) in enumerate(zip(origins, dirs)):
            has = eng.choose(2, f"ray {k} hits?") == 1
            if not has:
                hits.append(None)
                continue
            t = eng.fresh_real(f"{tag}.ray{k}.t")
            eng.assume(compare(">=", t, 0))
            p = [arith("+", oc, arith("*", t, dc)) for oc, dc in zip(o.data, d.data)]
            eng.assume(mem3(*p))
            rows.append(p)
            idx.append(k)
            hits.append((t, tuple(p)))
        calls.append(dict(origins=origins, directions=dirs, hits=hits))
        return (NDArr((len(rows), 3), rows), NDArr((len(idx),), idx), NDArr((len(idx),), [0] * len(idx)))

    ray.fields["intersects_location"] = BuiltinFn("intersects_location", intersects_location)
    m.fields["ray"] = ray
    return m


def _make_trimesh(I):
    def proximity_query(mesh):
        q = PObj("ProximityQuery")
        q.fields["signed_distance"] = BuiltinFn("signed_distance", lambda pts: mesh.fields["_signed_distance"](pts))
        return q

    def volume_mesh(mesh, count):
        return mesh.fields["_volume_sample"](count)

    proximity = NativeModule("trimesh.proximity", {"ProximityQuery": BuiltinFn("ProximityQuery", proximity_query)})
    sample = NativeModule("trimesh.sample", {"volume_mesh": BuiltinFn("volume_mesh", volume_mesh)})
    return NativeModule("trimesh", {"proximity": proximity, "sample": sample})


EXTRA_MODULES["trimesh"] = _make_trimesh


# ------------------------------------------------------------------------------------------------
# fcl (collision kernel): answers come from the contract's geometry-kernel oracle


def _make_fcl(I):
    def collision_object(*args, **kwargs):
        o = PObj("FclCollisionObject")
        o.fields["args"] = tuple(args)
        return o

    def collide(a, b, *rest, **kwargs):
        for x in (a, b):
            g = x.fields["args"][0] if isinstance(x, PObj) and x.fields.get("args") else None
            if isinstance(g, PObj) and "_collide" in g.fields:
                return g.fields["_collide"](a, b)
        raise PyvcError("fcl.collide on objects without a kernel oracle")

    return NativeModule("fcl", {"CollisionObject": BuiltinFn("fcl.CollisionObject", collision_object), "collide": BuiltinFn("fcl.collide", collide)})


EXTRA_MODULES.setdefault("fcl", _make_fcl)


# ------------------------------------------------------------------------------------------------
# mapbox_earcut (trusted triangulation kernel, E-earcut)


def _make_earcut(I):
    def triangulate_float64(vertices, rings):
        eng = I.eng
        V, R = to_ndarr(I, vertices), to_ndarr(I, rings)
        if len(V.shape) != 2 or V.shape[1] != 2 or len(R.shape) != 1:
            I.raise_("ValueError", "triangulate_float64: vertices must be n x 2 and rings 1-dimensional")
        n, h = V.shape[0], R.shape[0] - 1
        k = max(n + 2 * h - 2, 0)
        idx = []
        for j in range(3 * k):
            v = eng.fresh_int(f"earcut.index{j}")
            eng.assume(sv_and(compare("<=", 0, v), compare("<", v, n)))
            idx.append(v)
        res = NDArr((3 * k,), idx)
        world(I).__dict__.setdefault("earcut_calls", []).append(dict(vertices=V, rings=R, result=res))
        return res

    return NativeModule("mapbox_earcut", {"triangulate_float64": BuiltinFn("mapbox_earcut.triangulate_float64", triangulate_float64)})


EXTRA_MODULES["mapbox_earcut"] = _make_earcut
