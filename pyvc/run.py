"""Check driver: ./check <property> --tier quick|thorough  (see DESIGN.md section 4).

exit 0  every obligation proved (known findings reproduced as listed)
exit 1  VIOLATION (replayed counterexample, or regression of a locked obligation with a solver model)
exit 2  undecided obligations (unknown / timeout / candidate that does not replay and was never locked)
exit 3  checker failure (extraction error, engine error, vacuity guard)
"""
import argparse
import hashlib
import importlib
import json
import multiprocessing as mp
import os
import sys
import time
import traceback

ROOT = os.path.dirname(os.path.dirname(os.path.abspath(__file__)))
sys.path.insert(0, ROOT)

from pyvc import contracts as C  # noqa: E402
from pyvc import extract  # noqa: E402


def load_props():
    import contracts.props as props

    return props


def build_registry(modnames):
    reg = C.Registry()
    for m in modnames:
        mod = importlib.import_module("contracts." + m)
        mod.register(reg)
    return reg


def _verify_worker(args):
    modnames, target, timeout_ms, use_cvc5, sample_paths, cross = args
    t0 = time.time()
    try:
        reg = build_registry(modnames)
        c = reg.contracts[target]
        rep = C.verify(reg, c, timeout_ms=timeout_ms, use_cvc5=use_cvc5, sample_paths=sample_paths, cross_check_cvc5=cross)
        insts = [
            dict(name=o.name, verdict=o.verdict, backend=o.backend, seconds=round(o.seconds, 4), model=_jsonable(o.model), detail=o.detail, line=o.line, kind=o.kind, path=o.path)
            for o in rep.instances
        ]
        return dict(
            target=target,
            error=rep.error,
            paths=rep.paths,
            instances=insts,
            extracted=rep.extracted.describe() if rep.extracted else None,
            solver_seconds=rep.solver_seconds,
            covered=rep.covered,
            axioms=rep.axioms,
            wall=time.time() - t0,
            bounded=c.bounded,
            path_samples=_jsonable(rep.path_samples),
        )
    except Exception as e:
        return dict(target=target, error="worker crashed: " + traceback.format_exc(), paths=0, instances=[], extracted=None, solver_seconds=0, covered={}, axioms=[], wall=time.time() - t0, bounded=False)


def _jsonable(x):
    if x is None or isinstance(x, (int, float, str, bool)):
        return x
    if isinstance(x, dict):
        return {str(k): _jsonable(v) for k, v in x.items()}
    if isinstance(x, (list, tuple)):
        return [_jsonable(v) for v in x]
    return repr(x)


def _replay_worker(modnames, target, inputs, clause, q):
    try:
        reg = build_registry(modnames)
        c = reg.contracts[target]
        r = c.replay(inputs, clause)
        q.put(("ok", r))
    except BaseException as e:
        import traceback as tb

        frames = tb.extract_tb(e.__traceback__)
        inner = frames[-1].filename if frames else ""
        in_repo = any(f.filename.startswith(extract.REPO + os.sep) for f in frames)
        if in_repo and not isinstance(e, (KeyboardInterrupt, SystemExit)):
            where = [f for f in frames if f.filename.startswith(extract.REPO + os.sep)][-1]
            q.put(("ok", f"real code raised {type(e).__name__}: {e} at {os.path.relpath(where.filename, extract.REPO)}:{where.lineno} (not allowed by the contract)"))
        else:
            q.put(("error", traceback.format_exc()))


def replay(modnames, target, inputs, clause, timeout=120):
    """Run the contract's replay driver on the real code in a subprocess.
    Returns ('violation', text) | ('holds', None) | ('error', text) | ('timeout', None)."""
    ctx = mp.get_context("fork")
    q = ctx.Queue()
    p = ctx.Process(target=_replay_worker, args=(modnames, target, inputs, clause, q))
    p.start()
    p.join(timeout)
    if p.is_alive():
        p.terminate()
        p.join()
        return ("timeout", f"real function did not return within {timeout}s")
    try:
        kind, r = q.get(timeout=5)
    except Exception:
        return ("error", "replay process died")
    if kind == "error":
        return ("error", r)
    return ("violation", r) if r else ("holds", None)


def _replay_batch_worker(modnames, target, samples, q):
    out = []
    try:
        reg = build_registry(modnames)
        c = reg.contracts[target]
        for inp in samples:
            try:
                r = c.replay(inp, "*")
                out.append(("violation", r) if r else ("holds", None))
            except BaseException as e:
                out.append(("driver-error", f"{type(e).__name__}: {e}"))
    finally:
        q.put(out)


def replay_batch(modnames, target, samples, timeout=120):
    ctx = mp.get_context("fork")
    q = ctx.Queue()
    p = ctx.Process(target=_replay_batch_worker, args=(modnames, target, samples, q))
    p.start()
    try:
        out = q.get(timeout=timeout)
    except Exception:
        out = [("timeout", None)] * len(samples)
    p.join(5)
    if p.is_alive():
        p.kill()
    return out


def load_samples(pid):
    path = os.path.join(ROOT, "locks", f"{pid}.samples.json")
    if os.path.exists(path):
        return json.load(open(path))
    return {}


def load_known():
    path = os.path.join(ROOT, "KNOWN_FINDINGS.jsonl")
    out = []
    if os.path.exists(path):
        for line in open(path):
            line = line.strip()
            if line and not line.startswith("#"):
                out.append(json.loads(line))
    return out


def load_lock(pid=None):
    """Obligations proved on the unchanged tree, one committed file per property (locks/<id>.json)."""
    out = {}
    d = os.path.join(ROOT, "locks")
    if os.path.isdir(d):
        for fn in os.listdir(d):
            if fn.endswith(".json"):
                out[fn[:-5]] = json.load(open(os.path.join(d, fn)))
    return out


def clause_of(name):
    return name.split("#", 1)[1] if "#" in name else name


def run_property(pid, tier, seed, update_lock=False, only=None, verbose=False):
    t_start = time.time()
    props = load_props()
    spec = props.PROPERTIES[pid]
    modnames = list(spec["modules"])
    borrow = spec.get("borrow")  # contracts of another property's modules that this property also depends on
    timeout_ms = 20000 if tier == "quick" else 120000
    extract.clear_cache()
    reg = build_registry(modnames)
    targets = [t for t, c in reg.contracts.items() if pid in c.properties and not c.call_only]
    target_mods = {t: modnames for t in targets}
    if borrow:
        # borrowed contracts are verified in a registry of their own modules (library models of different
        # contract modules must not interfere)
        bmods = list(borrow["modules"])
        breg = build_registry(bmods)
        for t, c in breg.contracts.items():
            if t not in target_mods and not c.call_only and any(k in t for k in borrow["match"]):
                targets.append(t)
                target_mods[t] = bmods
                reg.contracts.setdefault(t, c)
        for n_, t_ in breg.trusted:
            if (n_, t_) not in reg.trusted:
                reg.trusted.append((n_, t_))
    if only:
        targets = [t for t in targets if only in t]
    if not targets:
        print(f"checker failure: no contracts registered for {pid}")
        return 3
    sample_paths = 2 if tier == "quick" else 40
    jobs = [(target_mods[t], t, timeout_ms, True, sample_paths, tier != "quick") for t in targets]
    nproc = min(16, len(jobs), os.cpu_count() or 4)
    ctx = mp.get_context("fork")
    with ctx.Pool(nproc) as pool:
        reports = pool.map(_verify_worker, jobs, chunksize=1)

    errors = [r for r in reports if r["error"]]
    # aggregate instances by obligation name
    obl = {}
    for r in reports:
        for o in r["instances"]:
            e = obl.setdefault(o["name"], dict(name=o["name"], target=r["target"], instances=[], kind=o["kind"], bounded=False))
            e["instances"].append(o)
            # a bounded contract (stated input bound) or a run-time stand-in is never counted as proved
            e["bounded"] = e["bounded"] or bool(r.get("bounded")) or o["kind"] == "bounded"
    for e in obl.values():
        vs = [o["verdict"] for o in e["instances"]]
        if all(v == "proved" for v in vs):
            e["verdict"] = "proved"
        elif any(v in ("refuted", "candidate") for v in vs):
            e["verdict"] = "failed"
        else:
            e["verdict"] = "unknown"
        e["seconds"] = round(sum(o["seconds"] for o in e["instances"]), 4)
        e["backend"] = "+".join(sorted({o["backend"] for o in e["instances"]}))

    # replay children are forked: importing the repository once here makes every replay start instantly
    try:
        import scenic  # noqa: F401
        import scenic.syntax.veneer  # noqa: F401
    except Exception as e:  # the tree may be broken: replays will report it
        print(f"note: importing scenic from the tree under test failed: {type(e).__name__}: {e}")
    known = [k for k in load_known() if k.get("property") == pid]
    lock = load_lock().get(pid, [])
    violations = []
    known_hits = []
    undecided = []
    replay_dir = os.path.join(os.environ.get("PYVC_REPLAY_DIR") or os.path.join(ROOT, "replays"), pid)
    for name, e in sorted(obl.items()):
        if e["verdict"] == "proved":
            continue
        c = reg.contracts[e["target"]]
        confirmed = None
        tried = 0
        solver_says_sat = False
        outputs = []
        for o in e["instances"]:
            if o["verdict"] in ("refuted", "candidate"):
                solver_says_sat = solver_says_sat or o["verdict"] == "refuted"
                if c.replay is None or o["model"] is None or tried >= 6:
                    continue
                tried += 1
                kind, text = replay(target_mods.get(e["target"], modnames), e["target"], o["model"], clause_of(name))
                outputs.append(dict(model=o["model"], replay=kind, text=text, detail=o["detail"]))
                if kind in ("violation", "timeout"):
                    confirmed = dict(model=o["model"], text=text if kind == "violation" else "NON-TERMINATION: " + text, detail=o["detail"])
                    break
        e["replays"] = outputs
        if confirmed is None and e["kind"] == "bounded":
            bad = [o for o in e["instances"] if o["verdict"] != "proved"]
            if bad and all(o["verdict"] == "refuted" for o in bad):
                # a bounded stand-in runs the real code itself: its failing item is the observation
                confirmed = dict(model=bad[0]["model"], text="bounded stand-in observed on the real code: " + str(bad[0]["detail"]), detail=bad[0]["detail"])
        if confirmed is not None:
            hit = None
            for k in known:
                if k.get("status") == "known" and _same_obligation(k.get("obligation"), name) and _match_known(k, confirmed):
                    hit = k
                    break
            if hit is not None:
                known_hits.append((hit, confirmed))
                e["verdict"] = "known-finding"
            else:
                os.makedirs(replay_dir, exist_ok=True)
                path = os.path.join(replay_dir, _safe(name) + ".json")
                json.dump(dict(property=pid, obligation=name, target=e["target"], inputs=confirmed["model"], observed=confirmed["text"], solver_detail=confirmed["detail"]), open(path, "w"), indent=1)
                violations.append((name, path, confirmed["text"], False))
                e["verdict"] = "violated"
        else:
            # an obligation that only exists on new paths (e.g. an exception the unchanged tree never raised)
            # counts as locked when the other obligations of the same contract are locked
            cshort = name.split("#", 1)[0]
            implicitly_locked = name not in lock and any(l.startswith(cshort + "#") for l in lock)
            if solver_says_sat and (name in lock or implicitly_locked):
                os.makedirs(replay_dir, exist_ok=True)
                path = os.path.join(replay_dir, _safe(name) + ".json")
                json.dump(
                    dict(property=pid, obligation=name, target=e["target"], note="obligation proved on the unchanged tree is now refuted by the solver; no replayable input found", solver_output=[dict(verdict=o["verdict"], backend=o["backend"], model=o["model"], detail=o["detail"], line=o["line"]) for o in e["instances"] if o["verdict"] != "proved"], replays=outputs),
                    open(path, "w"),
                    indent=1,
                )
                violations.append((name, path, "no-failing-input-found", True))
                e["verdict"] = "violated-no-input"
            else:
                undecided.append(name)
    # ---- cross-check of engine + contract + driver against the real code: concrete inputs drawn from the
    # path conditions of fully proved contracts must NOT make the replay driver report a violation
    xcheck = dict(inputs=0, disagreements=[])
    todo = []
    for r in reports:
        if r["error"] or not r.get("path_samples"):
            continue
        names = {o["name"] for o in r["instances"]}
        if any(obl[n]["verdict"] != "proved" for n in names):
            continue
        todo.append(r)
    from concurrent.futures import ThreadPoolExecutor

    with ThreadPoolExecutor(max_workers=8) as tp:
        results = list(tp.map(lambda r: replay_batch(target_mods.get(r["target"], modnames), r["target"], r["path_samples"]), todo))
    for r, res in zip(todo, results):
        xcheck["inputs"] += len(r["path_samples"])
        for inp, (kind, text) in zip(r["path_samples"], res):
            if kind in ("violation",):
                xcheck["disagreements"].append(dict(target=r["target"], inputs=inp, text=text))
    # ---- contracts the engine could not process on this tree (construct outside the subset after an edit):
    # their replay driver is run once on the inputs recorded when the contract was last locked; a violation it
    # reports is a replayed observation on the real code (the checker error itself stays an exit-3 condition)
    samples_db = load_samples(pid)
    for r in errors:
        c = reg.contracts.get(r["target"])
        if c is None or c.replay is None:
            continue
        inputs = samples_db.get(r["target"]) or [{}]
        res = replay_batch(target_mods.get(r["target"], modnames), r["target"], inputs[:6])
        for inp, (kind, text) in zip(inputs, res):
            if kind == "violation":
                name = f"{c.short}#replay-of-recorded-inputs"
                os.makedirs(replay_dir, exist_ok=True)
                path = os.path.join(replay_dir, _safe(name) + ".json")
                json.dump(dict(property=pid, obligation=name, target=r["target"], inputs=inp, observed=text, note="the verifier could not process this function on the current tree (" + str(r["error"])[:200] + "); the contract's replay driver reports this on the real code"), open(path, "w"), indent=1)
                violations.append((name, path, text, False))
                break
    # known findings that no longer reproduce are simply not printed (a fixed defect is fine)

    # vacuity guards
    vac = []
    total_instances = sum(len(e["instances"]) for e in obl.values())
    if total_instances == 0:
        vac.append("zero obligations generated")
    for r in reports:
        if not r["error"] and not r["covered"].get("requires"):
            vac.append(f"{r['target']}: precondition unsatisfiable (no path entered the body)")
        if not r["error"] and not r["instances"]:
            vac.append(f"{r['target']}: no obligation instance generated")

    n_known = sum(1 for e in obl.values() if e["verdict"] == "known-finding")
    # obligations refuted by a listed known finding are reported separately (coverage.known_finding_obligations)
    # and are not part of the proof claim
    n_obl = sum(1 for e in obl.values() if e["verdict"] != "known-finding" and not e["bounded"])
    n_proved = sum(1 for e in obl.values() if e["verdict"] == "proved" and not e["bounded"])
    nb_obl = sum(1 for e in obl.values() if e["verdict"] != "known-finding" and e["bounded"])
    nb_held = sum(1 for e in obl.values() if e["verdict"] == "proved" and e["bounded"])

    def _verdict(e):
        return "held-bounded" if e["bounded"] and e["verdict"] == "proved" else e["verdict"]

    def _backend(e):
        return "run-time contract on the real code (bounded stand-in)" if e["kind"] == "bounded" else e["backend"]
    wall = time.time() - t_start

    # ---- evidence
    trusted = ["pyvc encoder (self-built VC generator; mutants and CPython cross-checks in thorough tier)", "z3 5.1.0 (python API)", "cvc5 1.0.3 CLI for obligations z3 leaves unknown"]
    trusted += [f"{n}: {t}" for n, t in reg.trusted]
    trusted += [f"assumed contract (used at call sites, not verified): {t}" for t, c in reg.contracts.items() if c.call_only]
    axioms = sorted({a for r in reports for a in r["axioms"]})
    from pyvc.builtins_model import LIBRARY_CONTRACTS

    used_lib = sorted({a.split(".")[0] for a in axioms if a.startswith("L-")})
    trusted += [f"{k}: {LIBRARY_CONTRACTS[k]}" for k in used_lib if k in LIBRARY_CONTRACTS]
    samples = []
    for e in list(obl.values())[:4]:
        samples.append(dict(obligation=e["name"], verdict=e["verdict"] if not e.get("bounded") else "held-bounded" if e["verdict"] == "proved" else e["verdict"], instances=len(e["instances"]), backend=e["backend"]))
    ev = dict(
        property_id=pid,
        tier=tier,
        seed=seed,
        level=spec["level"],
        wall_s=round(wall, 2),
        violations=len(violations),
        coverage=dict(
            obligations=n_obl,
            discharged=n_proved,
            obligation_instances=total_instances,
            checker_cmd=f"./check {pid} --tier {tier}",
            trusted_base=trusted,
            functions=[dict(r["extracted"] or {"qualname": r["target"]}, contract=r["target"], wall_s=round(r["wall"], 2), paths=r["paths"], obligations=len({o["name"] for o in r["instances"]}), bounded=r["bounded"], error=r["error"]) for r in reports],
            bounded_checks=dict(total=nb_obl, held=nb_held, note="obligations of contracts with a stated input bound and of run-time stand-ins: reported here, never counted under obligations/discharged"),
            obligation_log=[dict(name=e["name"], verdict=_verdict(e), kind="bounded" if e["bounded"] else "deductive", backend=_backend(e), seconds=e["seconds"], instances=len(e["instances"])) for e in obl.values()],
            solver_seconds=round(sum(r["solver_seconds"] for r in reports), 2),
            axioms=axioms,
            extraction_drops=extract.EXTRACTION_DROPS,
            bounded_standins=spec.get("bounded", []),
            not_reached=spec.get("not_reached", []),
            known_findings=[k["what"] for k, _ in known_hits],
            known_finding_obligations=[e["name"] for e in obl.values() if e["verdict"] == "known-finding"],
            cross_check=dict(concrete_inputs_replayed_on_real_code=xcheck["inputs"], disagreements=len(xcheck["disagreements"])),
            undecided=undecided,
            samples=samples,
            explanation=spec.get("explanation") or (spec.get("claim", "") + " | " + spec.get("note", "")),
            evaluations=total_instances,
            distinct_nontrivial=n_obl,
            rule="one evaluation = one obligation instance (obligation x path) discharged by SMT; distinct = obligation names",
        ),
        assumptions=spec.get("assumptions", []) + ["A1: machine floats treated as mathematical reals", "engine semantics of the Python subset as listed in DESIGN.md 2.3"],
    )
    evdir = os.environ.get("PYVC_EVIDENCE_DIR") or os.path.join(ROOT, "evidence")  # seeded-change runs write elsewhere
    os.makedirs(evdir, exist_ok=True)
    json.dump(ev, open(os.path.join(evdir, f"{pid}.json"), "w"), indent=1)

    # ---- report
    print(f"[{pid}] {len(targets)} functions under contract, {n_obl} obligations ({total_instances} instances), {n_proved} proved" + (f"; {nb_obl} bounded checks, {nb_held} held" if nb_obl else "") + f", wall {wall:.1f}s")
    if verbose:
        for e in obl.values():
            print(f"   {_verdict(e):10s} {e['name']}  [{_backend(e)}, {e['seconds']}s, {len(e['instances'])} inst]")
    for k, conf in known_hits:
        print(f"KNOWN-FINDING: property={pid} {k['what']}")
    for name, path, text, noinput in violations:
        rel = os.path.relpath(path, ROOT)
        if noinput:
            print(f"   failed obligation {name}")
            print(f"VIOLATION property={pid} replay={rel} no-failing-input-found")
        else:
            print(f"   failed obligation {name}: {text}")
            print(f"VIOLATION property={pid} replay={rel}")
    for r in errors:
        print(f"CHECKER-ERROR {r['target']}: {r['error']}")
    for d in xcheck["disagreements"]:
        print(f"CHECKER-ERROR cross-check: all obligations of {d['target']} are proved but the replay driver reports on inputs {json.dumps(d['inputs'])[:300]}: {d['text']}")
    for v in vac:
        print(f"VACUITY {v}")
    for u in undecided:
        print(f"UNDECIDED {u}")
    if update_lock and not errors:
        os.makedirs(os.path.join(ROOT, "locks"), exist_ok=True)
        json.dump(sorted(n for n, e in obl.items() if e["verdict"] == "proved" and e["kind"] != "bounded"), open(os.path.join(ROOT, "locks", f"{pid}.json"), "w"), indent=0)
        json.dump({r["target"]: r.get("path_samples", [])[:6] for r in reports if r.get("path_samples")}, open(os.path.join(ROOT, "locks", f"{pid}.samples.json"), "w"), indent=0)
        lock = []
    if violations:
        return 1
    if errors or vac or xcheck["disagreements"]:
        return 3
    if undecided:
        return 2
    # locked obligations that disappeared: the generator no longer produces them (checker condition)
    missing = [n for n in lock if n not in obl and (not only)]
    if missing:
        for m in missing:
            print(f"CHECKER-ERROR locked obligation no longer generated: {m}")
        return 3
    return 0


def _same_obligation(pattern, name):
    """A known finding names one obligation; for stand-in obligations whose name contains the corpus group chosen by
    the tier/seed the group may be written as `*` (the finding is then pinned down by its `match` strings)."""
    if pattern == name:
        return True
    if pattern and "*" in pattern:
        import fnmatch

        return fnmatch.fnmatchcase(name, pattern.replace("[", "[[]"))
    return False


def _match_known(k, confirmed):
    m = k.get("match")
    if not m:
        return True
    txt = (confirmed.get("text") or "") + " " + json.dumps(confirmed.get("model"), sort_keys=True)
    return all(s in txt for s in (m if isinstance(m, list) else [m]))


def _safe(name):
    return "".join(ch if ch.isalnum() or ch in "._-" else "_" for ch in name)[:120]


def main():
    ap = argparse.ArgumentParser()
    ap.add_argument("property")
    ap.add_argument("--tier", default=os.environ.get("VERIF_TIER", "quick"))
    ap.add_argument("--update-lock", action="store_true")
    ap.add_argument("--only")
    ap.add_argument("-v", "--verbose", action="store_true")
    ap.add_argument("--replay")
    a = ap.parse_args()
    seed = int(os.environ.get("VERIF_SEED", "0"))
    os.environ["VERIF_TIER"] = a.tier  # bounded stand-ins size themselves from the tier
    if a.replay:
        data = json.load(open(a.replay))
        props = load_props()
        modnames = props.PROPERTIES[data["property"]]["modules"]
        kind, text = replay(modnames, data["target"], data.get("inputs"), clause_of(data["obligation"]))
        print(kind, text)
        sys.exit(1 if kind in ("violation", "timeout") else 0)
    try:
        rc = run_property(a.property, a.tier, seed, a.update_lock, a.only, a.verbose)
    except Exception:
        traceback.print_exc()
        rc = 3
    sys.exit(rc)


if __name__ == "__main__":
    main()
