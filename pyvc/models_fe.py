"""Library models used by the front-end / road-network contracts (C09, C10, C20).

Nothing here is Scenic code.  Every model is a *trusted* statement about a library the carriers call
(`sys`, `os`, `hashlib`, `enum`, native `ast` node instances); the contract modules list each of them
with `reg.trust(...)` so that they appear in the evidence."""
import ast as _ast

from .builtins_model import AnyException, NativeModule
from .interp import BuiltinFn, ClassVal, SymRaise
from .values import Opaque, PDict, PExc, PList, PObj


def chain_hook(reg, slot, fn):
    """Install `fn` in a single-slot registry hook, keeping a previously installed hook as fallback."""
    prev = getattr(reg, slot, None)

    def hook(*a, **k):
        r = fn(*a, **k)
        if r is None and prev is not None:
            return prev(*a, **k)
        return r

    setattr(reg, slot, hook)


def install_native_ast_isinstance(reg):
    """`isinstance(x, C)` where x is a *native* instance of a class of the repository (real
    scenic.syntax.ast node built with the real class) and C the same class known through its source (ClassVal):
    decided by name along the native MRO."""

    def hook(I, x, cls):
        if isinstance(cls, ClassVal) and isinstance(x, _ast.AST) and not isinstance(x, (PObj, PExc)):
            for k in type(x).__mro__:
                if k.__name__ == cls.name and getattr(k, "__module__", None) == cls.modname:
                    return True
            return False
        return None

    chain_hook(reg, "isinstance_hook", hook)


def may_raise(I, label, result=None, exc=AnyException):
    """An unknown callee: returns `result` or raises (forks).  It does not touch the modelled heap."""
    if I.eng.choose(2, f"{label} raises?") == 1:
        raise SymRaise(PExc(exc, (f"raised by {label}",)))
    return result() if callable(result) else result


def unknown_callee(label, result=None, exc=AnyException):
    return lambda I, *a, **k: may_raise(I, label, result, exc)


def make_sys(I, path_items=None):
    modules = Opaque("sys.modules")
    modules.attrs = {"keys": BuiltinFn("keys", lambda: ()), "copy": BuiltinFn("copy", lambda: PDict()), "get": BuiltinFn("get", lambda *a: None)}
    return NativeModule("sys", {"modules": modules, "path": PList(list(path_items or [])), "version_info": (3, 12, 1)})


def make_os(I, getcwd_may_fail=True):
    def getcwd():
        if getcwd_may_fail:
            return may_raise(I, "os.getcwd", "<cwd>", OSError)
        return "<cwd>"

    def dirname(p):
        return "<dirname>"

    return NativeModule("os", {"getcwd": BuiltinFn("getcwd", getcwd), "path": NativeModule("os.path", {"dirname": BuiltinFn("dirname", dirname)})})


def install_native_ast_setattr(reg):
    """Attribute assignment on a native `ast` node (the transformer mutates the nodes it is given)."""

    prev = reg.setattr_fallback

    def chained(I, obj, name, v):
        if isinstance(obj, _ast.AST):
            setattr(obj, name, v)
            return None
        if prev is not None:
            return prev(I, obj, name, v)
        from .values import PyvcError

        raise PyvcError(f"cannot set attribute {name} on {obj!r}")

    reg.setattr_fallback = chained


def as_list(x):
    """python list view of a list-like model value (PList / list / tuple)."""
    if isinstance(x, PList):
        return list(x.items)
    return list(x or [])
