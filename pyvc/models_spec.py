"""Library models needed by the C06 contracts (specifier resolution).

* `collections.Counter` (over a concrete iterable), `collections.defaultdict(factory)`
* `types.SimpleNamespace(**kw)` (attribute bag whose `__dict__.copy()` lists the attributes in insertion order)
* `object.__setattr__(o, name, v)`

Everything here is a model of the *Python library*, not of Scenic code.  `install(reg)` chains the registry
hooks (it keeps whatever hook another module installed before)."""
from . import builtins_model as bm
from .interp import BuiltinFn
from .values import PDict, PList, PObj, PSet, PyvcError, SSeq

bm.LIBRARY_CONTRACTS["L-collections"] = (
    "collections.Counter(iterable) maps each distinct element to its number of occurrences (insertion order); "
    "collections.defaultdict(factory) is a dict whose __getitem__ inserts factory() for a missing key; "
    "types.SimpleNamespace is an attribute bag (attributes in insertion order); object.__setattr__ sets an attribute"
)


class PDefaultDict:
    """collections.defaultdict: a dict (`inner`) plus a factory used by __getitem__ on a missing key."""

    def __init__(self, factory, inner=None):
        self.factory = factory
        self.inner = inner if inner is not None else PDict()

    def __repr__(self):
        return f"PDefaultDict({self.inner!r})"


class NamespaceDict:
    """`ns.__dict__` of a SimpleNamespace model (live view)."""

    def __init__(self, ns):
        self.ns = ns


def namespace_items(ns):
    return [(k, v) for k, v in ns.fields.items() if k != "__dict__"]


def _make_collections(I):
    def counter(it=()):
        d = PDict()
        for x in bm.iterate(I, it):
            i = bm.dict_find(I, d, x)
            if i >= 0:
                d.vals[i] = d.vals[i] + 1
            else:
                d.set(x, 1)
        return d

    def defaultdict(factory=None, *a):
        dd = PDefaultDict(factory)
        if a:
            src = a[0]
            if isinstance(src, PDict):
                for k, v in zip(src.keys, src.vals):
                    dd.inner.set(k, v)
            else:
                raise PyvcError("defaultdict(factory, iterable) not modelled")
        return dd

    return bm.NativeModule("collections", {"Counter": BuiltinFn("Counter", counter), "defaultdict": BuiltinFn("defaultdict", defaultdict)})


def _make_types(I):
    def simple_namespace(**kw):
        ns = PObj("SimpleNamespace")
        for k, v in kw.items():
            ns.fields[k] = v
        ns.fields["__dict__"] = NamespaceDict(ns)
        return ns

    return bm.NativeModule("types", {"SimpleNamespace": BuiltinFn("SimpleNamespace", simple_namespace)})


bm.EXTRA_MODULES.setdefault("collections", _make_collections)
bm.EXTRA_MODULES.setdefault("types", _make_types)


def install(reg):
    """Chain the fallback hooks for the model classes above."""
    if getattr(reg, "_models_spec_installed", False):
        return
    reg._models_spec_installed = True
    prev_getattr, prev_getitem, prev_setitem = reg.getattr_fallback, reg.getitem_fallback, reg.setitem_fallback
    prev_iter, prev_contains, prev_len = reg.iterate_fallback, reg.contains_fallback, reg.len_fallback

    def getattr_fb(I, obj, name):
        if obj is object and name == "__setattr__":
            return BuiltinFn("object.__setattr__", lambda o, n, v: bm.set_attr(I, o, n, v))
        if isinstance(obj, PDefaultDict):
            return bm.dict_method(I, obj.inner, name)
        if isinstance(obj, NamespaceDict):
            if name == "copy":
                return BuiltinFn("dict.copy", lambda: PDict(namespace_items(obj.ns)))
            return bm.dict_method(I, PDict(namespace_items(obj.ns)), name)
        if prev_getattr is not None:
            return prev_getattr(I, obj, name)
        import fractions

        from .values import SV, Infinity

        if obj is None or isinstance(obj, (SV, int, float, bool, fractions.Fraction, Infinity)):
            if not name.startswith("__") and name not in ("real", "imag", "numerator", "denominator", "is_integer", "conjugate"):
                I.raise_("AttributeError", name)
        raise PyvcError(f"attribute {name!r} of {obj!r} not modelled (line {I.lineno})")

    def getitem_fb(I, obj, idx):
        if isinstance(obj, PDefaultDict):
            i = bm.dict_find(I, obj.inner, idx)
            if i >= 0:
                return obj.inner.vals[i]
            if obj.factory is None:
                I.raise_("KeyError", idx)
            v = I.call_value(obj.factory, [])
            obj.inner.set(idx, v)
            return v
        if isinstance(obj, NamespaceDict):
            return bm.dict_get(I, PDict(namespace_items(obj.ns)), idx)
        if prev_getitem is not None:
            return prev_getitem(I, obj, idx)
        raise PyvcError(f"subscript of {obj!r} not modelled (line {I.lineno})")

    def setitem_fb(I, obj, idx, v):
        if isinstance(obj, PDefaultDict):
            return bm.dict_set(I, obj.inner, idx, v)
        if prev_setitem is not None:
            return prev_setitem(I, obj, idx, v)
        raise PyvcError(f"item assignment on {obj!r} not modelled")

    def iterate_fb(I, v):
        if isinstance(v, PDefaultDict):
            return list(v.inner.keys)
        if isinstance(v, NamespaceDict):
            return [k for k, _ in namespace_items(v.ns)]
        if prev_iter is not None:
            return prev_iter(I, v)
        raise PyvcError(f"iteration over {v!r} not modelled (line {I.lineno})")

    def contains_fb(I, container, x):
        if isinstance(container, PDefaultDict):
            return bm.contains(I, container.inner, x)
        if isinstance(container, NamespaceDict):
            return bm.contains(I, tuple(k for k, _ in namespace_items(container.ns)), x)
        if prev_contains is not None:
            return prev_contains(I, container, x)
        raise PyvcError(f"`in` on {container!r} not modelled")

    def len_fb(I, x):
        if isinstance(x, PDefaultDict):
            return len(x.inner.keys)
        if prev_len is not None:
            return prev_len(I, x)
        raise PyvcError(f"len of {x!r} not modelled")

    reg.getattr_fallback = getattr_fb
    reg.getitem_fallback = getitem_fb
    reg.setitem_fallback = setitem_fb
    reg.iterate_fallback = iterate_fb
    reg.contains_fallback = contains_fb
    reg.len_fallback = len_fb
    reg.trust("L-collections", bm.LIBRARY_CONTRACTS["L-collections"])
