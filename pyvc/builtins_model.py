"""Built-in models: object protocol, containers, byte strings/streams, math, special spec forms.

Every library fact used here is a *trusted* library contract and is listed in evidence
(`LIBRARY_CONTRACTS`)."""
import ast
import copy
import fractions
import math

import z3

from .engine import PathEnd
from .values import (
    Infinity,
    NeedsContract,
    Opaque,
    PDict,
    PExc,
    PList,
    PObj,
    PSet,
    PyvcError,
    SBytes,
    SSeq,
    SV,
    arith,
    compare,
    is_scalar,
    is_sym,
    simplify_sv,
    sv_and,
    sv_implies,
    sv_ite,
    sv_not,
    sv_or,
    tobool,
    tonum,
    toz3,
)

LIBRARY_CONTRACTS = {
    "L-int-bytes": "int.to_bytes/from_bytes (little endian, signed) are two's-complement; fixed widths definitional, "
    "variable width via laid(D,off,v,n) & fits(v,n) => from_bytes == v",
    "L-bytesio": "io.BytesIO read(n) returns min(n, remaining) bytes and advances; write appends at the position",
    "L-math": "math.floor/ceil/hypot/sqrt as real-number functions (A1)",
    "L-struct-d": "struct.pack('<d', x) is 8 bytes and unpack is its inverse",
}

EXTERNAL = {}


# ------------------------------------------------------------------------------------------------
# streams


class StreamVal:
    """io.BytesIO model: data array, length, position."""

    def __init__(self, data, length, pos):
        self.data = data
        self.length = length
        self.pos = pos

    def clone(self):
        return StreamVal(self.data, self.length, self.pos)


def _min(a, b):
    c = compare("<", a, b)
    if isinstance(c, bool):
        return a if c else b
    return sv_ite(c, a, b)


def _max(a, b):
    c = compare(">", a, b)
    if isinstance(c, bool):
        return a if c else b
    return sv_ite(c, a, b)


def stream_read(I, st, n=None):
    avail = _max(arith("-", st.length, st.pos), 0)
    if n is None:
        k = avail
    else:
        neg = compare("<", n, 0)
        k = sv_ite(neg, avail, _min(n, avail)) if not isinstance(neg, bool) else (avail if neg else _min(n, avail))
    out = SBytes(st.data, k, st.pos)
    st.pos = arith("+", st.pos, k)
    return out


def bytes_len(b):
    if isinstance(b, (bytes, bytearray)):
        return len(b)
    return b.length


def bytes_at(b, i):
    if isinstance(b, (bytes, bytearray)):
        if isinstance(i, int):
            return b[i]
        arr = z3.K(z3.IntSort(), z3.IntVal(0))
        for j, x in enumerate(b):
            arr = z3.Store(arr, j, x)
        return SV(z3.Select(arr, tonum(i)))
    return simplify_sv(z3.Select(b.arr, tonum(arith("+", b.off, i))))


def to_sbytes(b):
    if isinstance(b, SBytes):
        return b
    arr = z3.K(z3.IntSort(), z3.IntVal(0))
    for j, x in enumerate(b):
        arr = z3.Store(arr, j, x)
    return SBytes(arr, len(b), 0)


def stream_write(I, st, b):
    """write at the current position (overwriting / extending), as BytesIO does."""
    b = to_sbytes(b)
    n = b.length
    j = z3.Int("j!w")
    src = z3.Select(b.arr, j - tonum(st.pos) + tonum(b.off))
    inside = z3.And(j >= tonum(st.pos), j < tonum(st.pos) + tonum(n))
    if isinstance(n, int) and n <= 8 and True:
        newd = st.data
        for t in range(n):
            newd = z3.Store(newd, tonum(arith("+", st.pos, t)), tonum(bytes_at(b, t)))
    else:
        newd = z3.Lambda([j], z3.If(inside, src, z3.Select(st.data, j)))
    oldpos = st.pos
    st.data = newd
    st.pos = arith("+", st.pos, n)
    st.length = _max(st.length, st.pos)
    for fact in getattr(b, "facts", ()):  # provenance facts (abstract encodings) follow the bytes
        I.eng.assume(fact(st.data, oldpos))
    return n


# ------------------------------------------------------------------------------------------------
# integer <-> bytes (library contract L-int-bytes)

_I = z3.IntSort()
_A = z3.ArraySort(_I, _I)
pow2 = z3.Function("pow2", _I, _I)
bit_length = z3.Function("bit_length", _I, _I)
laid = z3.Function("laid", _A, _I, _I, _I, z3.BoolSort())
fbN = z3.Function("fbN", _A, _I, _I, _I)


def fits(v, n):
    return z3.And(-pow2(8 * n - 1) <= v, v < pow2(8 * n - 1))


def int_bytes_axioms(eng):
    D = z3.Const("D!ax", _A)
    off, v, n, a, b = z3.Ints("off!ax v!ax n!ax a!ax b!ax")
    eng.add_axiom(
        "L-int-bytes.laid", z3.ForAll([D, off, v, n], z3.Implies(z3.And(laid(D, off, v, n), fits(v, n)), fbN(D, off, n) == v))
    )
    eng.add_axiom("L-int-bytes.pow2-mono", z3.ForAll([a, b], z3.Implies(z3.And(0 <= a, a <= b), pow2(a) <= pow2(b))))
    eng.add_axiom(
        "L-int-bytes.bit_length", z3.ForAll([v], z3.And(bit_length(v) >= 0, z3.If(v >= 0, v, -v) < pow2(bit_length(v))))
    )
    for k in (7, 15, 31, 63):
        eng.add_axiom(f"L-int-bytes.pow2({k})", pow2(k) == 2**k)


def fb_fixed(arr, p, k):
    """from_bytes of k bytes at arr[p..p+k) (k a python int, possibly 0), little endian signed."""
    if k == 0:
        return z3.IntVal(0)
    u = z3.Sum([z3.Select(arr, p + t) * (256**t) for t in range(k)])
    return z3.If(z3.Select(arr, p + k - 1) >= 128, u - 256**k, u)


def int_from_bytes(I, b, byteorder="little", signed=False):
    if byteorder != "little" or signed is not True:
        raise PyvcError("from_bytes model: only little endian signed")
    b = to_sbytes(b)
    ln = b.length
    off = tonum(b.off)
    if isinstance(ln, int):
        return simplify_sv(fb_fixed(b.arr, off, ln))
    # length symbolic: if it is syntactically bounded by a small constant, case split definitionally
    ub = small_upper_bound(I, ln)
    if ub is not None and ub <= 8:
        e = fb_fixed(b.arr, off, ub)
        for k in range(ub - 1, -1, -1):
            e = z3.If(tonum(ln) == k, fb_fixed(b.arr, off, k), e)
        return SV(e)
    int_bytes_axioms(I.eng)
    return SV(fbN(b.arr, off, tonum(ln)))


def small_upper_bound(I, ln):
    for k in range(0, 9):
        if not I.eng.feasible(tonum(ln) > k):
            return k
    return None


def int_to_bytes(I, v, length=1, byteorder="big", signed=False):
    if byteorder != "little" or signed is not True:
        raise PyvcError("to_bytes model: only little endian signed")
    if isinstance(length, int):
        lo, hi = -(2 ** (8 * length - 1)), 2 ** (8 * length - 1) - 1
        ok = sv_and(compare("<=", lo, v), compare("<=", v, hi))
        if not I.decide(ok):
            I.raise_("OverflowError", "int too big to convert")
        u = tonum(v) % (256**length)
        arr = z3.K(_I, z3.IntVal(0))
        for t in range(length):
            arr = z3.Store(arr, t, (u / (256**t)) % 256)
        return SBytes(arr, length, 0)
    int_bytes_axioms(I.eng)
    zv, zn = tonum(v), tonum(length)
    if not I.decide(simplify_sv(z3.And(zn >= 0, fits(zv, zn)))):
        I.raise_("OverflowError", "int too big to convert")
    arr = I.eng.fresh_array("tobytes")
    k = z3.Int("k!tb")
    I.eng.assume(z3.ForAll([k], z3.And(z3.Select(arr, k) >= 0, z3.Select(arr, k) <= 255)))
    out = SBytes(arr, length, 0)
    I.eng.assume(laid(arr, 0, zv, zn))
    out.facts = [lambda D, p, zv=zv, zn=zn: laid(D, tonum(p), zv, zn)]
    return out


def int_bit_length(I, v):
    int_bytes_axioms(I.eng)
    return SV(bit_length(tonum(v)))


# ------------------------------------------------------------------------------------------------
# attribute protocol


def get_attr(I, obj, name):
    from .interp import BoundMethod, ClassVal, FuncVal, ModuleVal, BuiltinFn

    if isinstance(obj, PObj):
        if name in obj.fields:
            return obj.fields[name]
        if name == "__class__":
            return obj.cls
        if isinstance(obj.cls, ClassVal):
            hook = I.registry.attr_hooks.get((obj.cls.full, name))
            if hook is not None:
                return hook(I, obj)
            for c in I.class_mro(obj.cls):
                if not isinstance(c, ClassVal):
                    continue
                for node in c.node.body:
                    if isinstance(node, (ast.FunctionDef, ast.AsyncFunctionDef)) and node.name == name:
                        from . import extract

                        f = FuncVal(node, extract.get_module(c.modname), None, f"{c.modname}:{c.name}.{name}", c)
                        decos = f.decorators
                        if any(d in ("property", "cached_property", "functools.cached_property") or d.endswith("cached_property") for d in decos):
                            return I.call_function(f, [obj], {})
                        if "staticmethod" in decos:
                            return f
                        if "classmethod" in decos:
                            return BoundMethod(f, obj.cls)
                        return BoundMethod(f, obj)
                    if isinstance(node, ast.Assign):
                        for t in node.targets:
                            if isinstance(t, ast.Name) and t.id == name:
                                from .interp import Env
                                from . import extract

                                return I.eval(node.value, Env(extract.get_module(c.modname)))
        I.raise_("AttributeError", name)
    if isinstance(obj, SuperProxy):
        mro = I.class_mro(obj.obj.cls if isinstance(obj.obj, (PObj, PExc)) else obj.obj)
        started = False
        for c in mro:
            if c is obj.owner:
                started = True
                continue
            if started and isinstance(c, ClassVal):
                for node in c.node.body:
                    if isinstance(node, (ast.FunctionDef, ast.AsyncFunctionDef)) and node.name == name:
                        from . import extract

                        f = FuncVal(node, extract.get_module(c.modname), None, f"{c.modname}:{c.name}.{name}", c)
                        return BoundMethod(f, obj.obj)
        if name in ("__init__", "__init_subclass__", "__setattr__"):
            return BuiltinFn("object." + name, lambda *a, **k: None)
        if name == "__new__":
            return BuiltinFn("object.__new__", lambda c, *a, **k: PObj(c))
        I.raise_("AttributeError", name)
    if isinstance(obj, PExc):
        if name == "args":
            return obj.args
        if name in obj.fields:
            return obj.fields[name]
        if name == "__cause__":
            return obj.cause
        I.raise_("AttributeError", name)
    if isinstance(obj, ClassVal):
        if name == "__name__":
            return obj.name
        m = I.find_method(obj, name)
        if m is not None:
            if "classmethod" in m.decorators:
                return BoundMethod(m, obj)
            return m
        ca = I.find_class_attr(obj, name)
        if ca is not None:
            return ca[1]
        hook = I.registry.attr_hooks.get((obj.full, name))
        if hook is not None:
            return hook(I, obj)
        I.raise_("AttributeError", name)
    if isinstance(obj, ModuleVal):
        if obj.name in I.modules and I.modules[obj.name] is not obj:
            return get_attr(I, I.modules[obj.name], name)
        from . import extract

        kind, mod, nm = extract.resolve_name(obj.name, name)
        if kind == "builtin":
            # maybe a submodule
            try:
                extract.module_path(obj.name + "." + name)
                return ModuleVal(obj.name + "." + name)
            except extract.ExtractionError:
                raise PyvcError(f"module {obj.name} has no attribute {name}")
        return I._materialize(kind, mod, nm, name)
    if isinstance(obj, NativeModule):
        if name in obj.attrs:
            return obj.attrs[name]
        raise NeedsContract(f"{obj.name}.{name} has no library model")
    if isinstance(obj, StreamVal):
        if name == "read":
            return BuiltinFn("read", lambda n=None: stream_read(I, obj, n))
        if name == "write":
            return BuiltinFn("write", lambda b: stream_write(I, obj, b))
        if name == "tell":
            return BuiltinFn("tell", lambda: obj.pos)
        if name in ("pos", "length", "data"):
            return getattr(obj, name)
        if name == "seek":
            def seek(p, whence=0):
                obj.pos = p
                return p
            return BuiltinFn("seek", seek)
        raise PyvcError(f"stream.{name} not modelled")
    if isinstance(obj, PList):
        return list_method(I, obj, name)
    if isinstance(obj, PDict):
        return dict_method(I, obj, name)
    if isinstance(obj, PSet):
        return set_method(I, obj, name)
    if isinstance(obj, (int, SV)) and not isinstance(obj, bool):
        if name == "to_bytes":
            return BuiltinFn("to_bytes", lambda length=1, byteorder="big", signed=False: int_to_bytes(I, obj, length, byteorder, signed))
        if name == "bit_length":
            return BuiltinFn("bit_length", lambda: int_bit_length(I, obj) if isinstance(obj, SV) else obj.bit_length())
    if isinstance(obj, BuiltinFn) and hasattr(obj, "pytype"):
        obj = obj.pytype
    if isinstance(obj, type):
        if obj is int and name == "from_bytes":
            return BuiltinFn("from_bytes", lambda b, byteorder="big", signed=False: int_from_bytes(I, b, byteorder, signed))
        if name == "__name__":
            return obj.__name__
    if isinstance(obj, (str, bytes, tuple)) and not isinstance(obj, SV):
        return native_method(I, obj, name)
    if isinstance(obj, Opaque):
        hook = I.registry.opaque_attr
        if hook is not None:
            return hook(I, obj, name)
        attrs = getattr(obj, "attrs", None)
        if attrs is not None:
            if name in attrs:
                return attrs[name]
            I.raise_("AttributeError", name)
    if isinstance(obj, SStr):
        if name == "encode":
            return BuiltinFn("encode", lambda *a: obj.utf8)
        raise PyvcError(f"str.{name} on a symbolic string not modelled")
    if isinstance(obj, SBytes) and name == "decode":
        def decode(*a):
            # arbitrary bytes may be invalid UTF-8
            if I.eng.choose(2, "invalid utf-8?") == 1:
                I.raise_("UnicodeDecodeError", "utf-8", b"", 0, 1, "invalid start byte")
            return SStr(obj)
        return BuiltinFn("decode", decode)
    if isinstance(obj, SSeq):
        return sseq_method(I, obj, name)
    if isinstance(obj, ast.AST):
        try:
            return getattr(obj, name)
        except AttributeError:
            I.raise_("AttributeError", name)
    h = I.registry.getattr_fallback
    if h is not None:
        try:
            return h(I, obj, name)
        except PyvcError:
            if not (obj is None or isinstance(obj, (SV, int, float, bool, fractions.Fraction, Infinity))):
                raise
    if obj is None or isinstance(obj, (SV, int, float, bool, fractions.Fraction, Infinity)):
        if not name.startswith("__") and name not in ("real", "imag", "numerator", "denominator", "is_integer", "conjugate"):
            I.raise_("AttributeError", name)
    raise PyvcError(f"attribute {name!r} of {obj!r} not modelled (line {I.lineno})")


def native_method(I, obj, name):
    from .interp import BuiltinFn

    real = getattr(obj, name, None)
    if real is None:
        I.raise_("AttributeError", name)
    if not callable(real):
        return real

    def call(*a, **k):
        for x in list(a) + list(k.values()):
            if isinstance(x, SV):
                raise PyvcError(f"symbolic argument to native {type(obj).__name__}.{name}")
        a = [tuple(x.items) if isinstance(x, PList) else x for x in a]
        r = real(*a, **k)
        if isinstance(r, list):
            return PList(r)
        return r

    return BuiltinFn(name, call)


def set_attr(I, obj, name, v):
    if isinstance(obj, (PObj, PExc)):
        from .interp import ClassVal

        if isinstance(obj, PObj) and isinstance(obj.cls, ClassVal):
            hook = I.registry.setattr_hooks.get((obj.cls.full, name))
            if hook is not None:
                return hook(I, obj, v)
        obj.fields[name] = v
        return
    if isinstance(obj, StreamVal) and name in ("pos", "data", "length"):
        setattr(obj, name, v)
        return
    h = I.registry.setattr_fallback
    if h is not None:
        return h(I, obj, name, v)
    raise PyvcError(f"cannot set attribute {name} on {obj!r}")


def del_attr(I, obj, name):
    if isinstance(obj, PObj) and name in obj.fields:
        del obj.fields[name]
        return
    I.raise_("AttributeError", name)


def object_truth(I, v):
    from .interp import ClassVal

    if isinstance(v.cls, ClassVal):
        m = I.find_method(v.cls, "__bool__")
        if m is not None:
            return I.truth(I.call_function(m, [v], {}))
        m = I.find_method(v.cls, "__len__")
        if m is not None:
            return I.truth(compare("!=", I.call_function(m, [v], {}), 0))
    return True


# ------------------------------------------------------------------------------------------------
# containers


def list_method(I, lst, name):
    from .interp import BuiltinFn

    def append(x):
        lst.items.append(x)

    def extend(xs):
        lst.items.extend(I.iterate(xs))

    def pop(i=-1):
        if not lst.items:
            I.raise_("IndexError", "pop from empty list")
        if not isinstance(i, int):
            raise PyvcError("symbolic pop index")
        return lst.items.pop(i)

    def insert(i, x):
        lst.items.insert(i, x)

    def remove(x):
        for j, y in enumerate(lst.items):
            r = equal_values(I, y, x)
            if I.decide(r):
                del lst.items[j]
                return
        I.raise_("ValueError", "list.remove(x): x not in list")

    def index(x):
        for j, y in enumerate(lst.items):
            if I.decide(equal_values(I, y, x)):
                return j
        I.raise_("ValueError", "not in list")

    def copy_():
        return PList(lst.items)

    def reverse():
        lst.items.reverse()

    def clear():
        lst.items.clear()

    def count(x):
        n = 0
        for y in lst.items:
            n = arith("+", n, sv_ite(I.truth(equal_values(I, y, x)), 1, 0))
        return n

    def sort(key=None, reverse=False):
        lst.items = sorted_model(I, lst.items, key, reverse)

    table = dict(append=append, extend=extend, pop=pop, insert=insert, remove=remove, index=index, copy=copy_, reverse=reverse, clear=clear, count=count, sort=sort)
    if name not in table:
        if not hasattr(list, name):
            I.raise_("AttributeError", name)  # e.g. getattr(a_list, "_needsLazyEval", False)
        raise PyvcError(f"list.{name} not modelled")
    return BuiltinFn("list." + name, table[name])


def sorted_model(I, items, key=None, reverse=False):
    """Concrete-length stable sort by forking on comparisons (insertion sort)."""
    keyed = [(I.call_value(key, [x]) if key is not None else x, x) for x in items]
    out = []
    for k, x in keyed:
        pos = len(out)
        while pos > 0:
            pk = out[pos - 1][0]
            lt = compare_any(I, "<", k, pk) if not reverse else compare_any(I, "<", pk, k)
            if I.decide(lt):
                pos -= 1
            else:
                break
        out.insert(pos, (k, x))
    return [x for _, x in out]


def compare_any(I, op, a, b):
    if is_scalar(a) and is_scalar(b):
        return compare(op, a, b)
    if isinstance(a, tuple) and isinstance(b, tuple):
        # lexicographic
        for x, y in zip(a, b):
            eq = compare_any(I, "==", x, y)
            if I.decide(eq):
                continue
            return compare_any(I, op if op in ("<", ">") else op[0], x, y)
        return compare(op, len(a), len(b))
    return compare_object(I, op, a, b)


def dict_method(I, d, name):
    from .interp import BuiltinFn

    def get(k, default=None):
        return dict_get(I, d, k, default, raise_missing=False)

    def items():
        return PList([(k, v) for k, v in zip(d.keys, d.vals)])

    def keys():
        return PList(list(d.keys))

    def values():
        return PList(list(d.vals))

    def pop(k, *default):
        i = dict_find(I, d, k)
        if i < 0:
            if default:
                return default[0]
            I.raise_("KeyError", k)
        return d.pop(d.keys[i])

    def setdefault(k, default=None):
        i = dict_find(I, d, k)
        if i >= 0:
            return d.vals[i]
        d.set(k, default)
        return default

    def update(other=None, **kw):
        if other is not None:
            if isinstance(other, PDict):
                for k, v in zip(other.keys, other.vals):
                    dict_set(I, d, k, v)
            else:
                for pair in I.iterate(other):
                    k, v = I.iterate(pair)
                    dict_set(I, d, k, v)
        for k, v in kw.items():
            dict_set(I, d, k, v)

    def copy_():
        return PDict(list(zip(d.keys, d.vals)))

    def clear():
        d.keys.clear()
        d.vals.clear()

    table = dict(get=get, items=items, keys=keys, values=values, pop=pop, setdefault=setdefault, update=update, copy=copy_, clear=clear)
    if name not in table:
        if not hasattr(dict, name):
            I.raise_("AttributeError", name)  # e.g. getattr(a_dict, "_needsLazyEval", False)
        raise PyvcError(f"dict.{name} not modelled")
    return BuiltinFn("dict." + name, table[name])


def dict_find(I, d, k):
    """Index of key k (forking on symbolic key equality)."""
    for i, x in enumerate(d.keys):
        r = equal_values(I, x, k)
        if I.decide(r):
            return i
    return -1


def dict_get(I, d, k, default=None, raise_missing=True):
    i = dict_find(I, d, k)
    if i >= 0:
        return d.vals[i]
    if raise_missing:
        I.raise_("KeyError", k)
    return default


def dict_set(I, d, k, v):
    i = dict_find(I, d, k)
    if i >= 0:
        d.vals[i] = v
    else:
        d.keys.append(k)
        d.vals.append(v)


def set_method(I, s, name):
    from .interp import BuiltinFn

    def add(x):
        if not I.decide(contains(I, s, x)):
            s.items.append(x)

    def update(*others):
        for o in others:
            for x in I.iterate(o):
                add(x)

    def discard(x):
        for j, y in enumerate(s.items):
            if I.decide(equal_values(I, y, x)):
                del s.items[j]
                return

    def remove(x):
        for j, y in enumerate(s.items):
            if I.decide(equal_values(I, y, x)):
                del s.items[j]
                return
        I.raise_("KeyError", x)

    def union(*others):
        r = PSet(s.items)
        m = set_method(I, r, "update")
        m.fn(*others)
        return r

    def copy_():
        return PSet(s.items)

    def isdisjoint(o):
        for x in I.iterate(o):
            if I.decide(contains(I, s, x)):
                return False
        return True

    def issubset(o):
        for x in s.items:
            if not I.decide(contains(I, o, x)):
                return False
        return True

    def difference(*others):
        r = PSet()
        for x in s.items:
            if not any(I.decide(contains(I, o, x)) for o in others):
                r.items.append(x)
        return r

    def intersection(*others):
        r = PSet()
        for x in s.items:
            if all(I.decide(contains(I, o, x)) for o in others):
                r.items.append(x)
        return r

    def clear():
        s.items.clear()

    def pop():
        if not s.items:
            I.raise_("KeyError", "pop from an empty set")
        k = I.eng.choose(len(s.items), "set.pop")  # arbitrary element
        return s.items.pop(k)

    table = dict(add=add, update=update, discard=discard, remove=remove, union=union, copy=copy_, isdisjoint=isdisjoint, issubset=issubset, difference=difference, intersection=intersection, clear=clear, pop=pop)
    if name not in table:
        if not hasattr(set, name):
            I.raise_("AttributeError", name)  # e.g. getattr(a_set, "_needsLazyEval", False)
        raise PyvcError(f"set.{name} not modelled")
    return BuiltinFn("set." + name, table[name])


def sseq_method(I, s, name):
    """Methods of a list of symbolic length (library contract L-list)."""
    from .interp import BuiltinFn

    eng = I.eng

    def pop(i=-1):
        if i != -1:
            raise PyvcError("symbolic list pop at an index other than -1")
        if not I.decide(compare(">", s.length, 0)):
            I.raise_("IndexError", "pop from empty list")
        last = s.elem(arith("-", s.length, 1))
        s.length = arith("-", s.length, 1)
        return last

    def sort(key=None, reverse=False):
        # L-list.sort: the result is a permutation of the list (its order is NOT constrained: the
        # obligations must hold for every order the key may induce)
        n = s.length
        tag = eng.fresh_name("perm")
        p = z3.Function(tag, z3.IntSort(), z3.IntSort())
        q = z3.Function(tag + "_inv", z3.IntSort(), z3.IntSort())
        j = z3.Int("j!perm")
        zn = tonum(n)
        eng.assume(z3.ForAll([j], z3.Implies(z3.And(j >= 0, j < zn), z3.And(p(j) >= 0, p(j) < zn, q(p(j)) == j))))
        eng.assume(z3.ForAll([j], z3.Implies(z3.And(j >= 0, j < zn), z3.And(q(j) >= 0, q(j) < zn, p(q(j)) == j))))
        old_elem = s.elem
        s.elem = lambda i, old_elem=old_elem, p=p: old_elem(SV(p(tonum(i))))
        # provenance (see `locate_in`): the element at old position t is now at position q(t)
        prev = getattr(s, "locate", None)

        def locate(t, prev=prev, q=q, p=p, zn=zn):
            forms, pos = prev(t) if prev is not None else ([], t)
            inst = z3.Implies(z3.And(pos >= 0, pos < zn), z3.And(q(pos) >= 0, q(pos) < zn, p(q(pos)) == pos))
            return forms + [inst], q(pos)

        s.locate = locate
        return None

    def copy_():
        c = SSeq(s.length, s.elem, s.kind, s.name)
        if getattr(s, "locate", None) is not None:
            c.locate = s.locate
        return c

    table = dict(pop=pop, sort=sort, copy=copy_)
    if name not in table:
        raise PyvcError(f"method {name} on a symbolic-length sequence not modelled")
    if s.kind != "list" and name in ("pop", "sort"):
        I.raise_("AttributeError", name)
    return BuiltinFn("list." + name, table[name])


LIBRARY_CONTRACTS["L-list"] = "list.sort yields a permutation (order unconstrained); filter comprehensions keep exactly the elements satisfying the condition, in order"


def symbolic_filter(I, seq, cond, kind="list"):
    """[x for x in seq if cond(x)] over a sequence of symbolic length (Skolemised)."""
    eng = I.eng
    n = tonum(seq.length)
    tag = eng.fresh_name("filt")
    f = z3.Function(tag, z3.IntSort(), z3.IntSort())
    g = z3.Function(tag + "_pos", z3.IntSort(), z3.IntSort())
    m = eng.fresh_int(tag + ".len")
    zm = tonum(m)
    j = z3.Int("j!filt")
    i = z3.Int("i!filt")
    I.spec_depth += 1
    try:
        cj = tobool(I.truth(cond(seq.elem(SV(f(j))))))
        ci = tobool(I.truth(cond(seq.elem(SV(i)))))
    finally:
        I.spec_depth -= 1
    # the condition does not depend on the element: the filter keeps everything / nothing (no Skolem functions needed)
    if z3.is_true(ci):
        return SSeq(seq.length, seq.elem, kind, tag)
    if z3.is_false(ci):
        return SSeq(0, seq.elem, kind, tag)
    eng.assume(z3.And(zm >= 0, zm <= n))
    eng.assume(z3.ForAll([j], z3.Implies(z3.And(j >= 0, j < zm), z3.And(f(j) >= 0, f(j) < n, cj, g(f(j)) == j))))
    eng.assume(z3.ForAll([i], z3.Implies(z3.And(i >= 0, i < n, ci), z3.And(g(i) >= 0, g(i) < zm, f(g(i)) == i))))
    j1, j2 = z3.Ints("j1!filt j2!filt")
    eng.assume(z3.ForAll([j1, j2], z3.Implies(z3.And(0 <= j1, j1 < j2, j2 < zm), f(j1) < f(j2))))
    out = SSeq(m, lambda k: seq.elem(SV(f(tonum(k)))), kind, tag)
    # provenance (see `locate_in`): the element at position t of `seq`, if kept, sits at position g(t)
    prev = getattr(seq, "locate", None)

    def locate(t, prev=prev):
        forms, pos = prev(t) if prev is not None else ([], t)
        inst = z3.Implies(z3.And(pos >= 0, pos < n, z3.substitute(ci, (i, pos))), z3.And(g(pos) >= 0, g(pos) < zm, f(g(pos)) == pos))
        return forms + [inst], g(pos)

    out.locate = locate
    return out


def locate_in(I, container, x):
    """Instantiation hints for `x in container` where container was derived from a sequence of objects by filter
    comprehensions and list.sort: the Skolem axioms of those steps instantiated at the position of x.  They are
    instances of hypotheses that are already assumed, hence true on every path; `contains` returns
    `exists k ... or not (hints)`, which is equivalent under those hypotheses and puts the composed witness q(g(i))
    in front of the solver also when x is a bound variable of an enclosing quantifier (e-matching alone does not find
    it and the query was decided by MBQI only after ~18 s)."""
    loc = getattr(container, "locate", None)
    ident = getattr(x, "ident", None)
    if loc is None or ident is None:
        return []
    try:
        forms, _ = loc(tonum(ident[1]))
    except Exception:
        return []
    return forms


def ident_eq(a, b):
    """Identity of indexed heap objects (elements of a symbolic sequence of objects)."""
    ia, ib = getattr(a, "ident", None), getattr(b, "ident", None)
    if ia is None or ib is None:
        return None
    if ia[0] != ib[0]:
        return False
    return compare("==", ia[1], ib[1])


def equal_values(I, a, b):
    """Python `==` on arbitrary model values -> bool or SV."""
    if isinstance(a, PObj) and isinstance(b, PObj):
        r = ident_eq(a, b)
        if r is not None and not (hasattr(a.cls, "node") and I.find_method(a.cls, "__eq__") is not None):
            return r
    if a is b:
        if isinstance(a, float) and a != a:
            return False
        return True
    if (is_scalar(a) or isinstance(a, Infinity)) and (is_scalar(b) or isinstance(b, Infinity)):
        return compare("==", a, b)
    if a is None or b is None:
        return False
    if isinstance(a, IdToken) or isinstance(b, IdToken):
        return a == b
    if isinstance(a, str) or isinstance(b, str):
        return isinstance(a, str) and isinstance(b, str) and a == b
    if isinstance(a, (tuple, PList)) and isinstance(b, (tuple, PList)):
        if isinstance(a, tuple) != isinstance(b, tuple):
            return False
        xs = a if isinstance(a, tuple) else a.items
        ys = b if isinstance(b, tuple) else b.items
        if len(xs) != len(ys):
            return False
        return sv_and(*[I.truth(equal_values(I, x, y)) for x, y in zip(xs, ys)])
    if isinstance(a, (SBytes, bytes)) and isinstance(b, (SBytes, bytes)):
        return bytes_equal(I, a, b)
    if isinstance(a, SStr) and isinstance(b, SStr):
        return bytes_equal(I, a.utf8, b.utf8)
    if isinstance(a, PObj):
        from .interp import ClassVal

        if isinstance(a.cls, ClassVal):
            m = I.find_method(a.cls, "__eq__")
            if m is not None:
                r = I.call_function(m, [a, b], {})
                if r is not NotImplemented:
                    return r
        return False
    if isinstance(a, type) or isinstance(b, type):
        return a is b
    from .interp import ClassVal

    if isinstance(a, ClassVal) or isinstance(b, ClassVal):
        return a is b
    if isinstance(a, Opaque) or isinstance(b, Opaque):
        h = I.registry.opaque_eq
        if h is not None:
            return h(I, a, b)
        return False
    if isinstance(a, PSet) and isinstance(b, PSet):
        if len(a.items) != len(b.items):
            return False
        return sv_and(*[I.truth(contains(I, b, x)) for x in a.items])
    if isinstance(a, PDict) and isinstance(b, PDict):
        if len(a.keys) != len(b.keys):
            return False
        acc = []
        for k, v in zip(a.keys, a.vals):
            i = b._find(k)
            if i < 0:
                return False
            acc.append(I.truth(equal_values(I, v, b.vals[i])))
        return sv_and(*acc)
    return False


def bytes_equal(I, a, b):
    la, lb = bytes_len(a), bytes_len(b)
    if isinstance(la, int) and isinstance(lb, int):
        if la != lb:
            return False
        return sv_and(*[compare("==", bytes_at(a, i), bytes_at(b, i)) for i in range(la)])
    a, b = to_sbytes(a), to_sbytes(b)
    k = z3.Int("k!beq")
    return simplify_sv(
        z3.And(
            tonum(la) == tonum(lb),
            z3.ForAll([k], z3.Implies(z3.And(k >= 0, k < tonum(la)), z3.Select(a.arr, tonum(a.off) + k) == z3.Select(b.arr, tonum(b.off) + k))),
        )
    )


def identical(I, a, b):
    if a is b:
        return True
    if isinstance(a, PObj) and isinstance(b, PObj):
        r = ident_eq(a, b)
        if r is not None:
            return r
    if a is None or b is None:
        return False
    if isinstance(a, bool) or isinstance(b, bool):
        if isinstance(a, (bool, SV)) and isinstance(b, (bool, SV)):
            za, zb = toz3(a), toz3(b)
            if z3.is_bool(za) and z3.is_bool(zb):
                return simplify_sv(za == zb)
        return False
    if isinstance(a, Opaque) and isinstance(b, Opaque):
        h = I.registry.opaque_eq
        if h is not None:
            return h(I, a, b)
    if isinstance(a, str) and isinstance(b, str):
        return a == b
    if isinstance(a, int) and isinstance(b, int):
        return a == b
    return False


def contains(I, container, x):
    if isinstance(container, (tuple, PList, PSet)):
        items = container if isinstance(container, tuple) else container.items
        acc = []
        for y in items:
            r = equal_values(I, y, x)
            if r is True:
                return True
            if r is False:
                continue
            acc.append(I.truth(r))
        return sv_or(*acc) if acc else False
    if isinstance(container, PDict):
        return contains(I, tuple(container.keys), x)
    if isinstance(container, str):
        return isinstance(x, str) and x in container
    if isinstance(container, RangeVal):
        inside = sv_and(compare("<=", container.start, x), compare("<", x, container.stop))
        return inside
    if isinstance(container, PObj):
        from .interp import ClassVal

        if isinstance(container.cls, ClassVal):
            m = I.find_method(container.cls, "__contains__")
            if m is not None:
                return I.call_function(m, [container, x], {})
    if isinstance(container, SSeq):
        hints = locate_in(I, container, x)
        k = z3.Int("k!in")
        body = I.truth(equal_values(I, container.elem(SV(k)), x))
        ex = z3.Exists([k], z3.And(k >= 0, k < tonum(container.length), tobool(body)))
        if hints:
            return SV(z3.Or(ex, z3.Not(z3.And(*hints))))
        return simplify_sv(ex)
    h = I.registry.contains_fallback
    if h is not None:
        return h(I, container, x)
    raise PyvcError(f"`in` on {container!r} not modelled")


def compare_object(I, sym, a, b):
    if sym == "==":
        return equal_values(I, a, b)
    if sym == "!=":
        r = equal_values(I, a, b)
        return (not r) if isinstance(r, bool) else sv_not(r)
    if isinstance(a, (tuple, PList)) and isinstance(b, (tuple, PList)):
        xs = a if isinstance(a, tuple) else tuple(a.items)
        ys = b if isinstance(b, tuple) else tuple(b.items)
        return compare_any(I, sym, xs, ys)
    if isinstance(a, str) and isinstance(b, str):
        return {"<": a < b, "<=": a <= b, ">": a > b, ">=": a >= b}[sym]
    if isinstance(a, PObj):
        from .interp import ClassVal

        name = {"<": "__lt__", "<=": "__le__", ">": "__gt__", ">=": "__ge__"}[sym]
        if isinstance(a.cls, ClassVal):
            m = I.find_method(a.cls, name)
            if m is not None:
                return I.call_function(m, [a, b], {})
    if a is None or b is None:
        I.raise_("TypeError", f"'{sym}' not supported between instances involving NoneType")
    h = I.registry.compare_fallback
    if h is not None:
        return h(I, sym, a, b)
    raise PyvcError(f"comparison {sym} of {a!r} and {b!r} not modelled")


DUNDER = {"+": "add", "-": "sub", "*": "mul", "/": "truediv", "//": "floordiv", "%": "mod", "**": "pow"}


def binop_object(I, op, sym, a, b):
    from .interp import ClassVal

    if sym == "+":
        if isinstance(a, tuple) and isinstance(b, tuple):
            return a + b
        if isinstance(a, PList) and isinstance(b, PList):
            return PList(a.items + b.items)
        if isinstance(a, str) and isinstance(b, str):
            return a + b
        if isinstance(a, (bytes, SBytes)) and isinstance(b, (bytes, SBytes)):
            if isinstance(a, bytes) and isinstance(b, bytes):
                return a + b
            raise PyvcError("symbolic bytes concatenation")
    if sym == "*":
        if isinstance(a, (tuple, str)) and isinstance(b, int):
            return a * b
        if isinstance(a, PList) and isinstance(b, int):
            return PList(a.items * b)
    if sym == "%" and isinstance(a, str):
        return "<formatted>"
    if isinstance(op, ast.BitOr) and isinstance(a, PSet) and isinstance(b, PSet):
        return set_method(I, a, "union").fn(b)
    if isinstance(op, ast.BitAnd) and isinstance(a, PSet) and isinstance(b, PSet):
        return set_method(I, a, "intersection").fn(b)
    if isinstance(op, ast.Sub) and isinstance(a, PSet) and isinstance(b, PSet):
        return set_method(I, a, "difference").fn(b)
    if isinstance(op, (ast.BitOr, ast.BitAnd)) and isinstance(a, (bool, SV)) and isinstance(b, (bool, SV)):
        return sv_or(a, b) if isinstance(op, ast.BitOr) else sv_and(a, b)
    if isinstance(op, ast.MatMult):
        sym = "@"
        dn = "matmul"
    elif isinstance(op, (ast.BitAnd, ast.BitOr, ast.BitXor)):  # user-defined __and__/__or__/__xor__ (rv_ltl.B4, C11)
        dn = {ast.BitAnd: "and", ast.BitOr: "or", ast.BitXor: "xor"}[type(op)]  # `sym` stays None for the fallbacks
    else:
        dn = DUNDER.get(sym)
    if dn:
        if isinstance(a, PObj) and isinstance(a.cls, ClassVal):
            m = I.find_method(a.cls, f"__{dn}__")
            if m is not None:
                r = I.call_function(m, [a, b], {})
                if r is not NotImplemented:
                    return r
        if isinstance(b, PObj) and isinstance(b.cls, ClassVal):
            m = I.find_method(b.cls, f"__r{dn}__")
            if m is not None:
                r = I.call_function(m, [b, a], {})
                if r is not NotImplemented:
                    return r
    h = I.registry.binop_fallback
    if h is not None:
        return h(I, sym, a, b)
    raise PyvcError(f"binary operator {sym} on {a!r}, {b!r} not modelled (line {I.lineno})")


def unary_object(I, name, v):
    from .interp import ClassVal

    h = getattr(I.registry, "unary_fallback", None)
    if h is not None:
        r = h(I, name, v)
        if r is not NotImplemented:
            return r

    if isinstance(v, PObj) and isinstance(v.cls, ClassVal):
        m = I.find_method(v.cls, name)
        if m is not None:
            return I.call_function(m, [v], {})
    if v is None:  # Python: `-None` is a TypeError
        I.raise_("TypeError", f"bad operand type for unary {name}: 'NoneType'")
    raise PyvcError(f"unary {name} on {v!r} not modelled")


def power(I, a, b):
    if isinstance(b, float) and b == 0.5:
        return msqrt(I, a)
    if is_scalar(a) and not is_sym(a) and not is_sym(b):
        return a**b
    raise PyvcError("symbolic exponent not modelled")


class IdToken:
    """id(obj): equal exactly when the referents are the same object (no address arithmetic modelled)."""

    def __init__(self, ref):
        self.ref = ref

    def __eq__(self, other):
        return isinstance(other, IdToken) and other.ref is self.ref

    def __hash__(self):
        return id(self.ref)

    def __repr__(self):
        return f"id({self.ref!r})"


class SStr:
    """A symbolic str, represented by its UTF-8 encoding (library contract L-utf8: encode() is injective and
    decode() of those bytes gives the string back; decode() of arbitrary bytes may raise UnicodeDecodeError)."""

    def __init__(self, utf8):
        self.utf8 = utf8


LIBRARY_CONTRACTS["L-utf8"] = "str.encode() / bytes.decode() (UTF-8) are mutually inverse on valid data; decoding invalid data raises UnicodeDecodeError"


class RangeVal:
    def __init__(self, start, stop, step=1):
        self.start, self.stop, self.step = start, stop, step


def as_indexable(I, it):
    """View an iterable as a sequence with (possibly symbolic) length, for loop contracts."""
    if isinstance(it, SSeq):
        return it
    if isinstance(it, RangeVal):
        if it.step != 1:
            raise PyvcError("range step in symbolic loop")
        n = _max(arith("-", it.stop, it.start), 0)
        return SSeq(n, lambda i: arith("+", it.start, i), "range")
    if isinstance(it, (tuple, PList)):
        items = list(it if isinstance(it, tuple) else it.items)

        def elem(i):
            if isinstance(i, int):
                return items[i]
            # symbolic index into a concrete list: fork
            for j in range(len(items)):
                if I.eng.branch(tobool(compare("==", i, j))):
                    return items[j]
            raise PathEnd()

        return SSeq(len(items), elem, "list")
    if isinstance(it, SBytes):
        return SSeq(it.length, lambda i: bytes_at(it, i), "bytes")
    raise PyvcError(f"cannot index {it!r} symbolically")


def iterate(I, v, lineno=None):
    """Concrete iteration: list of elements, or an error asking for a loop contract."""
    from .interp import GenExp

    if isinstance(v, (tuple, list)):
        return list(v)
    if isinstance(v, PList):
        return list(v.items)
    if isinstance(v, PSet):
        h = getattr(I.registry, "set_order_hook", None)  # models_dyn: nondeterministic set iteration order (C15)
        return list(v.items) if h is None else h(I, v)
    if isinstance(v, PDict):
        return list(v.keys)
    if isinstance(v, str):
        return list(v)
    if isinstance(v, bytes):
        return list(v)
    if isinstance(v, RangeVal):
        if all(isinstance(x, int) for x in (v.start, v.stop, v.step)):
            return list(range(v.start, v.stop, v.step))
        raise PyvcError(f"loop over a symbolic range needs a loop contract (line {lineno or I.lineno})")
    if isinstance(v, (SSeq, SBytes)):
        if isinstance(v.length, int):
            if isinstance(v, SSeq):
                return [v.elem(i) for i in range(v.length)]
            return [bytes_at(v, i) for i in range(v.length)]
        raise PyvcError(f"loop over a symbolic-length sequence needs a loop contract (line {lineno or I.lineno})")
    if isinstance(v, GenExp):
        if v.consumed:
            return []
        v.consumed = True
        out = []
        I._comp(v.node, v.env, lambda e: out.append(I.eval(v.node.elt, e)))
        return out
    if isinstance(v, OneShot):
        if v.consumed:
            return []
        v.consumed = True
        return list(v.items)
    if isinstance(v, GeneratorVal):
        return v.drain(I)
    if isinstance(v, PObj):
        from .interp import ClassVal

        if isinstance(v.cls, ClassVal):
            m = I.find_method(v.cls, "__iter__")
            if m is not None:
                return iterate(I, I.call_function(m, [v], {}))
    h = I.registry.iterate_fallback
    if h is not None:
        return h(I, v)
    raise PyvcError(f"iteration over {v!r} not modelled (line {lineno or I.lineno})")


class OneShot:
    """One-shot iterator (filter/map/zip/iter results): a second traversal yields nothing."""

    def __init__(self, items):
        self.items = list(items)
        self.consumed = False


def norm_index(I, i, n):
    """Python index normalisation with IndexError."""
    if isinstance(i, int) and isinstance(n, int):
        if i < -n or i >= n:
            I.raise_("IndexError", "index out of range")
        return i if i >= 0 else i + n
    ok = sv_and(compare("<=", arith("-", 0, n), i), compare("<", i, n))
    if not I.in_spec and not I.decide(ok):
        I.raise_("IndexError", "index out of range")
    neg = compare("<", i, 0)
    if isinstance(neg, bool):
        return arith("+", i, n) if neg else i
    return sv_ite(neg, arith("+", i, n), i)


def get_item(I, obj, idx):
    if isinstance(obj, list):
        obj = tuple(obj)
    if isinstance(obj, (tuple, PList, str, bytes)):
        items = obj.items if isinstance(obj, PList) else obj
        if isinstance(idx, slice):
            if any(isinstance(x, SV) for x in (idx.start, idx.stop, idx.step)):
                raise PyvcError("symbolic slice of concrete sequence")
            r = items[idx]
            return PList(r) if isinstance(obj, PList) else r
        if isinstance(idx, SV):
            n = len(items)
            j = norm_index(I, idx, n)
            for k in range(n):
                if I.eng.branch(tobool(compare("==", j, k))):
                    return items[k]
            raise PathEnd()
        if isinstance(idx, bool):
            idx = int(idx)
        if not isinstance(idx, int):
            I.raise_("TypeError", "indices must be integers")
        if idx < -len(items) or idx >= len(items):
            I.raise_("IndexError", "index out of range")
        return items[idx]
    if isinstance(obj, PDict):
        return dict_get(I, obj, idx)
    if isinstance(obj, SBytes):
        if isinstance(idx, slice):
            lo = 0 if idx.start is None else idx.start
            hi = obj.length if idx.stop is None else _min(idx.stop, obj.length)
            return SBytes(obj.arr, _max(arith("-", hi, lo), 0), arith("+", obj.off, lo))
        j = norm_index(I, idx, obj.length)
        return bytes_at(obj, j)
    if isinstance(obj, SSeq):
        if isinstance(idx, slice):
            lo = 0 if idx.start is None else idx.start
            hi = obj.length if idx.stop is None else idx.stop
            if idx.step is not None:
                raise PyvcError("stepped slice of symbolic sequence")
            return SSeq(_max(arith("-", _min(hi, obj.length), lo), 0), lambda i: obj.elem(arith("+", lo, i)), obj.kind)
        j = norm_index(I, idx, obj.length)
        return obj.elem(j)
    if isinstance(obj, PObj):
        from .interp import ClassVal

        if isinstance(obj.cls, ClassVal):
            m = I.find_method(obj.cls, "__getitem__")
            if m is not None:
                return I.call_function(m, [obj, idx], {})
    h = I.registry.getitem_fallback
    if h is not None:
        return h(I, obj, idx)
    raise PyvcError(f"subscript of {obj!r} not modelled (line {I.lineno})")


def set_item(I, obj, idx, v):
    if isinstance(obj, PList):
        if not isinstance(idx, int):
            raise PyvcError("symbolic list store")
        if idx < -len(obj.items) or idx >= len(obj.items):
            I.raise_("IndexError", "assignment index out of range")
        obj.items[idx] = v
        return
    if isinstance(obj, PDict):
        dict_set(I, obj, idx, v)
        return
    if isinstance(obj, PObj):
        from .interp import ClassVal

        if isinstance(obj.cls, ClassVal):
            m = I.find_method(obj.cls, "__setitem__")
            if m is not None:
                return I.call_function(m, [obj, idx, v], {})
    h = I.registry.setitem_fallback
    if h is not None:
        return h(I, obj, idx, v)
    raise PyvcError(f"item assignment on {obj!r} not modelled")


def del_item(I, obj, idx):
    if isinstance(obj, PDict):
        i = dict_find(I, obj, idx)
        if i < 0:
            I.raise_("KeyError", idx)
        obj.pop(obj.keys[i])
        return
    if isinstance(obj, PList) and isinstance(idx, int):
        del obj.items[idx]
        return
    raise PyvcError("del item not modelled")


# ------------------------------------------------------------------------------------------------
# snapshots / havoc


def snapshot(v, memo=None):
    """Deep copy of the mutable model structure (symbolic leaves are immutable and shared)."""
    if memo is None:
        memo = {}
    if id(v) in memo:
        return memo[id(v)]
    if isinstance(v, PList):
        r = PList()
        memo[id(v)] = r
        r.items = [snapshot(x, memo) for x in v.items]
        return r
    if isinstance(v, PDict):
        r = PDict()
        memo[id(v)] = r
        r.keys = [snapshot(x, memo) for x in v.keys]
        r.vals = [snapshot(x, memo) for x in v.vals]
        return r
    if isinstance(v, PSet):
        r = PSet()
        memo[id(v)] = r
        r.items = [snapshot(x, memo) for x in v.items]
        return r
    if isinstance(v, PObj):
        r = PObj(v.cls, tag=v.tag)
        memo[id(v)] = r
        r.fields = {k: snapshot(x, memo) for k, x in v.fields.items()}
        r.orig = getattr(v, "orig", v)
        return r
    if isinstance(v, StreamVal):
        r = v.clone()
        memo[id(v)] = r
        return r
    if isinstance(v, tuple):
        return tuple(snapshot(x, memo) for x in v)
    if isinstance(v, SSeq):
        r = SSeq(v.length, v.elem, v.kind, v.name)
        for k_, x_ in v.__dict__.items():
            r.__dict__.setdefault(k_, x_)
        memo[id(v)] = r
        return r
    if isinstance(v, OneShot):
        r = OneShot(v.items)
        r.consumed = v.consumed
        memo[id(v)] = r
        return r
    return v


def snapshot_env(I, env):
    from .interp import Env

    memo = {}
    out = Env(env.module)
    e = env
    chain = []
    while e is not None:
        chain.append(e)
        e = e.parent
    for e in reversed(chain):
        for k, v in e.vars.items():
            if k.startswith("_entry") or k == "_old":
                continue
            out.vars[k] = snapshot(v, memo)
    return out


def havoc_like(I, cur, name):
    """Fresh unconstrained value of the same shape as `cur`."""
    eng = I.eng
    if isinstance(cur, bool):
        return eng.fresh_bool(name)
    if isinstance(cur, int):
        return eng.fresh_int(name)
    if isinstance(cur, (float, fractions.Fraction)):
        return eng.fresh_real(name)
    if isinstance(cur, SV):
        if z3.is_bool(cur.e):
            return eng.fresh_bool(name)
        if z3.is_int(cur.e):
            return eng.fresh_int(name)
        return eng.fresh_real(name)
    if isinstance(cur, tuple):
        return tuple(havoc_like(I, x, f"{name}.{i}") for i, x in enumerate(cur))
    if cur is None:
        raise PyvcError(f"loop modifies {name} (None at entry): give its type in the loop contract's `modifies`")
    if isinstance(cur, SSeq) and cur.kind == "list":
        # only the length is havocked; the loop cut checks that the element map is unchanged
        cur.length = eng.fresh_int(name + ".len")
        eng.assume(compare(">=", cur.length, 0))
        return cur
    if isinstance(cur, StreamVal):
        cur.data = eng.fresh_array(name + ".data")
        cur.length = eng.fresh_int(name + ".length")
        cur.pos = eng.fresh_int(name + ".pos")
        return cur
    raise PyvcError(f"cannot havoc {name}={cur!r}: give its type in the loop contract's `modifies`")


# ------------------------------------------------------------------------------------------------
# generators (minimal: drained eagerly when iterated)


_IS_GENERATOR_CACHE = {}  # id(node) -> (node, bool); a pure function of the AST node


def is_generator(node):
    if isinstance(node, ast.Lambda):
        return False
    cached = _IS_GENERATOR_CACHE.get(id(node))
    if cached is not None and cached[0] is node:
        return cached[1]
    r = False
    for n in ast.walk(node):
        if isinstance(n, (ast.Yield, ast.YieldFrom)):
            # make sure it is not inside a nested def
            r = _own_yield(node)
            break
    _IS_GENERATOR_CACHE[id(node)] = (node, r)
    return r


def _own_yield(fn):
    def rec(n):
        for c in ast.iter_child_nodes(n):
            if isinstance(c, (ast.FunctionDef, ast.AsyncFunctionDef, ast.Lambda)):
                continue
            if isinstance(c, (ast.Yield, ast.YieldFrom)):
                return True
            if rec(c):
                return True
        return False

    return rec(fn)


class GeneratorVal:
    """Generator object: the body is run eagerly when first iterated; yields are collected."""

    def __init__(self, f, env, frame):
        self.f, self.env, self.frame = f, env, frame
        self.done = False
        self.result = None

    def drain(self, I):
        from .interp import ReturnSig

        if self.done:
            return []
        self.done = True
        self.frame.yielded = []
        I.frames.append(self.frame)
        try:
            try:
                I.exec_block(self.f.node.body, self.env)
            except ReturnSig as r:
                self.result = r.value
        finally:
            I.frames.pop()
        return list(self.frame.yielded)


def make_generator(I, f, env, frame):
    return GeneratorVal(f, env, frame)


def do_yield(I, v):
    fr = I.frames[-1]
    if fr.yielded is None:
        raise PyvcError("yield outside a drained generator")
    fr.yielded.append(v)
    h = I.registry.yield_hook
    if h is not None:
        return h(I, v)
    return None


def do_yield_from(I, v):
    fr = I.frames[-1]
    if isinstance(v, GeneratorVal):
        items = v.drain(I)
        fr.yielded.extend(items)
        return v.result
    items = iterate(I, v)
    fr.yielded.extend(items)
    return None


# ------------------------------------------------------------------------------------------------
# context managers


def cm_enter(I, cm):
    from .interp import ClassVal

    if isinstance(cm, PObj) and isinstance(cm.cls, ClassVal):
        m = I.find_method(cm.cls, "__enter__")
        if m is not None:
            return I.call_function(m, [cm], {})
    if isinstance(cm, ContextManagerVal):
        return cm.enter(I)
    raise PyvcError(f"context manager {cm!r} not modelled")


def cm_exit(I, cm, exc):
    from .interp import ClassVal

    if isinstance(cm, PObj) and isinstance(cm.cls, ClassVal):
        m = I.find_method(cm.cls, "__exit__")
        if m is not None:
            a = [cm, None, None, None] if exc is None else [cm, exc.cls, exc, None]
            return I.decide(I.call_function(m, a, {}))
    if isinstance(cm, ContextManagerVal):
        return cm.exit(I, exc)
    return False


class ContextManagerVal:
    """@contextmanager-decorated generator function, executed structurally."""

    def __init__(self, enter, exit_):
        self.enter = enter
        self.exit = exit_


class AnyException(Exception):
    """Stands for an arbitrary exception class raised by an unknown callee."""


def call_opaque(I, f, args, kwargs):
    """Unknown callee (user/library callback): returns any value or raises any Exception.
    Assumption (listed in evidence): it does not modify the modelled heap."""
    h = I.registry.opaque_call
    if h is not None:
        return h(I, f, args, kwargs)
    if getattr(f, "total", False):
        return Opaque(f"{f.name}()")
    if I.eng.choose(2, "opaque-raises?") == 1:
        from .interp import SymRaise

        raise SymRaise(PExc(AnyException, (f"raised by {f.name}",)))
    return Opaque(f"{f.name}()")


# ------------------------------------------------------------------------------------------------
# math


def msqrt(I, x):
    if not is_sym(x):
        if x < 0:
            I.raise_("ValueError", "math domain error")
        r = math.sqrt(x)
        if r == int(r):
            return float(r)
        # irrational constants are kept symbolic-exact
        s = I.eng.fresh_real("sqrt")
        I.eng.assume(sv_and(compare(">=", s, 0), compare("==", arith("*", s, s), x)))
        return s
    if not I.in_spec and I.decide(compare("<", x, 0)):
        I.raise_("ValueError", "math domain error")
    s = I.eng.fresh_real("sqrt")
    I.eng.assume(sv_and(compare(">=", s, 0), compare("==", arith("*", s, s), x)))
    return s


def mhypot(I, *xs):
    if not any(is_sym(x) for x in xs):
        return math.hypot(*xs)
    h = I.eng.fresh_real("hypot")
    sq = 0
    for x in xs:
        sq = arith("+", sq, arith("*", x, x))
    I.eng.assume(sv_and(compare(">=", h, 0), compare("==", arith("*", h, h), sq)))
    return h


def mfloor(I, x):
    if not is_sym(x):
        return math.floor(x)
    if z3.is_int(x.e):
        return x
    return SV(z3.ToInt(x.e), False)


def mceil(I, x):
    if not is_sym(x):
        return math.ceil(x)
    if z3.is_int(x.e):
        return x
    return SV(-z3.ToInt(-x.e), False)


def mabs(I, x):
    if isinstance(x, Infinity):
        return Infinity(1)
    if not is_sym(x):
        if is_scalar(x):
            return abs(x)
        return unary_object(I, "__abs__", x)
    return sv_ite(compare(">=", x, 0), x, arith("-", 0, x))


def mmin(I, *args, key=None, default=None):
    return _minmax(I, "<", args, key, default)


def mmax(I, *args, key=None, default=None):
    return _minmax(I, ">", args, key, default)


def _minmax(I, op, args, key, default):
    if len(args) == 1:
        items = iterate(I, args[0])
        if not items:
            if default is not None:
                return default
            I.raise_("ValueError", "min()/max() arg is an empty sequence")
    else:
        items = list(args)
    best = items[0]
    bk = I.call_value(key, [best]) if key else best
    for x in items[1:]:
        k = I.call_value(key, [x]) if key else x
        c = compare_any(I, op, k, bk) if not (is_scalar(k) or isinstance(k, Infinity)) else compare(op, k, bk)
        if isinstance(c, bool):
            if c:
                best, bk = x, k
        elif is_scalar(best) and is_scalar(x) and key is None:
            best = sv_ite(c, x, best)
            bk = best
        else:
            if I.decide(c):
                best, bk = x, k
    return best


class NativeModule:
    def __init__(self, name, attrs):
        self.name = name
        self.attrs = attrs


# ------------------------------------------------------------------------------------------------
# special forms of the specification language


def sf_old(I, n, env):
    old = env.lookup("_old")
    from .interp import Env

    e = Env(env.module, None, dict(old.vars))
    # spec helpers remain visible
    return I.eval(n.args[0], _SpecOverlay(env, old))


class _SpecOverlay:
    """Environment in which program variables read their entry snapshot."""

    def __init__(self, env, old):
        self.module = env.module
        self.env = env
        self.old = old
        self.parent = None
        self.vars = old.vars
        self.nonlocals = set()
        self.globals_ = set()

    def lookup(self, name):
        if name in self.old.vars:
            return self.old.vars[name]
        return self.env.lookup(name)

    def has(self, name):
        return name in self.old.vars or self.env.has(name)

    def assign(self, name, value):
        raise PyvcError("assignment inside old()")


def sf_entry(I, n, env):
    ent = env.lookup("_entry")
    return I.eval(n.args[0], _SpecOverlay(env, ent))


def sf_implies(I, n, env):
    a = I.eval(n.args[0], env)
    ta = I.truth(a)
    if ta is False:
        return True
    b = I.eval(n.args[1], env)
    tb = I.truth(b)
    if isinstance(ta, bool) and isinstance(tb, bool):
        return (not ta) or tb
    return sv_implies(ta, tb)


def _quant(I, n, env, forall):
    """forall(i, lo, hi, body) / exists(i, lo, hi, body): integer-bounded quantifier."""
    from .interp import Env

    var = n.args[0].id
    lo = I.eval(n.args[1], env)
    hi = I.eval(n.args[2], env)
    if isinstance(lo, int) and isinstance(hi, int) and hi - lo <= 64:
        vals = []
        for k in range(lo, hi):
            e2 = Env(env.module, env)
            e2.vars[var] = k
            vals.append(I.truth(I.eval(n.args[3], e2)))
        return (sv_and if forall else sv_or)(*vals)
    I.qcount = getattr(I, "qcount", 0) + 1
    zv = z3.Int(f"{var}!q{I.qcount}")
    e2 = Env(env.module, env)
    e2.vars[var] = SV(zv)
    body = tobool(I.truth(I.eval(n.args[3], e2)))
    rng = z3.And(zv >= tonum(lo), zv < tonum(hi))
    if forall:
        return simplify_sv(z3.ForAll([zv], z3.Implies(rng, body)))
    return simplify_sv(z3.Exists([zv], z3.And(rng, body)))


def sf_forall(I, n, env):
    return _quant(I, n, env, True)


def sf_exists(I, n, env):
    return _quant(I, n, env, False)


def sf_ite(I, n, env):
    c = I.truth(I.eval(n.args[0], env))
    if isinstance(c, bool):
        return I.eval(n.args[1] if c else n.args[2], env)
    return sv_ite(c, I.eval(n.args[1], env), I.eval(n.args[2], env))


SPECIAL_FORMS = {"old": sf_old, "entry": sf_entry, "implies": sf_implies, "forall": sf_forall, "exists": sf_exists, "ite": sf_ite}
ALWAYS_SPECIAL = set()


# ------------------------------------------------------------------------------------------------
# builtins table


def make_builtins(I):
    from .interp import BuiltinFn, ClassVal, GenExp

    def b_len(x):
        if isinstance(x, (tuple, str, bytes, list)):
            return len(x)
        if isinstance(x, PList):
            return len(x.items)
        if isinstance(x, PSet):
            return len(x.items)
        if isinstance(x, PDict):
            return len(x.keys)
        if isinstance(x, (SBytes, SSeq)):
            return x.length
        if isinstance(x, RangeVal):
            return _max(arith("-", x.stop, x.start), 0)
        if isinstance(x, PObj) and isinstance(x.cls, ClassVal):
            m = I.find_method(x.cls, "__len__")
            if m is not None:
                return I.call_function(m, [x], {})
        h = I.registry.len_fallback
        if h is not None:
            return h(I, x)
        raise PyvcError(f"len of {x!r} not modelled")

    def b_isinstance(x, cls):
        return isinstance_model(I, x, cls)

    def b_issubclass(c, target):
        return I.is_subclass(c, target)

    def b_range(*a):
        if len(a) == 1:
            return RangeVal(0, a[0])
        if len(a) == 2:
            return RangeVal(a[0], a[1])
        return RangeVal(a[0], a[1], a[2])

    def _qt(x, forall):
        if isinstance(x, QuantBody):
            if forall:
                return z3.ForAll([x.var], z3.Implies(x.rng, x.body))
            return z3.Exists([x.var], z3.And(x.rng, x.body))
        return I.truth(x)

    def b_all(it):
        vals = [_qt(x, True) for x in iter_spec(I, it)]
        if I.in_spec:
            return sv_and(*vals)
        for v in vals:
            if not (v if isinstance(v, bool) else I.eng.branch(v)):
                return False
        return True

    def b_any(it):
        vals = [_qt(x, False) for x in iter_spec(I, it)]
        if I.in_spec:
            return sv_or(*vals)
        for v in vals:
            if v if isinstance(v, bool) else I.eng.branch(v):
                return True
        return False

    def b_sum(it, start=0):
        acc = start
        for x in iterate(I, it):
            acc = I.binop(ast.Add(), acc, x)
        return acc

    def b_tuple(it=()):
        return tuple(iterate(I, it))

    def b_list(it=()):
        return PList(iterate(I, it))

    def b_set(it=()):
        s = PSet()
        add = set_method(I, s, "add").fn
        for x in iterate(I, it):
            add(x)
        return s

    def b_frozenset(it=()):
        s = b_set(it)
        s.frozen = True
        return s

    def b_dict(it=None, **kw):
        d = PDict()
        if it is not None:
            if isinstance(it, PDict):
                for k, v in zip(it.keys, it.vals):
                    d.set(k, v)
            else:
                for pair in iterate(I, it):
                    k, v = iterate(I, pair)
                    dict_set(I, d, k, v)
        for k, v in kw.items():
            d.set(k, v)
        return d

    def b_zip(*its):
        lists = [iterate(I, x) for x in its]
        return OneShot(list(zip(*lists)))

    def b_enumerate(it, start=0):
        return OneShot([(i + start, x) for i, x in enumerate(iterate(I, it))])

    def b_reversed(it):
        return OneShot(list(reversed(iterate(I, it))))

    def b_sorted(it, key=None, reverse=False):
        return PList(sorted_model(I, iterate(I, it), key, reverse))

    def b_filter(fn, it):
        out = []
        for x in iterate(I, it):
            r = x if fn is None else I.call_value(fn, [x])
            if I.decide(r):
                out.append(x)
        return OneShot(out)

    def b_map(fn, *its):
        lists = [iterate(I, x) for x in its]
        return OneShot([I.call_value(fn, list(a)) for a in zip(*lists)])

    def b_iter(it):
        return OneShot(iterate(I, it))

    def b_next(it, *default):
        if isinstance(it, OneShot):
            if it.consumed or not it.items:
                it.consumed = True
                if default:
                    return default[0]
                I.raise_("StopIteration")
            return it.items.pop(0)
        h = getattr(I.registry, "next_hook", None)  # models_dyn: lazy generator expressions, scripted iterators
        if h is not None:
            return h(I, it, default)
        raise PyvcError("next() on non-iterator")

    def b_bool(x=False):
        t = I.truth(x)
        return t if isinstance(t, bool) else simplify_sv(t)

    def b_int(x=0):
        if isinstance(x, SV):
            if z3.is_bool(x.e):
                return SV(z3.If(x.e, z3.IntVal(1), z3.IntVal(0)))
            if z3.is_int(x.e):
                return x
            # truncation toward zero
            e = x.e
            return SV(z3.If(e >= 0, z3.ToInt(e), -z3.ToInt(-e)), False)
        return int(x)

    def b_float(x=0.0):
        if isinstance(x, str):
            if x in ("inf", "+inf", "Infinity"):
                return Infinity(1)
            if x == "-inf":
                return Infinity(-1)
            return float(x)
        if isinstance(x, SV):
            return SV(toz3(x, want_real=True), True)
        if isinstance(x, Infinity):
            return x
        return float(x)

    def b_bytes(x=b""):
        if isinstance(x, (bytes, SBytes)):
            return x
        items = iterate(I, x)
        for it in items:
            ok = sv_and(compare("<=", 0, it), compare("<=", it, 255))
            if not I.decide(ok):
                I.raise_("ValueError", "bytes must be in range(0, 256)")
        if all(isinstance(it, int) for it in items):
            return bytes(items)
        arr = z3.K(_I, z3.IntVal(0))
        for j, it in enumerate(items):
            arr = z3.Store(arr, j, tonum(it))
        return SBytes(arr, len(items), 0)

    def b_hasattr(o, name):
        from .interp import SymRaise

        try:
            get_attr(I, o, name)
            return True
        except SymRaise as e:
            if I.exc_matches(e.exc, AttributeError):
                return False
            raise

    def b_getattr(o, name, *default):
        from .interp import SymRaise

        try:
            return get_attr(I, o, name)
        except SymRaise as e:
            if default and I.exc_matches(e.exc, AttributeError):
                return default[0]
            raise

    def b_setattr(o, name, v):
        set_attr(I, o, name, v)

    def b_type(o):
        if isinstance(o, (PObj, PExc)):
            return o.cls
        if isinstance(o, PList):
            return list
        if isinstance(o, PDict):
            return dict
        if isinstance(o, SV):
            return bool if z3.is_bool(o.e) else (float if o.isfloat else int)
        return type(o)

    def b_id(o):
        return IdToken(o)

    def b_callable(o):
        from .interp import FuncVal, BoundMethod

        return isinstance(o, (FuncVal, BoundMethod, BuiltinFn, ClassVal)) or callable(o)

    def b_round(x, nd=None):
        if not is_sym(x):
            return round(x) if nd is None else round(x, nd)
        if nd is not None:
            raise PyvcError("round(x, ndigits) of a symbolic value not modelled")
        if z3.is_int(x.e):
            return x
        # round half to even (Python 3): floor(x + 1/2), minus one on an exact tie with an odd result
        e = x.e
        r = z3.ToInt(e + z3.RealVal("1/2"))
        tie = e + z3.RealVal("1/2") == z3.ToReal(r)
        return SV(z3.If(z3.And(tie, r % 2 != 0), r - 1, r), False)

    def b_repr(x):
        return "<repr>"

    def b_print(*a, **k):
        return None

    def b_super(*a):
        raise PyvcError("super() needs a model (use registry.models)")

    def b_divmod(a, b):
        return (I.binop(ast.FloorDiv(), a, b), I.binop(ast.Mod(), a, b))

    def b_pow(a, b):
        return I.binop(ast.Pow(), a, b)

    table = {
        "len": b_len,
        "isinstance": b_isinstance,
        "issubclass": b_issubclass,
        "range": b_range,
        "all": b_all,
        "any": b_any,
        "sum": b_sum,
        "min": lambda *a, **k: mmin(I, *a, **k),
        "max": lambda *a, **k: mmax(I, *a, **k),
        "abs": lambda x: mabs(I, x),
        "tuple": b_tuple,
        "list": b_list,
        "set": b_set,
        "frozenset": b_frozenset,
        "dict": b_dict,
        "zip": b_zip,
        "enumerate": b_enumerate,
        "reversed": b_reversed,
        "sorted": b_sorted,
        "filter": b_filter,
        "map": b_map,
        "iter": b_iter,
        "next": b_next,
        "bool": b_bool,
        "int": b_int,
        "float": b_float,
        "bytes": b_bytes,
        "hasattr": b_hasattr,
        "getattr": b_getattr,
        "setattr": b_setattr,
        "type": b_type,
        "id": b_id,
        "callable": b_callable,
        "round": b_round,
        "repr": b_repr,
        "str": lambda x="": x if isinstance(x, str) else "<str>",
        "print": b_print,
        "super": b_super,
        "divmod": b_divmod,
        "pow": b_pow,
    }
    out = {k: BuiltinFn(k, v) for k, v in table.items()}
    # type objects used with isinstance / as callables
    TYPEFN.update({"int": int, "float": float, "bool": bool, "str": str, "bytes": bytes, "tuple": tuple, "list": list, "dict": dict, "set": set, "frozenset": frozenset, "type": type})
    for k, ty in TYPEFN.items():
        out[k].pytype = ty
    out["None"] = None
    out["True"] = True
    out["False"] = False
    out["NotImplemented"] = NotImplemented
    out["Ellipsis"] = Ellipsis
    out["object"] = object
    out["slice"] = slice
    return out


TYPEFN = {}


def iter_spec(I, it):
    """Elements of a (generator) expression for all()/any(); quantifies over symbolic ranges in spec mode."""
    from .interp import GenExp, Env

    if isinstance(it, GenExp) and len(it.node.generators) == 1:
        g = it.node.generators[0]
        src = I.eval(g.iter, it.env)
        symbolic = (isinstance(src, RangeVal) and not all(isinstance(x, int) for x in (src.start, src.stop))) or (
            isinstance(src, (SSeq, SBytes)) and not isinstance(src.length, int)
        )
        if symbolic:
            seq = as_indexable(I, src)
            I.qcount = getattr(I, "qcount", 0) + 1
            zv = z3.Int(f"k!q{I.qcount}")
            e2 = Env(it.env.module, it.env)
            I.spec_depth += 1
            try:
                I.assign_target(g.target, seq.elem(SV(zv)), e2)
                conds = [tobool(I.truth(I.eval(c, e2))) for c in g.ifs]
                body = tobool(I.truth(I.eval(it.node.elt, e2)))
            finally:
                I.spec_depth -= 1
            rng = z3.And(zv >= 0, zv < tonum(seq.length), *conds)
            return [QuantBody(zv, rng, body)]
        it.consumed = True
        out = []
        I._comp(it.node, it.env, lambda e: out.append(I.eval(it.node.elt, e)))
        return out
    return iterate(I, it)


class QuantBody:
    """Marker for a quantified element set; truth() of it is handled in all/any."""

    def __init__(self, var, rng, body):
        self.var, self.rng, self.body = var, rng, body


def isinstance_model(I, x, cls):
    from .interp import ClassVal, BuiltinFn, FuncVal

    if isinstance(cls, tuple):
        rs = [isinstance_model(I, x, c) for c in cls]
        if any(r is True for r in rs):
            return True
        syms = [r for r in rs if not isinstance(r, bool)]
        return sv_or(*syms) if syms else False
    if isinstance(cls, BuiltinFn) and hasattr(cls, "pytype"):
        cls = cls.pytype
    h = I.registry.isinstance_hook
    if h is not None:
        r = h(I, x, cls)
        if r is not None:
            return r
    if getattr(cls, "name", None) in ("numbers.Real", "numbers.Number") and isinstance(cls, type):
        return isinstance(x, (int, float, fractions.Fraction, SV, Infinity))
    if isinstance(x, (PObj, PExc)):
        if isinstance(x.cls, (ClassVal, type)):
            return I.is_subclass(x.cls, cls)
        return False
    if isinstance(cls, ClassVal):
        return False
    if cls is object:
        return True
    if isinstance(x, SV):
        if z3.is_bool(x.e):
            return cls in (bool, int)
        if x.isfloat:
            return cls is float
        return cls is int
    if isinstance(x, PList):
        return cls is list
    if isinstance(x, PDict):
        return cls is dict
    if isinstance(x, PSet):
        return cls in ((frozenset,) if x.frozen else (set,))
    if isinstance(x, SBytes):
        return cls is bytes
    if isinstance(x, SSeq):
        return cls is (tuple if x.kind == "tuple" else list)
    if isinstance(x, Infinity):
        return cls is float
    if isinstance(x, fractions.Fraction):
        return cls is float
    if isinstance(cls, type):
        try:
            return isinstance(x, cls)
        except TypeError:
            return False
    # abstract classes from typing / numbers
    name = getattr(cls, "name", None)
    if name in ("numbers.Real", "numbers.Number"):
        return isinstance(x, (int, float, fractions.Fraction, SV, Infinity)) and True
    raise PyvcError(f"isinstance against {cls!r} not modelled")


def make_modules(I):
    from .interp import BuiltinFn

    def fn(name, f):
        return BuiltinFn(name, f)

    mathmod = NativeModule(
        "math",
        {
            "pi": math.pi,
            "tau": math.tau,
            "inf": Infinity(1),
            "floor": fn("floor", lambda x: mfloor(I, x)),
            "ceil": fn("ceil", lambda x: mceil(I, x)),
            "sqrt": fn("sqrt", lambda x: msqrt(I, x)),
            "hypot": fn("hypot", lambda *xs: mhypot(I, *xs)),
            "fabs": fn("fabs", lambda x: mabs(I, x)),
            "isinf": fn("isinf", lambda x: isinstance(x, Infinity)),
            "isnan": fn("isnan", lambda x: False),
            "copysign": fn("copysign", lambda a, b: sv_ite(compare(">=", b, 0), mabs(I, a), arith("-", 0, mabs(I, a)))),
        },
    )
    mods = {"math": mathmod}
    for name, maker in EXTRA_MODULES.items():
        mods[name] = maker(I)
    return mods


EXTRA_MODULES = {}


# ------------------------------------------------------------------------------------------------
# struct (library contract L-struct): '<' formats with H, I (definitional) and d (abstract bijection)

import struct as _struct

StructError = _struct.error
isdouble = z3.Function("isdouble", _A, _I, z3.RealSort(), z3.BoolSort())
fdouble = z3.Function("fdouble", _A, _I, z3.RealSort())
LIBRARY_CONTRACTS["L-struct"] = (
    "struct.pack/unpack with '<' formats: H and I are little-endian unsigned (definitional); 'd' is an 8-byte "
    "encoding with unpack(pack(x)) == x (isdouble(D,off,x) => fdouble(D,off) == x); wrong buffer size raises struct.error"
)


def struct_axioms(eng):
    D = z3.Const("D!sx", _A)
    off = z3.Int("off!sx")
    x = z3.Real("x!sx")
    eng.add_axiom("L-struct.double", z3.ForAll([D, off, x], z3.Implies(isdouble(D, off, x), fdouble(D, off) == x)))


def _fmt_codes(fmt):
    if not isinstance(fmt, str) or not fmt.startswith("<"):
        raise PyvcError(f"struct format {fmt!r} not modelled")
    sizes = {"H": 2, "I": 4, "d": 8, "B": 1}
    codes = []
    for ch in fmt[1:]:
        if ch not in sizes:
            raise PyvcError(f"struct code {ch!r} not modelled")
        codes.append((ch, sizes[ch]))
    return codes


def struct_pack(I, fmt, *vals):
    codes = _fmt_codes(fmt)
    if len(vals) != len(codes):
        raise SymRaiseLater(StructError, "pack expected %d items" % len(codes))
    struct_axioms(I.eng)
    arr = I.eng.fresh_array("packed")
    k = z3.Int("k!pk")
    I.eng.assume(z3.ForAll([k], z3.And(z3.Select(arr, k) >= 0, z3.Select(arr, k) <= 255)))
    off = 0
    facts = []
    for (ch, size), v in zip(codes, vals):
        if ch == "d":
            if not (is_scalar(v)):
                I.raise_("TypeError", "required argument is not a float")
            zv = toz3(v, want_real=True)
            I.eng.assume(isdouble(arr, off, zv))
            facts.append(lambda D, p, o=off, zv=zv: isdouble(D, tonum(p) + o, zv))
        else:
            if isinstance(v, SV) and v.isfloat or isinstance(v, float):
                raise SymRaiseLater(StructError, "required argument is not an integer")
            ok = sv_and(compare("<=", 0, v), compare("<", v, 256**size))
            if not I.decide(ok):
                raise SymRaiseLater(StructError, "argument out of range")
            for t in range(size):
                I.eng.assume(z3.Select(arr, off + t) == (tonum(v) / (256**t)) % 256)
        off += size
    out = SBytes(arr, off, 0)
    out.facts = facts
    return out


class SymRaiseLater(Exception):
    def __init__(self, cls, *args):
        self.cls, self.args_ = cls, args


def struct_unpack(I, fmt, b):
    codes = _fmt_codes(fmt)
    total = sum(sz for _, sz in codes)
    b = to_sbytes(b)
    if not I.decide(compare("==", b.length, total)):
        raise SymRaiseLater(StructError, "unpack requires a buffer of %d bytes" % total)
    struct_axioms(I.eng)
    out = []
    off = tonum(b.off)
    for ch, size in codes:
        if ch == "d":
            out.append(SV(fdouble(b.arr, off), True))
        else:
            out.append(SV(z3.Sum([z3.Select(b.arr, off + t) * (256**t) for t in range(size)])))
        off = off + size
    return tuple(out)


def _make_struct(I):
    from .interp import BuiltinFn, SymRaise

    def wrap(f):
        def g(*a):
            try:
                return f(I, *a)
            except SymRaiseLater as e:
                raise SymRaise(PExc(e.cls, e.args_))

        return g

    return NativeModule("struct", {"pack": BuiltinFn("pack", wrap(struct_pack)), "unpack": BuiltinFn("unpack", wrap(struct_unpack)), "error": StructError, "calcsize": BuiltinFn("calcsize", lambda fmt: sum(s for _, s in _fmt_codes(fmt)))})


EXTRA_MODULES["struct"] = _make_struct


class NumbersReal:
    name = "numbers.Real"


class NumbersNumber:
    name = "numbers.Number"


def _make_pickle(I):
    load, dump = Opaque("pickle.load"), Opaque("pickle.dump")
    return NativeModule("pickle", {"load": load, "dump": dump})


EXTRA_MODULES["pickle"] = _make_pickle


def _make_time(I):
    from .interp import BuiltinFn

    return NativeModule("time", {"perf_counter": BuiltinFn("perf_counter", lambda: I.eng.fresh_real("clock")), "time": BuiltinFn("time", lambda: I.eng.fresh_real("clock"))})


EXTRA_MODULES["time"] = _make_time


def _make_itertools(I):
    import itertools as it

    from .interp import BuiltinFn

    def combinations(xs, r):
        return OneShot(list(it.combinations(iterate(I, xs), r)))

    def chain(*xs):
        out = []
        for x in xs:
            out.extend(iterate(I, x))
        return OneShot(out)

    def product(*xs, repeat=1):
        return OneShot(list(it.product(*[iterate(I, x) for x in xs], repeat=repeat)))

    def accumulate(xs, func=None, initial=None):
        out = []
        acc = initial
        items = iterate(I, xs)
        if initial is not None:
            out.append(initial)
        for x in items:
            if acc is None:
                acc = x
            else:
                acc = I.call_value(func, [acc, x]) if func is not None else I.binop(ast.Add(), acc, x)
            out.append(acc)
        return OneShot(out)

    def permutations(xs, r=None):
        return OneShot(list(it.permutations(iterate(I, xs), r)))

    return NativeModule("itertools", {k: BuiltinFn(k, v) for k, v in dict(combinations=combinations, chain=chain, product=product, accumulate=accumulate, permutations=permutations).items()})


EXTRA_MODULES["itertools"] = _make_itertools


def _make_ast(I):
    import ast as _ast

    return NativeModule("ast", {k: getattr(_ast, k) for k in dir(_ast) if not k.startswith("_")})


EXTRA_MODULES["ast"] = _make_ast

LIBRARY_CONTRACTS["A3-rng"] = (
    "laws of the library RNG primitives: random() uniform on [0,1); randint(a,b) uniform on the closed integer range; "
    "choices(pop, cum_weights=c) picks index i with probability (c[i]-c[i-1])/c[-1]; uniform/triangular/gauss as documented. "
    "Each call is logged in the ghost RNG trace (primitive, arguments) and returns a fresh value constrained to its range."
)


def _make_random(I):
    from .interp import BuiltinFn

    eng = I.eng

    def log(prim, args, result):
        eng.rng_trace.append((prim, args, result))
        return result

    def random_():
        u = eng.fresh_real("u")
        eng.assume(sv_and(compare(">=", u, 0), compare("<", u, 1)))
        return log("random", (), u)

    def randint(a, b):
        if not I.decide(compare("<=", a, b)):
            I.raise_("ValueError", "empty range for randint")
        r = eng.fresh_int("randint")
        eng.assume(sv_and(compare("<=", a, r), compare("<=", r, b)))
        return log("randint", (a, b), r)

    def randrange(a, b=None):
        lo, hi = (0, a) if b is None else (a, b)
        if not I.decide(compare("<", lo, hi)):
            I.raise_("ValueError", "empty range for randrange")
        r = eng.fresh_int("randrange")
        eng.assume(sv_and(compare("<=", lo, r), compare("<", r, hi)))
        return log("randrange", (lo, hi), r)

    def uniform(a, b):
        r = eng.fresh_real("uniform")
        lo, hi = _min(a, b), _max(a, b)
        eng.assume(sv_and(compare("<=", lo, r), compare("<=", r, hi)))
        return log("uniform", (a, b), r)

    def triangular(low=0.0, high=1.0, mode=None):
        r = eng.fresh_real("triangular")
        eng.assume(sv_and(compare("<=", _min(low, high), r), compare("<=", r, _max(low, high))))
        return log("triangular", (low, high, mode), r)

    def gauss(mu=0.0, sigma=1.0):
        r = eng.fresh_real("gauss")
        return log("gauss", (mu, sigma), r)

    def choices(population, weights=None, *, cum_weights=None, k=1):
        pop = iterate(I, population)
        if not pop:
            I.raise_("IndexError", "Cannot choose from an empty sequence")
        if k != 1:
            raise PyvcError("random.choices with k != 1 not modelled")
        if weights is not None and cum_weights is not None:
            I.raise_("TypeError", "Cannot specify both weights and cumulative weights")
        if weights is not None:
            ws = iterate(I, weights)
            cum, acc = [], 0
            for w in ws:
                acc = arith("+", acc, w)
                cum.append(acc)
        elif cum_weights is not None:
            cum = iterate(I, cum_weights)
        else:
            cum = list(range(1, len(pop) + 1))
        if len(cum) != len(pop):
            I.raise_("ValueError", "The number of weights does not match the population")
        if not I.decide(compare(">", cum[-1], 0)):
            I.raise_("ValueError", "Total of weights must be greater than zero")
        idx = eng.fresh_int("choice")
        eng.assume(sv_and(compare("<=", 0, idx), compare("<", idx, len(pop))))
        # support: an index of zero probability (c[i] == c[i-1]) is never drawn
        for i in range(len(pop)):
            prev = cum[i - 1] if i > 0 else 0
            eng.assume(sv_implies(compare("==", idx, i), compare(">", cum[i], prev)))
        log("choices", (tuple(pop), tuple(cum)), idx)
        chosen = pop[0]
        if all(is_scalar(x) for x in pop):
            for i in range(1, len(pop)):
                chosen = sv_ite(compare("==", idx, i), pop[i], chosen)
            return PList([chosen])
        for i in range(len(pop)):
            if eng.branch(tobool(compare("==", idx, i))):
                return PList([pop[i]])
        raise PathEnd()

    def getstate():
        return ("rngstate", len(eng.rng_trace))

    def setstate(st):
        log("setstate", (st,), None)

    def shuffle(lst):
        raise PyvcError("random.shuffle not modelled")

    fns = dict(random=random_, randint=randint, randrange=randrange, uniform=uniform, triangular=triangular, gauss=gauss, choices=choices, getstate=getstate, setstate=setstate, shuffle=shuffle)
    return NativeModule("random", {k: BuiltinFn("random." + k, v) for k, v in fns.items()})


EXTRA_MODULES["random"] = _make_random
EXTRA_MODULES["numbers"] = lambda I: NativeModule("numbers", {"Real": NumbersReal, "Number": NumbersNumber})


class SuperProxy:
    def __init__(self, obj, owner):
        self.obj, self.owner = obj, owner
