"""Library models used by the OpenDRIVE link-building contracts (C20, contracts/xodr.py).

Nothing here is Scenic code.  Two trusted statements about libraries the carriers use:

* `attrs`: a class decorated `@attr.s(auto_attribs=True, kw_only=True, ...)` gets an `__init__` that takes one keyword per
  annotated attribute of the class and its attrs bases (a leading underscore of a private attribute is stripped from the
  keyword), stores defaults from the class body for omitted keywords, rejects missing / unknown keywords with TypeError
  and finally calls `__attrs_post_init__()` (which is the REAL method, interpreted).
* geometry (shapely polygons, Scenic regions built from them) is abstract: tokens that answer the construction-time
  geometric assertions positively; the link clauses never look inside them."""
import ast

from .interp import BuiltinFn, ClassVal, Env
from .values import Opaque, PDict, PList, PObj, PyvcError
from . import extract


def _is_attrs(c):
    for d in c.node.decorator_list:
        src = ast.unparse(d)
        if src.startswith("attr.s") or src.startswith("attr.define") or src.startswith("attrs."):
            return True
    return False


def attrs_fields(I, cls):
    """[(attribute name, default expression or None, module)] in attrs order (bases first, redefinitions replace)."""
    out = []
    for c in reversed(I.class_mro(cls)):
        if not isinstance(c, ClassVal) or not _is_attrs(c):
            continue
        for node in c.node.body:
            if isinstance(node, ast.AnnAssign) and isinstance(node.target, ast.Name):
                ann = ast.unparse(node.annotation)
                if ann.startswith("ClassVar"):
                    continue
                out = [f for f in out if f[0] != node.target.id]
                out.append((node.target.id, node.value, c.modname))
    return out


def attrs_ctor(I, cls, args, kwargs):
    if args:
        I.raise_("TypeError", "attrs kw_only class called with positional arguments")
    obj = PObj(cls)
    kw = dict(kwargs)
    for name, default, mod in attrs_fields(I, cls):
        init = name.lstrip("_")
        if init in kw:
            obj.fields[name] = kw.pop(init)
        elif default is not None:
            try:
                obj.fields[name] = I.eval(default, Env(extract.get_module(mod)))
            except PyvcError:
                obj.fields[name] = Opaque(f"default of {name}")
        else:
            I.raise_("TypeError", f"__init__() missing 1 required keyword-only argument: '{init}'")
    if kw:
        I.raise_("TypeError", f"__init__() got an unexpected keyword argument '{sorted(kw)[0]}'")
    post = I.find_method(cls, "__attrs_post_init__")
    if post is not None:
        I.run_function(post, [obj], {}, None)
    return obj


def polygon_token(tag="polygon"):
    p = PObj("Polygon", tag=tag)
    p.fields.update(overlaps=BuiltinFn("overlaps", lambda other: False), is_empty=False, is_valid=True, geom_type="Polygon")
    return p


def region_token(tag="region"):
    r = PObj("Region", tag=tag)
    r.fields.update(containsRegion=BuiltinFn("containsRegion", lambda other, tolerance=0: True), union=BuiltinFn("union", lambda other, **k: region_token("union")))
    return r


def install_geometry_tokens(reg, xodr_mod="scenic.formats.opendrive.xodr_parser"):
    """Abstract geometry for the element constructors (trusted, listed by the contract module)."""

    def polyline_ctor(I, cls, args, kwargs):
        pts = args[0] if args else kwargs.get("points", ())
        o = PObj("PolylineRegion")
        o.fields["points"] = tuple(I.iterate(pts)) if pts is not None else ()
        return o

    reg.constructors["scenic.core.regions:PolylineRegion"] = polyline_ctor
    reg.constructors["scenic.core.vectors:VectorField"] = lambda I, cls, args, kwargs: PObj("VectorField")
    def polygonal_init(I, self, *a, polygon=None, **k):
        # the region keeps the polygon it is given (MultiPolygon normalisation is shapely's business)
        self.fields["_polygons"] = polygon
        self.fields["polygons"] = polygon
        return None

    reg.models["scenic.core.regions:PolygonalRegion.__init__"] = polygonal_init
    reg.models["scenic.core.regions:Region.containsRegion"] = lambda I, self, *a, **k: True
    reg.models["scenic.core.regions:PolygonalRegion.unionAll"] = lambda I, regions, buf=0: (list(I.iterate(regions)), region_token("union of polygonal regions"))[1]
    reg.models["scenic.core.regions:PolylineRegion.unionAll"] = lambda I, regions: (list(I.iterate(regions)), region_token("union of polylines"))[1]
    reg.models["scenic.core.regions:PolygonalRegion.union"] = lambda I, self, other, **k: region_token("union")
    reg.models["scenic.core.geometry:cleanChain"] = lambda I, chain, *a, **k: chain
    reg.models["scenic.core.geometry:averageVectors"] = lambda I, a, b, weight=0.5: a
    reg.models[f"{xodr_mod}:buffer_union"] = lambda I, polys, tolerance=0.01: (list(I.iterate(polys)), polygon_token("union"))[1]
    reg.models[f"{xodr_mod}:warn"] = lambda I, message: None


def install_fstrings(reg):
    """f-strings whose parts are concrete strings / integers without format specs (the generated uids) are evaluated;
    anything else stays the opaque text "<fstring>" (messages).  An already installed hook is kept."""
    if getattr(reg, "fstring_hook", None) is not None:
        return

    def hook(I, node, env):
        parts = []
        for v in node.values:
            if isinstance(v, ast.Constant):
                parts.append(str(v.value))
                continue
            if isinstance(v, ast.FormattedValue) and v.format_spec is None and v.conversion == -1:
                try:
                    x = I.eval(v.value, env)
                except PyvcError:
                    return "<fstring>"
                if isinstance(x, (str, int)) and not isinstance(x, bool):
                    parts.append(str(x))
                    continue
            return "<fstring>"
        return "".join(parts)

    reg.fstring_hook = hook


def install_enum(reg):
    """`enum.auto()` in an Enum class body: one distinct constant per member (keyed by the source line of the call, so that
    every evaluation of `Class.MEMBER` yields the identical constant)."""
    from .builtins_model import NativeModule
    from .interp import SpecFn

    tokens = {}

    def auto(I):
        return tokens.setdefault(I.lineno, Opaque(f"enum member defined at line {I.lineno}"))

    xm = getattr(reg, "extra_modules", None) or {}
    if "enum" not in xm:
        xm["enum"] = NativeModule("enum", {"auto": SpecFn(auto, "auto", needs_interp=True), "Enum": object})
    reg.extra_modules = xm
