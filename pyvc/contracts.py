"""Contract language of pyvc: sidecar contracts on real functions, types for symbolic inputs,
the registry, modular application at call sites and verification of a body against its contract."""
import ast
import fractions
import traceback

import z3

from . import extract
from .builtins_model import StreamVal, snapshot, snapshot_env
from .engine import Engine, PathEnd
from .interp import BoundMethod, ClassVal, Env, FuncVal, Interp, SpecFn, SymRaise, BUILTIN_EXC
from .values import (
    NeedsContract,
    Opaque,
    PDict,
    PExc,
    PList,
    PObj,
    PSet,
    PyvcError,
    SBytes,
    SSeq,
    SV,
    compare,
    sv_and,
    sv_not,
    sv_or,
    tobool,
    tonum,
)


# ------------------------------------------------------------------------------------------------
# types: how to make a symbolic input, and how to read it back from a model


class Type:
    def fresh(self, eng, name, I=None):
        raise NotImplementedError

    def concretize(self, eng, model, val):
        return eng.eval_model(model, val)


class Int(Type):
    def __init__(self, lo=None, hi=None):
        self.lo, self.hi = lo, hi

    def fresh(self, eng, name, I=None):
        v = eng.fresh_int(name)
        if self.lo is not None:
            eng.assume(compare(">=", v, self.lo))
        if self.hi is not None:
            eng.assume(compare("<=", v, self.hi))
        return v


class Real(Type):
    def __init__(self, lo=None, hi=None):
        self.lo, self.hi = lo, hi

    def fresh(self, eng, name, I=None):
        v = eng.fresh_real(name)
        if self.lo is not None:
            eng.assume(compare(">=", v, self.lo))
        if self.hi is not None:
            eng.assume(compare("<=", v, self.hi))
        return v


class Bool(Type):
    def fresh(self, eng, name, I=None):
        return eng.fresh_bool(name)


class Const(Type):
    def __init__(self, value):
        self.value = value

    def fresh(self, eng, name, I=None):
        return self.value(eng) if callable(self.value) else self.value

    def concretize(self, eng, model, val):
        return repr(val) if not isinstance(val, (int, float, str, bool, type(None))) else val


class Opt(Type):
    """None or a value of the inner type (forks)."""

    def __init__(self, inner):
        self.inner = inner

    def fresh(self, eng, name, I=None):
        if eng.choose(2, name + "?none") == 0:
            return None
        return self.inner.fresh(eng, name, I)

    def concretize(self, eng, model, val):
        return None if val is None else self.inner.concretize(eng, model, val)


class OneOf(Type):
    """One of several alternatives (values or types); forks over all of them."""

    def __init__(self, *alts):
        self.alts = alts

    def fresh(self, eng, name, I=None):
        k = eng.choose(len(self.alts), name + "?alt")
        a = self.alts[k]
        self.last = k
        if isinstance(a, Type):
            return a.fresh(eng, name, I)
        return a

    def concretize(self, eng, model, val):
        for a in self.alts:
            if not isinstance(a, Type) and a is val:
                return repr(val) if not isinstance(val, (int, float, str, bool, type(None))) else val
        for a in self.alts:
            if isinstance(a, Type):
                try:
                    return a.concretize(eng, model, val)
                except Exception:
                    continue
        return repr(val)


class TupleOf(Type):
    def __init__(self, *elts):
        self.elts = elts

    def fresh(self, eng, name, I=None):
        return tuple(t.fresh(eng, f"{name}.{i}", I) for i, t in enumerate(self.elts))

    def concretize(self, eng, model, val):
        return [t.concretize(eng, model, v) for t, v in zip(self.elts, val)]


class ListOf(Type):
    """Python list of concrete length n (n may be a tuple of lengths: forks)."""

    def __init__(self, elt, n, as_tuple=False):
        self.elt, self.n, self.as_tuple = elt, n, as_tuple

    def fresh(self, eng, name, I=None):
        n = self.n
        if isinstance(n, (tuple, list, range)):
            n = list(n)[eng.choose(len(n), name + "?len")]
        items = [self.elt.fresh(eng, f"{name}[{i}]", I) for i in range(n)]
        return tuple(items) if self.as_tuple else PList(items)

    def concretize(self, eng, model, val):
        items = val if isinstance(val, tuple) else val.items
        return [self.elt.concretize(eng, model, v) for v in items]


class Bytes(Type):
    """bytes of symbolic length (elements constrained to 0..255)."""

    def __init__(self, maxlen=None):
        self.maxlen = maxlen

    def fresh(self, eng, name, I=None):
        arr = eng.fresh_array(name + ".data")
        ln = eng.fresh_int(name + ".len")
        eng.assume(compare(">=", ln, 0))
        if self.maxlen is not None:
            eng.assume(compare("<=", ln, self.maxlen))
        k = z3.Int("k!byte")
        eng.assume(z3.ForAll([k], z3.And(z3.Select(arr, k) >= 0, z3.Select(arr, k) <= 255)))
        return SBytes(arr, ln, 0)

    def concretize(self, eng, model, val):
        n = eng.eval_model(model, val.length) if isinstance(val.length, SV) else val.length
        n = min(int(n), 4096)
        out = []
        for i in range(n):
            r = model.eval(z3.Select(val.arr, tonum(val.off) + i), model_completion=True)
            out.append(r.as_long() % 256 if z3.is_int_value(r) else 0)
        return out


class Str(Type):
    """A str of symbolic content (modelled by its UTF-8 bytes)."""

    def fresh(self, eng, name, I=None):
        from .builtins_model import SStr

        return SStr(Bytes().fresh(eng, name + ".utf8", I))

    def concretize(self, eng, model, val):
        return Bytes().concretize(eng, model, val.utf8)


class Stream(Type):
    """io.BytesIO with arbitrary contents and position (0 <= pos <= length)."""

    def __init__(self, at_start=False, at_end=False):
        self.at_start, self.at_end = at_start, at_end

    def fresh(self, eng, name, I=None):
        arr = eng.fresh_array(name + ".data")
        ln = eng.fresh_int(name + ".len")
        pos = 0 if self.at_start else eng.fresh_int(name + ".pos")
        eng.assume(compare(">=", ln, 0))
        eng.assume(sv_and(compare(">=", pos, 0), compare("<=", pos, ln)))
        if self.at_end:
            eng.assume(compare("==", pos, ln))
        k = z3.Int("k!byte")
        eng.assume(z3.ForAll([k], z3.And(z3.Select(arr, k) >= 0, z3.Select(arr, k) <= 255)))
        return StreamVal(arr, ln, pos)

    def concretize(self, eng, model, val):
        # NB: `val` has been mutated by the run; the entry state was recorded at creation
        st = getattr(val, "_entry", val)
        n = int(eng.eval_model(model, st.length))
        n = min(n, 4096)
        data = []
        for i in range(n):
            r = model.eval(z3.Select(st.data, i), model_completion=True)
            data.append(r.as_long() % 256 if z3.is_int_value(r) else 0)
        return {"data": data, "pos": int(eng.eval_model(model, st.pos))}


class Obj(Type):
    """Heap object of a repository class (or a tag) with the given symbolic fields."""

    def __init__(self, cls, **fields):
        self.cls, self.fields = cls, fields

    def fresh(self, eng, name, I=None):
        cls = self.cls
        if isinstance(cls, str) and ":" in cls and I is not None:
            mod, nm = cls.split(":")
            cls = ClassVal.get(mod, extract.get_module(mod).top[nm])
        o = PObj(cls, tag=name)
        for k, t in self.fields.items():
            o.fields[k] = t.fresh(eng, f"{name}.{k}", I) if isinstance(t, Type) else t
        return o

    def concretize(self, eng, model, val):
        out = {}
        for k, t in self.fields.items():
            if isinstance(t, Type):
                e = getattr(val, "_entry_fields", val.fields).get(k)
                out[k] = t.concretize(eng, model, e)
        return out


class ObjSeq(Type):
    """Tuple/list of symbolic length whose elements are heap objects of class `cls`; field f of element
    i is the uninterpreted function value F_f(i).  `methods` maps a method name to a python callable
    (I, obj, *args) (a model of the dynamically dispatched method, stated in the contract file)."""

    _n = 0

    def __init__(self, cls, fields, methods=None, kind="tuple", maxlen=None):
        self.cls, self.fields, self.methods, self.kind, self.maxlen = cls, fields, methods or {}, kind, maxlen

    def fresh(self, eng, name, I=None):
        from .interp import BuiltinFn

        cls = self.cls
        if isinstance(cls, str) and ":" in cls:
            mod, nm = cls.split(":")
            cls = ClassVal.get(mod, extract.get_module(mod).top[nm])
        n = eng.fresh_int(name + ".len")
        eng.assume(compare(">=", n, 0))
        if self.maxlen is not None:
            eng.assume(compare("<=", n, self.maxlen))
        base = eng.fresh_name(name)
        funs = {}
        consts = {}
        for f, t in self.fields.items():
            if t not in ("bool", "int", "real"):
                consts[f] = t
                continue
            sort = {"bool": z3.BoolSort(), "int": z3.IntSort(), "real": z3.RealSort()}[t]
            funs[f] = z3.Function(f"{base}.{f}", z3.IntSort(), sort)
        methods = self.methods

        def elem(i):
            zi = tonum(i)
            o = PObj(cls, tag=f"{base}[{zi}]")
            for f, fn in funs.items():
                o.fields[f] = SV(fn(zi), self.fields[f] == "real")
            o.ident = (base, i if isinstance(i, (int, SV)) else SV(zi))
            for f, cv in consts.items():
                o.fields[f] = cv(o) if callable(cv) else cv
            for mname, m in methods.items():
                o.fields[mname] = BuiltinFn(mname, lambda *a, m=m, o=o, **k: m(I, o, *a, **k))
            return o

        seq = SSeq(n, elem, self.kind, base)
        seq.funs = funs
        return seq

    def concretize(self, eng, model, val):
        n = min(int(eng.eval_model(model, val.length)), 64)
        out = []
        for i in range(n):
            out.append({f: eng.eval_model(model, SV(fn(z3.IntVal(i)))) for f, fn in val.funs.items()})
        return out


class Ghost(Type):
    """Arbitrary python factory `fn(eng, name, I) -> value` with optional concretizer."""

    def __init__(self, fn, conc=None):
        self.fn, self.conc = fn, conc

    def fresh(self, eng, name, I=None):
        return self.fn(eng, name, I)

    def concretize(self, eng, model, val):
        if self.conc is not None:
            return self.conc(eng, model, val)
        return repr(val)


# ------------------------------------------------------------------------------------------------


class LoopSpec:
    def __init__(self, invariants=None, decreases=None, modifies=None):
        if invariants is None:
            invariants = {}
        elif isinstance(invariants, (str,)) or callable(invariants):
            invariants = {"inv": invariants}
        self.invariants = invariants
        self.decreases = decreases
        self.modifies = modifies  # dict name -> Type|None, or None = names assigned in the body


class Raises:
    """Exceptional behaviour clause.

    mode 'iff':     raises cls  <=>  when(old state)       (normal return => not when)
    mode 'only_if': raises cls   =>  when(old state)
    mode 'may':     cls may be raised (no condition)"""

    def __init__(self, cls, when=None, mode="iff", name=None, cls_obj=False):
        if cls == "struct.error":
            from .builtins_model import StructError

            cls = StructError
            name = name or "struct.error"
        self.cls, self.when, self.mode = cls, when, mode
        self.name = name or (cls if isinstance(cls, str) else getattr(cls, "__name__", str(cls)))


class Contract:
    def __init__(
        self,
        target,
        params,
        requires=(),
        ensures=None,
        raises=(),
        result=None,
        modifies=(),
        loops=None,
        inline=(),
        inline_all=False,
        env=None,
        assert_mode="raise",
        unroll=0,
        replay=None,
        setup=None,
        post=None,
        note=None,
        properties=(),
        call_model=None,
        closure_env=None,
        ghost=None,
        bounded=False,
        kwargs=None,
        ghost_inst=None,
        call_only=False,
    ):
        self.target = target
        self.short = target.split(":", 1)[1] if ":" in target else target
        mod = target.split(":")[0].split(".")[-1]
        self.short = f"{mod}.{self.short}"
        self.params = list(params.items()) if isinstance(params, dict) else list(params)
        self.requires = list(requires) if not isinstance(requires, str) else [requires]
        self.ensures = dict(ensures or {})
        self.raises = list(raises)
        self.result = result
        self.modifies = list(modifies)
        self.loops = {k: (v if isinstance(v, LoopSpec) else LoopSpec(**v)) for k, v in (loops or {}).items()}
        self.inline = set(inline)
        self.inline_all = inline_all
        self.env = dict(env or {})
        self.assert_mode = assert_mode
        self.unroll = unroll
        self.replay = replay
        self.setup = setup  # callable(I, env) run after inputs are made (extra assumptions / ghost)
        self.post = post  # callable(I, env, outcome) emitting extra obligations programmatically
        self.note = note
        self.properties = tuple(properties)
        self.call_model = call_model
        self.closure_env = closure_env  # callable(I) -> dict of free variables for nested defs
        self.ghost = ghost
        self.bounded = bounded
        self.kwargs = kwargs or {}
        # {callee short name: {ghost parameter of the callee: spec expression over the caller's state}}
        self.ghost_inst = ghost_inst or {}
        self.call_only = call_only  # assumed contract: used at call sites, not verified here

    def usable_at_calls(self):
        """A contract whose postcondition is only programmatic (`post`) cannot be assumed at call sites."""
        return bool(self.ensures or self.call_model is not None or self.call_only or (self.post is None))

    def inlines(self, q):
        if q in self.inline:
            return True
        short = q.split(":", 1)[1]
        return short in self.inline or q.split(".")[-1] in self.inline and False

    def inline_view(self):
        v = Contract.__new__(Contract)
        v.__dict__.update(self.__dict__)
        v.loops = {}
        v._is_inline_view = True
        return v


class Registry:
    def __init__(self):
        self.contracts = {}
        self.models = {}  # qualname -> python callable(I, *args) replacing a callee (trusted stub)
        self.spec_env = {}  # names visible in specification clauses
        self.global_overrides = {}
        self.constructors = {}
        self.attr_hooks = {}
        self.setattr_hooks = {}
        self.lemmas = []
        # one-line getters that are always interpreted in place (their body is the real code)
        self.always_inline = {
            "scenic.core.lazy_eval:needsSampling",
            "scenic.core.lazy_eval:isLazy",
            "scenic.core.lazy_eval:needsLazyEvaluation",
            "scenic.core.lazy_eval:requiredProperties",
            "scenic.core.lazy_eval:dependencies",
            "scenic.core.utils:DefaultIdentityDict.__init__",
            "scenic.core.utils:DefaultIdentityDict.__getitem__",
            "scenic.core.utils:DefaultIdentityDict.__setitem__",
            "scenic.core.utils:DefaultIdentityDict.__contains__",
            "scenic.core.utils:DefaultIdentityDict.clear",
        }
        self.trusted = []  # (name, text) trusted facts / stubs, listed in evidence
        self._clause_cache = {}
        for h in self.HOOKS:
            object.__setattr__(self, h, None)

    HOOKS = tuple(
        (
            "opaque_attr opaque_eq opaque_call getattr_fallback setattr_fallback contains_fallback compare_fallback "
            "binop_fallback getitem_fallback setitem_fallback iterate_fallback len_fallback isinstance_hook yield_hook"
        ).split()
    )

    def __setattr__(self, name, value):
        """Hooks set by several contract modules are chained: the newest is asked first and an older one is
        consulted when it declines (raises PyvcError / a '... not modelled' error, or, for isinstance_hook,
        returns None)."""
        if name in self.HOOKS and callable(value):
            prev = getattr(self, name, None)
            if prev is not None and prev is not value and not getattr(value, "_chained", False):
                new = value

                def chained(*a, _new=new, _prev=prev, _name=name, **k):
                    try:
                        r = _new(*a, **k)
                    except PyvcError:
                        return _prev(*a, **k)
                    except Exception as e:  # a module's own "not modelled" error
                        if "not modelled" in str(e) and type(e) is Exception:
                            return _prev(*a, **k)
                        raise
                    if r is None and _name == "isinstance_hook":
                        return _prev(*a, **k)
                    return r

                chained._chained = True
                value = chained
        object.__setattr__(self, name, value)

    def add(self, contract, key=None):
        """Register a contract.  `key` distinguishes several contracts on the same function (one per
        input class); only the un-keyed contract is used at call sites."""
        k = key or contract.target
        if k in self.contracts:
            raise PyvcError(f"duplicate contract for {k}")
        if key is not None:
            contract.short = contract.short + key[len(contract.target):]
        self.contracts[k] = contract
        return contract

    def spec(self, fn=None, name=None, needs_interp=False):
        def deco(f):
            self.spec_env[name or f.__name__] = SpecFn(f, name or f.__name__, needs_interp)
            return f

        return deco(fn) if fn is not None else deco

    def trust(self, name, text):
        self.trusted.append((name, text))

    def parse_clause(self, src):
        node = self._clause_cache.get(src)
        if node is None:
            try:
                node = ast.parse(src.strip(), mode="eval").body
            except SyntaxError as e:
                raise PyvcError(f"bad specification clause {src!r}: {e}")
            self._clause_cache[src] = node
        return node

    # -------------------------------------------------------------------------------------------
    def make_inputs(self, I, contract):
        eng = I.eng
        env_vars = {}
        I.ghost_current = env_vars
        for name, typ in contract.params:
            v = typ.fresh(eng, name, I) if isinstance(typ, Type) else typ
            env_vars[name] = v
            if isinstance(v, StreamVal):
                v._entry = v.clone()
            if isinstance(v, PObj):
                v._entry_fields = dict(v.fields)
            if isinstance(typ, Type):
                eng.input_syms.append((name, typ, v))
        return env_vars

    def apply_contract(self, I, contract, f, args, kwargs):
        """Use a callee's contract at a call site: assert requires, havoc frame, assume ensures."""
        eng = I.eng
        if contract.call_model is not None:
            return contract.call_model(I, *args, **kwargs)
        caller = I.frames[-1].contract if I.frames else None
        names = [n for n, _ in contract.params]
        env = Env(f.module)
        # bind actuals by the real signature
        bound = I.bind_args(f, args, kwargs)
        for n in names:
            if n in bound.vars:
                env.vars[n] = bound.vars[n]
        inst = {}
        if caller is not None:
            inst = caller.ghost_inst.get(contract.short.split(".", 1)[1], {}) or caller.ghost_inst.get(contract.short, {})
        for n, t in contract.params:
            if n not in env.vars:
                if n in inst:
                    fr = I.frames[-1]
                    genv = Env(f.module, getattr(fr, "env", None), dict(getattr(I, "ghost_inputs", {})))
                    env.vars[n] = I.eval_spec(inst[n], genv)
                else:
                    env.vars[n] = t.fresh(eng, n + "@ghost", I) if isinstance(t, Type) else t
        cname = caller.short if caller else "?"
        for i, req in enumerate(contract.requires):
            val = I.eval_spec(req, env)
            eng.check(f"{cname}#call:{contract.short}.requires[{i}]", val, line=I.lineno, kind="precondition")
            eng.assume(val)
        old = snapshot_env(I, env)
        env.vars["_old"] = old
        # exceptional outcomes
        for r in contract.raises:
            when = True if r.when is None else I.eval_spec(r.when, env)
            t = I.truth(when)
            if t is False:
                continue
            if r.mode in ("iff",):
                if isinstance(t, bool):
                    taken = t
                else:
                    taken = eng.branch(t)
            else:
                # may / only_if: nondeterministic raise under the condition
                if not isinstance(t, bool) and not eng.feasible(t):
                    continue
                taken = eng.choose(2, "raise?") == 1
                if taken:
                    eng.assume(t)
            if taken:
                cls = r.cls
                if isinstance(cls, str):
                    cls = BUILTIN_EXC.get(cls) or I.lookup_name(cls, Env(f.module))
                raise SymRaise(PExc(cls, ("<from contract>",)))
        # normal return: havoc the frame
        for m in contract.modifies:
            self._havoc_path(I, env, m)
        if contract.result is None:
            result = None
        elif isinstance(contract.result, Type):
            result = contract.result.fresh(eng, f"{contract.short}.result", I)
        else:
            result = contract.result(I, env)
        env.vars["result"] = result
        for nm, clause in contract.ensures.items():
            eng.assume(I.eval_spec(clause, env))
        return result

    def _havoc_path(self, I, env, path):
        from .builtins_model import havoc_like

        if callable(path):
            return path(I, env)
        parts = path.split(".")
        obj = env.lookup(parts[0])
        if len(parts) == 1:
            havoc_like(I, obj, parts[0] + "'")
            return
        for p in parts[1:-1]:
            obj = I.get_attr(obj, p)
        cur = I.get_attr(obj, parts[-1])
        I.set_attr(obj, parts[-1], havoc_like(I, cur, path + "'"))


# ------------------------------------------------------------------------------------------------
# verification of one function against its contract


class FunctionReport:
    def __init__(self, contract):
        self.contract = contract
        self.extracted = None
        self.obligations = []  # aggregated by name
        self.instances = []
        self.paths = 0
        self.error = None
        self.solver_seconds = 0.0
        self.covered = {}
        self.axioms = []


def verify(registry, contract, timeout_ms=20000, use_cvc5=True, sample_paths=0, cross_check_cvc5=False):
    """Generate and discharge all obligations of one contract against the current source."""
    rep = FunctionReport(contract)
    rep.path_samples = []
    try:
        ex = extract.extract(contract.target)
    except extract.ExtractionError as e:
        rep.error = f"extraction failed: {e}"
        return rep
    rep.extracted = ex
    eng = Engine(timeout_ms=timeout_ms, use_cvc5=use_cvc5)
    I = Interp(eng, registry)
    owner = None
    if ex.owner_class is not None:
        owner = ClassVal.get(ex.module.name, ex.owner_class)
    reached_normal = [False]
    reached = {}

    def run_path():
        closure = None
        if contract.closure_env is not None:
            ce = contract.closure_env(I)  # a dict of free variables, or a ready-made Env (module state vector, models_dyn)
            closure = ce if isinstance(ce, Env) else Env(ex.module, None, dict(ce))
        f = FuncVal(ex.node, ex.module, closure, contract.target, owner)
        vars_ = registry.make_inputs(I, contract)
        I.ghost_inputs = vars_
        env = Env(ex.module, None, dict(vars_))
        if contract.setup is not None:
            contract.setup(I, env)
        for req in contract.requires:
            eng.assume(I.eval_spec(req, env))
        if not eng.feasible(z3.BoolVal(True)):
            raise PathEnd()
        reached["requires"] = True
        old = snapshot_env(I, env)
        env.vars["_old"] = old
        names = [n for n, _ in contract.params if not n.startswith("_")]
        a = ex.node.args
        sig = [p.arg for p in a.posonlyargs + a.args]
        args = [env.vars[n] for n in sig if n in env.vars]
        kw = {p.arg: env.vars[p.arg] for p in a.kwonlyargs if p.arg in env.vars}
        if a.vararg and a.vararg.arg in env.vars:
            args.extend(I.iterate(env.vars[a.vararg.arg]))
        kw.update({k: env.vars[k] for k in contract.kwargs if k in env.vars})
        outcome = None
        try:
            result = I.run_function(f, args, kw, contract)
            outcome = ("return", result)
        except SymRaise as sr:
            outcome = ("raise", sr.exc)
        check_post(registry, I, contract, env, outcome, reached)
        if sample_paths and len(rep.path_samples) < sample_paths and contract.replay is not None:
            m = eng.path_model()
            if m is not None:
                rep.path_samples.append(eng._concretize_inputs(m))

    eng.cross_check_cvc5 = cross_check_cvc5
    try:
        eng.explore(run_path)
    except (PyvcError, RecursionError) as e:
        rep.error = f"{type(e).__name__}: {e}"
    except SymRaise as e:  # raised outside of a function body (contract setup)
        rep.error = f"exception escaped contract setup: {e}"
    except Exception as e:  # engine bug: checker failure, never a violation
        rep.error = "engine error: " + "".join(traceback.format_exception_only(type(e), e)).strip() + " | " + traceback.format_exc().splitlines()[-3].strip()
    rep.paths = eng.paths_done
    rep.instances = eng.obligations
    rep.solver_seconds = eng.solver_seconds
    rep.covered = reached
    rep.axioms = [n for n, _ in eng.axioms]
    return rep


def check_post(registry, I, contract, env, outcome, reached):
    eng = I.eng
    cname = contract.short
    kind, val = outcome
    if kind == "return":
        reached["normal"] = True
        env.vars["result"] = val
        for nm, clause in contract.ensures.items():
            g = I.eval_spec(clause, env)
            eng.check(f"{cname}#ensures.{nm}", g, kind="ensures")
        for r in contract.raises:
            if r.mode == "iff" and r.when is not None:
                w = I.eval_spec(_as_old(registry, r.when), env)
                eng.check(f"{cname}#raises.{r.name}.must", sv_not(I.truth(w)) if not isinstance(I.truth(w), bool) else (not I.truth(w)), kind="raises")
    else:
        exc = val
        matched = False
        for r in contract.raises:
            cls = r.cls
            if isinstance(cls, str):
                cls = BUILTIN_EXC.get(cls) or I.lookup_name(cls, Env(env.module))
            if I.exc_matches(exc, cls):
                matched = True
                reached["raise:" + r.name] = True
                if r.when is not None and r.mode in ("iff", "only_if"):
                    w = I.eval_spec(_as_old(registry, r.when), env)
                    eng.check(f"{cname}#raises.{r.name}.only", w, kind="raises")
                else:
                    eng.check(f"{cname}#raises.{r.name}.allowed", True, kind="raises")
                break
        if not matched:
            ename = getattr(exc.cls, "__name__", getattr(exc.cls, "name", str(exc.cls)))
            eng.check(f"{cname}#no-unexpected-exception", False, kind="raises", detail=f"{ename}{exc.args!r} at line {I.lineno}")
    if contract.post is not None:
        contract.post(I, env, outcome)


def _as_old(registry, clause):
    """`when` conditions are evaluated in the entry state."""
    if isinstance(clause, str):
        return "old(" + clause + ")"
    return clause
