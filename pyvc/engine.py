"""Path exploration, obligations and solver back ends of pyvc.

Paths are explored by re-execution with a decision prefix (depth-first over the tree of symbolic
branch decisions).  Every `assert`-like event becomes a named obligation instance that is discharged
under the path condition; `unsat` of (pc and not goal) is the only way an instance counts as proved."""
import subprocess
import tempfile
import time
import os

import z3

from .values import PyvcError, SV, tobool


class PathEnd(Exception):
    """The current path ends here (cut point reached / assumption contradictory)."""


class Obligation:
    __slots__ = ("name", "verdict", "seconds", "backend", "model", "path", "detail", "smt2", "line", "kind")

    def __init__(self, name, verdict, seconds, backend, model=None, path=None, detail=None, smt2=None, line=None, kind="post"):
        self.name = name
        self.verdict = verdict  # proved | refuted | unknown
        self.seconds = seconds
        self.backend = backend
        self.model = model
        self.path = path
        self.detail = detail
        self.smt2 = smt2
        self.line = line
        self.kind = kind


class Engine:
    def __init__(self, timeout_ms=20000, use_cvc5=True, max_paths=4000, feas_timeout_ms=3000):
        self.timeout_ms = timeout_ms
        self.feas_timeout_ms = feas_timeout_ms
        self.use_cvc5 = use_cvc5
        self.max_paths = max_paths
        self.axioms = []  # global (function-independent) axioms, each (name, formula)
        self.obligations = []
        self.solver_seconds = 0.0
        self.assumption_log = []  # names of axioms / trusted facts used
        self.reset_path([])
        self.worklist = []
        self.paths_done = 0
        self.cover = {}  # name -> reached?
        self.input_syms = []  # (name, type, value) registered by contract parameter creation

    # ------------------------------------------------------------------ path state
    def reset_path(self, prefix):
        self.prefix = list(prefix)
        self.dpos = 0
        self.pc = []
        self.counters = {}
        self.rng_trace = []
        self.events = []
        self.input_syms = []
        self.path_notes = []

    def fresh_name(self, base):
        n = self.counters.get(base, 0)
        self.counters[base] = n + 1
        return base if n == 0 else f"{base}!{n}"

    def fresh_int(self, base):
        return SV(z3.Int(self.fresh_name(base)))

    def fresh_real(self, base):
        return SV(z3.Real(self.fresh_name(base)), True)

    def fresh_bool(self, base):
        return SV(z3.Bool(self.fresh_name(base)))

    def fresh_array(self, base):
        return z3.Array(self.fresh_name(base), z3.IntSort(), z3.IntSort())

    def add_axiom(self, name, formula):
        for n, _ in self.axioms:
            if n == name:
                return
        self.axioms.append((name, formula))

    # ------------------------------------------------------------------ solving
    def _solver(self, timeout_ms):
        s = z3.Solver()
        s.set("timeout", int(timeout_ms))
        for _, ax in self.axioms:
            s.add(ax)
        return s

    def feasible(self, extra):
        """Is pc + extra satisfiable?  `unknown` counts as feasible (explores more, never less).
        Quantified hypotheses are dropped here (over-approximation of feasibility: sound, and it keeps
        the satisfiable side of the query decidable)."""
        s = z3.Solver()
        s.set("timeout", int(self.feas_timeout_ms))
        for _, ax in self.axioms:
            if not has_quantifier(ax):
                s.add(ax)
        for c in self.pc:
            if not has_quantifier(c):
                s.add(c)
        s.add(extra)
        t = time.time()
        r = s.check()
        self.solver_seconds += time.time() - t
        return r != z3.unsat

    def path_model(self):
        """A model of the current path condition (quantified hypotheses grounded), or None."""
        s = z3.Solver()
        s.set("timeout", 1000)
        for f in [ax for _, ax in self.axioms] + list(self.pc):
            for inst in ground(f, 6):
                s.add(inst)
        t0 = time.time()
        if s.check() != z3.sat:
            return None
        best = s.model()
        if time.time() - t0 > 0.3:
            return best
        ints = int_consts(s.assertions())
        for bound in (3, 300):
            s.push()
            for c in ints:
                s.add(c >= -bound, c <= bound)
            if s.check() == z3.sat:
                best = s.model()
                s.pop()
                break
            s.pop()
        return best

    def assume(self, cond):
        if isinstance(cond, bool):
            if not cond:
                raise PathEnd()
            return
        c = tobool(cond)
        if z3.is_true(c):
            return
        if z3.is_false(c):
            raise PathEnd()
        self.pc.append(c)

    def assume_feasible(self, cond):
        """assume + prune the path immediately if it became infeasible."""
        self.assume(cond)
        if not self.feasible(z3.BoolVal(True)):
            raise PathEnd()

    def branch(self, cond):
        """Decide a (possibly symbolic) condition on this path; forks by re-execution."""
        if isinstance(cond, bool):
            return cond
        c = tobool(cond)
        c = z3.simplify(c)
        if z3.is_true(c):
            return True
        if z3.is_false(c):
            return False
        i = self.dpos
        self.dpos += 1
        if i < len(self.prefix):
            choice = self.prefix[i]
        else:
            t = self.feasible(c)
            f = self.feasible(z3.Not(c))
            if t and f:
                choice = True
                self.worklist.append(self.prefix + [False])
            elif t:
                choice = True
            elif f:
                choice = False
            else:
                raise PathEnd()
            self.prefix.append(choice)
        self.pc.append(c if choice else z3.Not(c))
        return choice

    def choose(self, n, label="choice"):
        """Non-deterministic choice among n alternatives (universally quantified: all explored)."""
        if n <= 0:
            raise PathEnd()
        if n == 1:
            return 0
        i = self.dpos
        self.dpos += 1
        if i < len(self.prefix):
            return self.prefix[i]
        for k in range(n - 1, 0, -1):
            self.worklist.append(self.prefix + [k])
        self.prefix.append(0)
        return 0

    def check(self, name, goal, line=None, kind="post", detail=None):
        """Record and discharge one obligation instance under the current path condition."""
        if isinstance(goal, bool):
            g = z3.BoolVal(goal)
        else:
            g = tobool(goal)
        t0 = time.time()
        self._current_name = name
        verdict, backend, model, smt2 = self._discharge(g)
        dt = time.time() - t0
        self.solver_seconds += dt
        ob = Obligation(name, verdict, dt, backend, model, list(self.prefix[: self.dpos]), detail, smt2, line, kind)
        if verdict != "proved":
            ob.model = self._concretize_inputs(model) if model is not None else None
        self.obligations.append(ob)
        return verdict == "proved"

    def _discharge(self, g):
        if z3.is_true(z3.simplify(g)):
            return "proved", "simplifier", None, None
        # goal False = "this point is unreachable": either instantly unsat or genuinely reachable
        budget = min(self.timeout_ms, 3000) if z3.is_false(z3.simplify(g)) else self.timeout_ms
        s = self._solver(budget)
        s.add(*self.pc)
        s.add(z3.Not(g))
        slow = getattr(self, "_slow_names", None)
        if slow is None:
            slow = self._slow_names = set()
        name = getattr(self, "_current_name", None)
        if name in slow and self.use_cvc5:
            # z3 already needed more than its budget on an instance of this obligation: ask cvc5 first
            if run_cvc5(s.to_smt2(), self.timeout_ms) == "unsat":
                return "proved", "cvc5", None, None
        r = s.check()
        if r == z3.unknown and name is not None:
            slow.add(name)
        if r == z3.unsat:
            if getattr(self, "cross_check_cvc5", False) and self.use_cvc5:
                res = run_cvc5(s.to_smt2(), self.timeout_ms)
                if res == "sat":
                    raise PyvcError("back ends disagree: z3 says unsat, cvc5 says sat")
                return "proved", "z3+cvc5" if res == "unsat" else "z3(cvc5:" + str(res)[:12] + ")", None, None
            return "proved", "z3", None, None
        if r == z3.sat:
            return "refuted", "z3", s.model(), None
        # unknown: cvc5 on the SMT-LIB dump first (cheap when it knows the answer) ...
        smt2 = None
        if r == z3.unknown and self.use_cvc5:
            smt2 = s.to_smt2()
            res = run_cvc5(smt2, self.timeout_ms)
            if res == "unsat":
                return "proved", "cvc5", None, None
        # ... then one z3 retry with 5x the budget (verdicts must not flip under load)
        if r == z3.unknown and budget == self.timeout_ms:
            s.set("timeout", int(self.timeout_ms * 5))
            r = s.check()
            if r == z3.unsat:
                return "proved", "z3(retry)", None, None
            if r == z3.sat:
                return "refuted", "z3(retry)", s.model(), None
            if r == z3.unknown and self.use_cvc5 and smt2 is not None:
                # ... and the same for cvc5 (a loaded machine must not turn a proof into `undecided`)
                if run_cvc5(smt2, self.timeout_ms * 5) == "unsat":
                    return "proved", "cvc5(retry)", None, None
        # refutation pass: quantified hypotheses replaced by finitely many instances; the model is
        # only a *candidate* (the replay on the real code is the judge)
        m = self._refute(g)
        if m is not None:
            return "candidate", "z3-ground", m, smt2
        return "unknown", "z3" + ("+cvc5" if self.use_cvc5 else ""), None, smt2

    def _refute(self, g, width=12):
        s = z3.Solver()
        s.set("timeout", int(min(self.timeout_ms, 10000)))
        for f in [ax for _, ax in self.axioms] + list(self.pc) + [z3.Not(g)]:
            for inst in ground(f, width):
                s.add(inst)
        if s.check() != z3.sat:
            return None
        best = s.model()
        # model minimisation: prefer small integers (lengths, positions, values) for readable replays
        ints = int_consts(s.assertions())
        for bound in (2, 8, 300, 70000):
            s.push()
            for c in ints:
                s.add(c >= -bound, c <= bound)
            r = s.check()
            if r == z3.sat:
                best = s.model()
                s.pop()
                break
            s.pop()
        return best

    def _concretize_inputs(self, model):
        out = {}
        for name, typ, val in self.input_syms:
            try:
                out[name] = typ.concretize(self, model, val)
            except Exception as e:  # pragma: no cover - reporting only
                out[name] = f"<unconcretizable: {e}>"
        return out

    def eval_model(self, model, v):
        """Evaluate a scalar under a model -> python value."""
        from .values import toz3
        import fractions

        if not isinstance(v, SV):
            return v
        r = model.eval(v.e, model_completion=True)
        if z3.is_int_value(r):
            return r.as_long()
        if z3.is_rational_value(r):
            f = fractions.Fraction(r.numerator_as_long(), r.denominator_as_long())
            return float(f) if v.isfloat else (int(f) if f.denominator == 1 else float(f))
        if z3.is_true(r):
            return True
        if z3.is_false(r):
            return False
        if z3.is_algebraic_value(r):
            return float(r.approx(20).as_decimal(17).rstrip("?"))
        return str(r)

    # ------------------------------------------------------------------ exploration driver
    def explore(self, run_path):
        """Run `run_path()` once per feasible decision sequence."""
        self.worklist = [[]]
        self.paths_done = 0
        while self.worklist:
            prefix = self.worklist.pop()
            self.reset_path(prefix)
            try:
                run_path()
            except PathEnd:
                pass
            self.paths_done += 1
            if self.paths_done > self.max_paths:
                raise PyvcError(f"more than {self.max_paths} paths: split the function or add contracts")


_qcache = {}


def has_quantifier(e):
    k = e.get_id()
    r = _qcache.get(k)
    if r is None:
        r = False
        seen = set()
        stack = [e]
        while stack:
            x = stack.pop()
            i = x.get_id()
            if i in seen:
                continue
            seen.add(i)
            if z3.is_quantifier(x):
                r = True
                break
            stack.extend(x.children())
        _qcache[k] = r
    return r


def int_consts(formulas):
    out = {}
    seen = set()
    stack = list(formulas)
    while stack:
        x = stack.pop()
        i = x.get_id()
        if i in seen:
            continue
        seen.add(i)
        if z3.is_const(x) and x.decl().kind() == z3.Z3_OP_UNINTERPRETED and z3.is_int(x):
            out[i] = x
        if z3.is_quantifier(x):
            stack.append(x.body())
        else:
            stack.extend(x.children())
    return list(out.values())


def ground(f, width):
    """Quantifier-free approximation of a hypothesis: a top-level ForAll over Int variables is
    replaced by its instances over 0..width-1 (1 variable) or a small grid (2+ variables);
    anything else quantified is dropped."""
    if not has_quantifier(f):
        return [f]
    if z3.is_and(f):
        out = []
        for c in f.children():
            out.extend(ground(c, width))
        return out
    if z3.is_quantifier(f) and f.is_forall():
        n = f.num_vars()
        if all(f.var_sort(i) == z3.IntSort() for i in range(n)) and n <= 3:
            body = f.body()
            rng = range(-1, width) if n == 1 else range(0, 4) if n == 2 else range(0, 3)
            import itertools

            out = []
            for vals in itertools.product(rng, repeat=n):
                inst = z3.substitute_vars(body, *[z3.IntVal(v) for v in reversed(vals)])
                if not has_quantifier(inst):
                    out.append(inst)
            return out
    return []


def run_cvc5(smt2, timeout_ms):
    exe = "/usr/bin/cvc5"
    if not os.path.exists(exe):
        return "unknown"
    with tempfile.NamedTemporaryFile("w", suffix=".smt2", delete=False) as f:
        f.write("(set-logic ALL)\n" + smt2 + "\n")
        path = f.name
    try:
        p = subprocess.run(
            [exe, "--tlimit", str(int(timeout_ms)), path],
            capture_output=True,
            text=True,
            timeout=timeout_ms / 1000 + 5,
        )
        out = p.stdout.strip().splitlines()
        return out[0].strip() if out else "unknown"
    except Exception:
        return "unknown"
    finally:
        os.unlink(path)
