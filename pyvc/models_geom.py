"""Library model for the geometric substrate of Scenic (DESIGN.md 2.3 / 2.4, assumptions A2 and "trusted algebra" of C07):

* scipy ``Rotation``: an ABSTRACT group element.  Values are terms of the uninterpreted sort ``Rot`` with
  uninterpreted ``apply`` (three real-valued component functions), ``inv``, ``mul``, ``from_euler('ZXY')`` and
  ``as_euler('ZXY')``; only the group / action / isometry laws listed in ``AXIOMS`` are known.
* trigonometry: ``sin cos atan2 asin acos`` are uninterpreted; only the identities listed in ``AXIOMS`` are known.
* numpy: small dense arrays of concrete shape with symbolic elements (``NdArr``), the handful of functions the
  carriers of C07 / C17 use (``array linalg.norm arctan2 arcsin mod array_equal dot``).

Every axiom has a NAME and enters a solver query only through ``Engine.add_axiom(name, formula)`` (so it is listed
in the evidence of each check) -- see ``use(eng, *groups)``.  Axioms whose natural trigger is a non-linear term are
additionally instantiated explicitly with ``instance(eng, name, *terms)`` (an instance of a listed axiom)."""
import fractions
import math

import z3

from . import builtins_model as bm
from .builtins_model import NativeModule
from .values import Infinity, PList, PObj, PyvcError, SV, arith, compare, is_scalar, sv_and, sv_ite, tobool, toz3

RS = z3.RealSort()
ROT = z3.DeclareSort("Rot")


def _rat(x):
    return z3.RealVal(str(fractions.Fraction(repr(x))))


PI = _rat(math.pi)
TAU = _rat(math.tau)
HALF_PI = PI / 2

AP = [z3.Function(f"rot.apply.{c}", ROT, RS, RS, RS, RS) for c in "xyz"]
INV = z3.Function("rot.inv", ROT, ROT)
MUL = z3.Function("rot.mul", ROT, ROT, ROT)
IDENT = z3.Const("rot.identity", ROT)
EULER = z3.Function("rot.from_euler_ZXY", RS, RS, RS, ROT)
EUL = [z3.Function(f"rot.as_euler_ZXY.{n}", ROT, RS) for n in ("yaw", "pitch", "roll")]
QUAT = [z3.Function(f"rot.as_quat.{n}", ROT, RS) for n in "xyzw"]
SIN = z3.Function("sin", RS, RS)
COS = z3.Function("cos", RS, RS)
ATAN2 = z3.Function("atan2", RS, RS, RS)
ASIN = z3.Function("asin", RS, RS)
ACOS = z3.Function("acos", RS, RS)
HYP = z3.Function("hypot3", RS, RS, RS, RS)  # hypot(x, y) = hypot3(x, y, 0)
QUOT = z3.Function("quotient", RS, RS, RS)  # x / c for a symbolic divisor c (kept uninterpreted: queries stay linear)
FLOOR_QUOT = z3.Function("floor_quotient", RS, RS, z3.IntSort())  # floor(a / m) in numpy.mod
# integer witnesses of "equal modulo whole turns" in the angle axioms (Skolem functions)
W_ROTATED = z3.Function("turns.rotated", RS, RS, RS, z3.IntSort())
W_YAW_ROTATED = z3.Function("turns.yaw_rotated", RS, RS, RS, RS, z3.IntSort())


def rz(v):
    if isinstance(v, z3.ExprRef):
        return z3.ToReal(v) if z3.is_int(v) else v
    return toz3(v, want_real=True)


def sv(e):
    return SV(z3.simplify(e), True)


def apply_term(r, v):
    """components of r.apply(v) as z3 terms"""
    x, y, z = (rz(c) for c in v)
    return tuple(f(r, x, y, z) for f in AP)


# ------------------------------------------------------------------------------------------------
# axioms


def _axioms():
    r, s = z3.Const("r!g", ROT), z3.Const("s!g", ROT)
    x, y, z, a, b, c, h = z3.Reals("x!g y!g z!g a!g b!g c!g h!g")
    v = (x, y, z)
    A = lambda rot, vec: tuple(f(rot, *vec) for f in AP)
    eq3 = lambda p, q: z3.And(*[p[i] == q[i] for i in range(3)])
    counter = [0]

    def fa(vs, body, pats=None):
        if pats:
            return z3.ForAll(vs, body, patterns=pats)
        # lemma-style axiom (its natural trigger would be a non-linear term): never instantiated by E-matching --
        # the trigger is a marker symbol that occurs nowhere else; contracts instantiate it explicitly with `instance`
        counter[0] += 1
        mark = z3.Function(f"only_explicit_instances!{counter[0]}", *[v.sort() for v in vs], z3.BoolSort())
        return z3.ForAll(vs, body, patterns=[mark(*vs)])
    ax = {}
    # ---- scipy Rotation as a group acting on R^3 (trusted algebra, DESIGN.md C07)
    g = ax.setdefault("rot", [])
    g.append(("L-rot.inverse_undoes_apply", fa([r, x, y, z], eq3(A(INV(r), A(r, v)), v), [z3.MultiPattern(INV(r), AP[0](r, x, y, z))])))
    # explicit instances only: triggered on every inverse-apply term it would ping-pong with the previous axiom (matching loop)
    g.append(("L-rot.apply_undoes_inverse", fa([r, x, y, z], eq3(A(r, A(INV(r), v)), v))))
    g.append(("L-rot.identity_action", fa([x, y, z], eq3(A(IDENT, v), v), [AP[0](IDENT, x, y, z)])))
    g.append(("L-rot.product_action", fa([r, s, x, y, z], eq3(A(MUL(r, s), v), A(r, A(s, v))), [AP[0](MUL(r, s), x, y, z), AP[1](MUL(r, s), x, y, z), AP[2](MUL(r, s), x, y, z)])))
    g = ax.setdefault("rot.group", [])
    g.append(("L-rot.group_identity", fa([r], z3.And(MUL(IDENT, r) == r, MUL(r, IDENT) == r), [MUL(IDENT, r), MUL(r, IDENT)])))
    g.append(("L-rot.group_inverse", fa([r], z3.And(MUL(r, INV(r)) == IDENT, MUL(INV(r), r) == IDENT), [MUL(r, INV(r)), MUL(INV(r), r)])))
    g.append(("L-rot.inverse_is_an_involution", fa([r], INV(INV(r)) == r, [INV(INV(r))])))
    g.append(("L-rot.only_the_identity_inverts_to_the_identity", fa([r], (INV(r) == IDENT) == (r == IDENT), [INV(r)])))
    g.append(("L-rot.group_cancel", fa([r, s], z3.And(MUL(r, MUL(INV(r), s)) == s, MUL(INV(r), MUL(r, s)) == s), [MUL(r, MUL(INV(r), s)), MUL(INV(r), MUL(r, s)), z3.MultiPattern(INV(r), MUL(r, s))])))
    g.append(("L-rot.inverse_of_identity", INV(IDENT) == IDENT))
    g = ax["rot"]
    g.append(("L-rot.zero_vector_fixed", fa([r], eq3(A(r, (0, 0, 0)), (0, 0, 0)), [AP[0](r, 0, 0, 0), AP[1](r, 0, 0, 0), AP[2](r, 0, 0, 0)])))
    # Euler angles (intrinsic Z-X-Y = yaw, pitch, roll)
    g = ax.setdefault("rot.euler", [])
    g.append(("L-rot.euler_roundtrip", fa([r], EULER(EUL[0](r), EUL[1](r), EUL[2](r)) == r, [EUL[0](r), EUL[1](r), EUL[2](r)])))
    g.append(("L-rot.euler_zero_is_identity", EULER(0, 0, 0) == IDENT))
    g = ax.setdefault("rot.planar", [])
    g.append(
        (
            "L-rot.yaw_is_planar_ccw_rotation_about_z",
            fa([a, x, y, z], eq3(A(EULER(a, 0, 0), v), (COS(a) * x - SIN(a) * y, SIN(a) * x + COS(a) * y, z)), [AP[0](EULER(a, 0, 0), x, y, z), AP[1](EULER(a, 0, 0), x, y, z), AP[2](EULER(a, 0, 0), x, y, z)]),
        )
    )
    g.append(("A2.sin_cos_unit", fa([a], SIN(a) * SIN(a) + COS(a) * COS(a) == 1, [SIN(a), COS(a)])))
    g.append(("A2.sin_cos_at_zero", z3.And(SIN(0) == 0, COS(0) == 1)))
    # ---- yaw-only rotations form a one-parameter subgroup
    g = ax.setdefault("rot.yaw", [])
    g.append(("L-rot.yaw_compose", fa([a, b], MUL(EULER(a, 0, 0), EULER(b, 0, 0)) == EULER(a + b, 0, 0), [MUL(EULER(a, 0, 0), EULER(b, 0, 0))])))
    g.append(("L-rot.yaw_inverse", fa([a], INV(EULER(a, 0, 0)) == EULER(-a, 0, 0), [INV(EULER(a, 0, 0))])))
    g.append(("L-rot.yaw_periodic", fa([a], z3.And(EULER(a + TAU, 0, 0) == EULER(a, 0, 0), EULER(a - TAU, 0, 0) == EULER(a, 0, 0)))))  # explicit instances only (its own trigger would loop)
    g.append(
        (
            "L-rot.euler_angles_of_yaw",
            fa([a], z3.Implies(z3.And(-PI < a, a <= PI), z3.And(EUL[0](EULER(a, 0, 0)) == a, EUL[1](EULER(a, 0, 0)) == 0, EUL[2](EULER(a, 0, 0)) == 0)), [EULER(a, 0, 0)]),
        )
    )
    # ---- isometry / linearity (only on demand: they make the queries non-linear)
    g = ax.setdefault("rot.isometry", [])
    ap = A(r, v)
    g.append(("L-rot.isometry", fa([r, x, y, z], ap[0] * ap[0] + ap[1] * ap[1] + ap[2] * ap[2] == x * x + y * y + z * z, [AP[0](r, x, y, z), AP[1](r, x, y, z), AP[2](r, x, y, z)])))
    g = ax.setdefault("rot.linear", [])
    g.append(("L-rot.homogeneous", fa([r, c, x, y, z], eq3(A(r, (c * x, c * y, c * z)), tuple(c * t for t in A(r, v))))))
    g.append(("L-rot.homogeneous_division", fa([r, c, x, y, z], z3.Implies(c != 0, eq3(A(r, (QUOT(x, c), QUOT(y, c), QUOT(z, c))), tuple(QUOT(t, c) for t in A(r, v)))), [AP[0](r, QUOT(x, c), QUOT(y, c), QUOT(z, c))])))
    g.append(("L-rot.additive", fa([r, x, y, z, a, b, c], eq3(A(r, (x + a, y + b, z + c)), tuple(p + q for p, q in zip(A(r, v), A(r, (a, b, c))))))))
    # ---- trigonometry (A2)
    g = ax.setdefault("trig", [])
    g.append(("A2.sin_cos_unit", fa([a], SIN(a) * SIN(a) + COS(a) * COS(a) == 1, [SIN(a), COS(a)])))
    g.append(("A2.sin_cos_at_zero", z3.And(SIN(0) == 0, COS(0) == 1)))
    g.append(("A2.sin_cos_at_quarter_turns", z3.And(SIN(HALF_PI) == 1, COS(HALF_PI) == 0, SIN(-HALF_PI) == -1, COS(-HALF_PI) == 0, SIN(PI) == 0, COS(PI) == -1, SIN(-PI) == 0, COS(-PI) == -1)))
    g.append(("A2.sin_odd_cos_even", fa([a], z3.And(SIN(-a) == -SIN(a), COS(-a) == COS(a)), [SIN(-a), COS(-a)])))
    g = ax.setdefault("atan2", [])
    t = ATAN2(y, x)
    g.append(("A2.atan2_range", fa([y, x], z3.And(-PI < t, t <= PI), [t])))
    g.append(
        (
            "A2.atan2_axis_values",
            fa([y, x], z3.And(z3.Implies(z3.And(y == 0, x > 0), t == 0), z3.Implies(z3.And(y > 0, x == 0), t == HALF_PI), z3.Implies(z3.And(y == 0, x < 0), t == PI), z3.Implies(z3.And(y < 0, x == 0), t == -HALF_PI), z3.Implies(z3.And(y == 0, x == 0), t == 0)), [t]),
        )
    )
    g.append(
        (
            "A2.atan2_quadrants",
            fa(
                [y, x],
                z3.And(
                    z3.Implies(y > 0, z3.And(0 < t, t < PI)),
                    z3.Implies(y < 0, z3.And(-PI < t, t < 0)),
                    z3.Implies(x > 0, z3.And(-HALF_PI < t, t < HALF_PI)),
                    z3.Implies(z3.And(x < 0, y >= 0), t > HALF_PI),
                    z3.Implies(z3.And(x < 0, y < 0), t < -HALF_PI),
                ),
                [t],
            ),
        )
    )
    g.append(("A2.atan2_odd_in_y", fa([y, x], z3.Implies(z3.Or(y != 0, x > 0), ATAN2(-y, x) == -ATAN2(y, x)), [ATAN2(-y, x)])))
    g = ax.setdefault("atan2.scale", [])
    g.append(("A2.atan2_positively_homogeneous", fa([c, y, x], z3.Implies(c > 0, ATAN2(c * y, c * x) == ATAN2(y, x)))))
    g.append(("A2.atan2_positively_homogeneous_division", fa([c, y, x], z3.Implies(c > 0, ATAN2(QUOT(y, c), QUOT(x, c)) == ATAN2(y, x)), [ATAN2(QUOT(y, c), QUOT(x, c))])))
    ax.setdefault("quotient", []).append(("A1.quotient_times_divisor", fa([x, c], z3.Implies(c != 0, QUOT(x, c) * c == x), [QUOT(x, c)])))
    g = ax.setdefault("atan2.polar", [])
    g.append(("A2.atan2_polar_form", fa([y, x], z3.And(HYP(x, y, 0) * COS(ATAN2(y, x)) == x, HYP(x, y, 0) * SIN(ATAN2(y, x)) == y))))
    g = ax.setdefault("trig.shift", [])
    g.append(("A2.sin_cos_quarter_shift", fa([a], z3.And(SIN(a - HALF_PI) == -COS(a), COS(a - HALF_PI) == SIN(a)))))
    g.append(("A2.sin_cos_half_shift", fa([a], z3.And(SIN(a + PI) == -SIN(a), COS(a + PI) == -COS(a), SIN(a - PI) == -SIN(a), COS(a - PI) == -COS(a)))))
    g.append(("A2.sin_cos_periodic", fa([a, c], z3.Implies(c == z3.ToReal(z3.ToInt(c)), z3.And(SIN(a + TAU * c) == SIN(a), COS(a + TAU * c) == COS(a))))))
    g.append(("A2.angle_sum", fa([a, b], z3.And(SIN(a + b) == SIN(a) * COS(b) + COS(a) * SIN(b), COS(a + b) == COS(a) * COS(b) - SIN(a) * SIN(b)))))
    g = ax.setdefault("atan2.rotate", [])
    # "equal modulo whole turns" is stated with an integer-valued witness function (ToInt-based statements make LIRA diverge, DESIGN 2.4)
    W1 = W_ROTATED
    g.append(
        (
            "A2.atan2_of_rotated_vector",
            fa([a, x, y], z3.Implies(z3.Or(x != 0, y != 0), ATAN2(SIN(a) * x + COS(a) * y, COS(a) * x - SIN(a) * y) - ATAN2(y, x) - a == TAU * z3.ToReal(W1(a, x, y)))),
        )
    )
    g.append(
        (
            "A2.planar_rotation_fixes_only_the_zero_vector",
            fa([a, x, y], z3.And(COS(a) * x - SIN(a) * y == 0, SIN(a) * x + COS(a) * y == 0) == z3.And(x == 0, y == 0)),
        )
    )
    g = ax.setdefault("atan2.yaw", [])
    ya, xa = AP[1](EULER(a, 0, 0), x, y, z), AP[0](EULER(a, 0, 0), x, y, z)
    W2 = W_YAW_ROTATED
    g.append(
        (
            "A2.yaw_rotation_adds_to_the_azimuth",
            fa([a, x, y, z], z3.And(z3.Implies(z3.Or(x != 0, y != 0), ATAN2(ya, xa) - ATAN2(y, x) - a == TAU * z3.ToReal(W2(a, x, y, z))), z3.Or(xa != 0, ya != 0) == z3.Or(x != 0, y != 0)), [ATAN2(ya, xa)]),
        )
    )
    g = ax.setdefault("rot.euler_action", [])
    y1, z1 = COS(b) * y - SIN(b) * z, SIN(b) * y + COS(b) * z
    g.append(
        (
            "L-rot.yaw_pitch_is_rz_times_rx",
            fa([a, b, x, y, z], eq3(A(EULER(a, b, 0), v), (COS(a) * x - SIN(a) * y1, SIN(a) * x + COS(a) * y1, z1)), [AP[0](EULER(a, b, 0), x, y, z), AP[1](EULER(a, b, 0), x, y, z), AP[2](EULER(a, b, 0), x, y, z)]),
        )
    )
    g = ax.setdefault("hypot", [])
    g.append(("A1.hypot_is_nonnegative", fa([x, y, z], HYP(x, y, z) >= 0, [HYP(x, y, z)])))
    ax.setdefault("hypot.square", []).append(("A1.hypot_squared_is_the_sum_of_squares", fa([x, y, z], HYP(x, y, z) * HYP(x, y, z) == x * x + y * y + z * z, [HYP(x, y, z)])))
    g.append(("A1.hypot_is_zero_only_for_the_zero_vector", fa([x, y, z], (HYP(x, y, z) == 0) == z3.And(x == 0, y == 0, z == 0), [HYP(x, y, z)])))
    g = ax.setdefault("asin", [])
    g.append(("A2.asin_of_unit_vector_height", fa([z, h], z3.Implies(z3.And(h >= 0, h * h + z * z == 1), ASIN(z) == ATAN2(z, h)))))
    g.append(("A2.asin_range", fa([z], z3.And(-HALF_PI <= ASIN(z), ASIN(z) <= HALF_PI), [ASIN(z)])))
    g.append(("A2.asin_of_normalised_height_is_the_elevation", fa([x, y, z], z3.Implies(HYP(x, y, z) > 0, ASIN(QUOT(z, HYP(x, y, z))) == ATAN2(z, HYP(x, y, 0))), [ASIN(QUOT(z, HYP(x, y, z)))])))
    return ax


_AX = None
_VARS = {}


def axioms():
    global _AX
    if _AX is None:
        _AX = _axioms()
    return _AX


def use(eng, *groups):
    """Add the named axioms of the given groups to every query of this engine."""
    for grp in groups:
        for name, f in axioms()[grp]:
            eng.add_axiom(name, f)


def instance(eng, name, *terms):
    """Assume one instance of a listed (universally quantified) axiom: `terms` instantiate its bound
    variables in order.  The axiom itself is registered (so it is listed in evidence)."""
    for grp, lst in axioms().items():
        for n, f in lst:
            if n == name:
                eng.add_axiom(n, f)
                assert z3.is_quantifier(f) and f.num_vars() == len(terms), (name, f.num_vars(), len(terms))
                body = f.body()
                inst = z3.substitute_vars(body, *[t if isinstance(t, z3.ExprRef) and t.sort() == ROT else (rz(t) if not isinstance(t, z3.ExprRef) else t) for t in reversed(terms)])
                inst = z3.simplify(inst)  # canonical argument terms: syntactically equal to the ones the interpreter builds
                eng.assume(inst)
                return inst
    raise PyvcError(f"unknown axiom {name}")


# ------------------------------------------------------------------------------------------------
# numpy arrays (concrete shape, symbolic elements)


class NdArr:
    """numpy.ndarray of concrete shape: `items` are scalars (1-D) or NdArr rows (2-D)."""

    def __init__(self, items):
        self.items = list(items)

    @property
    def ndim(self):
        return 2 if self.items and isinstance(self.items[0], NdArr) else 1

    def __repr__(self):
        return f"NdArr({self.items})"


def _coords(I, v):
    """Anything numpy would read as a 1-D sequence of numbers -> list of scalars (None if not 1-D)."""
    if isinstance(v, NdArr):
        return list(v.items) if v.ndim == 1 else None
    if isinstance(v, PObj) and "coordinates" in v.fields:
        return list(v.fields["coordinates"])
    if isinstance(v, (tuple, list)):
        return list(v) if all(is_scalar(x) for x in v) else None
    if isinstance(v, PList):
        return list(v.items) if all(is_scalar(x) for x in v.items) else None
    return None


def to_array(I, v):
    if isinstance(v, NdArr):
        return v
    if is_scalar(v):
        return v
    c = _coords(I, v)
    if c is not None:
        return NdArr(c)
    if isinstance(v, (tuple, list, PList)):
        items = v.items if isinstance(v, PList) else v
        return NdArr([to_array(I, x) for x in items])
    raise PyvcError(f"numpy.array of {v!r} not modelled")


def _elementwise(I, sym, a, b):
    op = {"+": "+", "-": "-", "*": "*", "/": "/"}[sym]

    def one(x, y):
        if op == "/" and isinstance(y, SV) and not z3.is_rational_value(z3.simplify(rz(y))):
            if not I.in_spec and I.decide(compare("==", y, 0)):
                I.raise_("FloatingPointError", "numpy division by zero (nan/inf is outside the float model A1)")
            return quotient(I.eng, x, y)
        if op == "/" and not I.in_spec:
            if I.decide(compare("==", y, 0)):
                # numpy: division by zero yields inf/nan with a warning, not an exception; nan is outside the float model A1:
                # modelled as an exception, so that the contract has to show the case excluded by its precondition
                I.raise_("FloatingPointError", "numpy division by zero (nan/inf is outside the float model A1)")
        return arith(op, x, y)

    if isinstance(a, NdArr) and isinstance(b, NdArr):
        if len(a.items) != len(b.items):
            I.raise_("ValueError", "operands could not be broadcast together")
        return NdArr([_elementwise(I, sym, x, y) for x, y in zip(a.items, b.items)])
    if isinstance(a, NdArr):
        return NdArr([_elementwise(I, sym, x, b) for x in a.items])
    if isinstance(b, NdArr):
        return NdArr([_elementwise(I, sym, a, y) for y in b.items])
    return one(a, b)


def hyp_term(eng, comps):
    """hypot as a FUNCTION of its arguments (equal arguments give the same term), with its defining instance assumed"""
    c = [z3.simplify(rz(x)) for x in comps] + [z3.RealVal(0)] * (3 - len(comps))
    use(eng, "hypot")  # instantiated by E-matching only in queries that mention the term (keeps unrelated queries linear)
    return HYP(*c)


def hyp_hints(eng, *terms):
    """explicit instances of the hypot axioms (non-negative, square = sum of squares) for every hypot term inside `terms`"""
    seen, stack, found = set(), [rz(t) for t in terms], []
    while stack:
        t = stack.pop()
        if t.get_id() in seen:
            continue
        seen.add(t.get_id())
        if z3.is_app(t) and t.decl().eq(HYP):
            found.append(t)
        stack.extend(t.children())
    for t in found:
        instance(eng, "A1.hypot_is_nonnegative", *t.children())
        instance(eng, "A1.hypot_squared_is_the_sum_of_squares", *t.children())
    return found


def quotient(eng, x, c):
    """x / c for a symbolic divisor, as an uninterpreted quotient term (A1.quotient_times_divisor on demand)"""
    return sv(QUOT(z3.simplify(rz(x)), z3.simplify(rz(c))))


def norm_of(I, comps):
    if not any(isinstance(c, SV) for c in comps):
        return math.hypot(*comps)
    if len(comps) > 3:
        return bm.mhypot(I, *comps)
    return sv(hyp_term(I.eng, comps))


# ------------------------------------------------------------------------------------------------
# scipy Rotation values


class RotationClass:
    """The class object scipy.spatial.transform.Rotation (constructors only)."""

    name = "scipy.spatial.transform.Rotation"


def make_rotation(I, term):
    from .interp import BuiltinFn

    o = PObj("scipy.Rotation", tag=str(term)[:40])  # NB: the axiom groups ("rot", "rot.group", ...) are added by the contracts that need them
    o.term = term

    def apply(vectors, inverse=False):
        t = INV(term) if inverse else term
        a = to_array(I, vectors)
        if not isinstance(a, NdArr):
            raise PyvcError("Rotation.apply of a scalar")
        if a.ndim == 1:
            if len(a.items) != 3:
                I.raise_("ValueError", "Expected input of shape (3,) or (P, 3)")
            return NdArr([sv(c) for c in apply_term(t, a.items)])
        rows = []
        for row in a.items:
            if len(row.items) != 3:
                I.raise_("ValueError", "Expected input of shape (3,) or (P, 3)")
            rows.append(NdArr([sv(c) for c in apply_term(t, row.items)]))
        return NdArr(rows)

    def as_euler(seq, degrees=False, suppress_warnings=False):
        if seq != "ZXY" or degrees:
            raise PyvcError(f"Rotation.as_euler({seq!r}) not modelled")
        return NdArr([sv(f(term)) for f in EUL])

    o.fields.update(
        apply=BuiltinFn("Rotation.apply", apply),
        inv=BuiltinFn("Rotation.inv", lambda: make_rotation(I, z3.simplify(INV(term)))),
        as_euler=BuiltinFn("Rotation.as_euler", as_euler),
        as_quat=BuiltinFn("Rotation.as_quat", lambda *a, **k: NdArr([sv(f(term)) for f in QUAT])),
    )
    return o


def is_rotation(v):
    return isinstance(v, PObj) and v.cls == "scipy.Rotation"


def fresh_rotation(I, name):
    """An arbitrary rotation (input of a contract)."""
    return make_rotation(I, z3.Const(I.eng.fresh_name(name), ROT))


SCIPY_ROTATION = "scipy.spatial.transform._rotation:Rotation"  # newer SciPy: a python class (older: compiled, reached through EXTERNAL)


def _is_rotation_class(cls):
    return getattr(cls, "is_rotation_class", False) or getattr(cls, "full", None) == SCIPY_ROTATION


def _rotation_class(I):
    from .interp import BuiltinFn

    def from_euler(seq, angles, degrees=False):
        if seq != "ZXY" or degrees:
            raise PyvcError(f"Rotation.from_euler({seq!r}, degrees={degrees}) not modelled")
        a = _coords(I, angles)
        if a is None or len(a) != 3:
            raise PyvcError("Rotation.from_euler: three angles expected")
        return make_rotation(I, EULER(*[rz(x) for x in a]))

    def from_rotvec(vec, degrees=False):
        a = _coords(I, vec)
        if a is None or len(a) != 3 or degrees or not (a[0] == 0 and a[1] == 0 and not isinstance(a[0], SV) and not isinstance(a[1], SV)):
            raise PyvcError("Rotation.from_rotvec: only rotation vectors along +Z are modelled")
        # library fact: the rotation vector (0, 0, h) is the rotation by h about +Z, i.e. from_euler('ZXY', [h, 0, 0])
        return make_rotation(I, EULER(rz(a[2]), 0, 0))

    cls = NativeModule(RotationClass.name, {"from_euler": BuiltinFn("Rotation.from_euler", from_euler), "from_rotvec": BuiltinFn("Rotation.from_rotvec", from_rotvec)})
    cls.is_rotation_class = True
    return cls


def _scipy_constructor(name):
    """model for the python-level constructors of newer SciPy (static or class methods of the real class)"""

    def model(I, *args, **kwargs):
        from .interp import ClassVal

        if args and isinstance(args[0], ClassVal):
            args = args[1:]
        return _rotation_class(I).attrs[name].fn(*args, **kwargs)

    return model


# ------------------------------------------------------------------------------------------------
# math / numpy modules


def m_sin(I, a):
    if not isinstance(a, SV):
        if a == 0:
            return 0.0
    use(I.eng, "trig")
    return sv(SIN(rz(a)))


def m_cos(I, a):
    if not isinstance(a, SV):
        if a == 0:
            return 1.0
    use(I.eng, "trig")
    return sv(COS(rz(a)))


def m_atan2(I, y, x):
    use(I.eng, "atan2")
    return sv(ATAN2(rz(y), rz(x)))


def m_asin(I, x, numpy=False):
    use(I.eng, "asin", "atan2")
    if not numpy and not I.in_spec and isinstance(x, SV):  # numpy.arcsin never raises (nan outside [-1, 1])
        if I.decide(sv_and(compare("<=", -1, x), compare("<=", x, 1))) is False:
            I.raise_("ValueError", "math domain error")
    return sv(ASIN(rz(x)))


def _math_module(I):
    from .interp import BuiltinFn

    import sys

    # the base `math` model is built by builtins_model.make_modules just before the EXTRA_MODULES makers run
    base = sys._getframe(1).f_locals.get("mods", {}).get("math")
    if base is None:
        raise PyvcError("models_geom: base math module not found")
    attrs = dict(base.attrs)
    deg = _rat(180.0) / PI
    # pi / tau are exact rationals *inside the solver* (SV-wrapped numerals), so that `math.pi / 2` is exactly half of
    # `math.pi` (python float division followed by decimal re-reading would be off by one ulp): homogeneous in pi.
    attrs.update(
        pi=SV(PI, True),
        tau=SV(TAU, True),
        sin=BuiltinFn("sin", lambda a: m_sin(I, a)),
        cos=BuiltinFn("cos", lambda a: m_cos(I, a)),
        atan2=BuiltinFn("atan2", lambda y, x: m_atan2(I, y, x)),
        hypot=BuiltinFn("hypot", lambda *xs: norm_of(I, xs)),
        asin=BuiltinFn("asin", lambda x: m_asin(I, x)),
        degrees=BuiltinFn("degrees", lambda a: math.degrees(a) if not isinstance(a, SV) else sv(rz(a) * deg)),
        radians=BuiltinFn("radians", lambda a: math.radians(a) if not isinstance(a, SV) else sv(rz(a) / deg)),
    )
    return NativeModule("math", attrs)


def _numpy_module(I):
    from .interp import BuiltinFn

    def np_array(v, dtype=None):
        return to_array(I, v)

    def np_norm(v):
        a = to_array(I, v)
        if not isinstance(a, NdArr) or a.ndim != 1:
            raise PyvcError("numpy.linalg.norm: only 1-D arrays are modelled")
        return norm_of(I, a.items)

    def np_mod(a, m):
        # numpy.mod on floats: a - m*floor(a/m) (result has the sign of m).  For a positive constant modulus the floor is
        # an integer witness k with 0 <= a - m*k < m (no ToInt term: those make mixed LIRA/NRA queries diverge)
        mz = z3.simplify(rz(m))
        if isinstance(a, SV) and z3.is_rational_value(mz) and float(mz.as_fraction()) > 0:
            az = z3.simplify(rz(a))
            r = az - mz * z3.ToReal(FLOOR_QUOT(az, mz))  # a function of the argument: the same call yields the same term
            I.eng.assume(z3.And(r >= 0, r < mz))
            return sv(r)
        return arith("%", a, m)

    def np_array_equal(a, b):
        x, y = to_array(I, a), to_array(I, b)
        if not (isinstance(x, NdArr) and isinstance(y, NdArr)) or x.ndim != 1 or y.ndim != 1:
            raise PyvcError("numpy.array_equal: only 1-D arrays are modelled")
        if len(x.items) != len(y.items):
            return False
        return sv_and(*[compare("==", p, q) for p, q in zip(x.items, y.items)])

    def np_dot(a, b):
        x, y = _coords(I, a), _coords(I, b)
        if x is None or y is None or len(x) != len(y):
            raise PyvcError("numpy.dot: only 1-D arrays of equal length are modelled")
        s = 0
        for p, q in zip(x, y):
            s = arith("+", s, arith("*", p, q))
        return s

    class NdArrayType:
        name = "numpy.ndarray"

    linalg = NativeModule("numpy.linalg", {"norm": BuiltinFn("numpy.linalg.norm", np_norm)})
    return NativeModule(
        "numpy",
        {
            "pi": SV(PI, True),
            "array": BuiltinFn("numpy.array", np_array),
            "asarray": BuiltinFn("numpy.asarray", np_array),
            "linalg": linalg,
            "arctan2": BuiltinFn("numpy.arctan2", lambda y, x: m_atan2(I, y, x)),
            "arcsin": BuiltinFn("numpy.arcsin", lambda x: m_asin(I, x, numpy=True)),
            "mod": BuiltinFn("numpy.mod", np_mod),
            "array_equal": BuiltinFn("numpy.array_equal", np_array_equal),
            "dot": BuiltinFn("numpy.dot", np_dot),
            "ndarray": NDARRAY,
        },
    )


class _NdArrayType:
    name = "numpy.ndarray"


NDARRAY = _NdArrayType()

bm.EXTRA_MODULES["math"] = _math_module
bm.EXTRA_MODULES["numpy"] = _numpy_module
bm.EXTERNAL["scipy.spatial.transform.Rotation"] = _rotation_class
bm.EXTERNAL["math.cos"] = lambda I: I.get_attr(I.modules["math"], "cos")
bm.EXTERNAL["math.sin"] = lambda I: I.get_attr(I.modules["math"], "sin")
bm.LIBRARY_CONTRACTS["L-rot"] = (
    "scipy Rotation is an abstract group element acting on R^3: inverse/product/identity laws, zero vector fixed, Euler ZXY round trip, "
    "from_euler('ZXY',[yaw,0,0]) = from_rotvec([0,0,yaw]) = counter-clockwise planar rotation about +Z (isometry/linearity only where listed)"
)


# ------------------------------------------------------------------------------------------------
# registry hooks (chained in front of whatever another contract module installed)


def install(reg):
    if getattr(reg, "_geom_installed", False):
        return
    reg._geom_installed = True

    def chain(slot, mine):
        prev = getattr(reg, slot, None)

        def hook(*a):
            r = mine(*a)
            if r is NotHandled:
                if prev is None:
                    if slot == "getattr_fallback":
                        I, obj, name = a
                        if obj is None or isinstance(obj, (SV, int, float, bool, fractions.Fraction, Infinity)):
                            if not name.startswith("__") and name not in ("real", "imag", "numerator", "denominator", "is_integer", "conjugate"):
                                I.raise_("AttributeError", name)
                    raise PyvcError(f"{slot}: operation on {a[1:]} not modelled (line {a[0].lineno})")
                return prev(*a)
            return r

        setattr(reg, slot, hook)

    def binop(I, sym, a, b):
        if is_rotation(a) and is_rotation(b) and sym == "*":
            return make_rotation(I, z3.simplify(MUL(a.term, b.term)))
        if sym in ("+", "-", "*", "/") and (isinstance(a, NdArr) or isinstance(b, NdArr)):
            x = to_array(I, a) if not is_scalar(a) else a
            y = to_array(I, b) if not is_scalar(b) else b
            return _elementwise(I, sym, x, y)
        return NotHandled

    def isinst(I, x, cls):
        if _is_rotation_class(cls):
            return is_rotation(x)
        if cls is NDARRAY:
            return isinstance(x, NdArr)
        if isinstance(x, NdArr) or is_rotation(x):
            return False
        return None

    prev_inst = reg.isinstance_hook

    def isinstance_hook(I, x, cls):
        r = isinst(I, x, cls)
        if r is None and prev_inst is not None:
            return prev_inst(I, x, cls)
        return r

    reg.isinstance_hook = isinstance_hook

    def iterate(I, v):
        if isinstance(v, NdArr):
            return list(v.items)
        if isinstance(v, PObj) and "coordinates" in v.fields:  # Vector is a collections.abc.Sequence
            return list(v.fields["coordinates"])
        return NotHandled

    def getitem(I, obj, idx):
        if isinstance(obj, NdArr):
            if isinstance(idx, tuple):
                cur = obj
                for k in idx:
                    cur = getitem(I, cur, k)
                return cur
            if isinstance(idx, slice):
                return NdArr(obj.items[idx])
            if isinstance(idx, SV):
                for k in range(len(obj.items)):
                    if I.eng.branch(tobool(compare("==", idx, k))):
                        return obj.items[k]
                I.raise_("IndexError", "index out of range")
            if idx < -len(obj.items) or idx >= len(obj.items):
                I.raise_("IndexError", "index out of bounds")
            return obj.items[idx]
        return NotHandled

    def length(I, x):
        if isinstance(x, NdArr):
            return len(x.items)
        return NotHandled

    def getattr_(I, obj, name):
        if isinstance(obj, NdArr):
            if name == "shape":
                return (len(obj.items),) if obj.ndim == 1 else (len(obj.items), len(obj.items[0].items))
            if name == "tolist":
                from .interp import BuiltinFn

                return BuiltinFn("tolist", lambda: PList(obj.items))
        return NotHandled

    for nm in ("from_euler", "from_rotvec"):
        reg.models[f"{SCIPY_ROTATION}.{nm}"] = _scipy_constructor(nm)
    chain("binop_fallback", binop)
    chain("iterate_fallback", iterate)
    chain("getitem_fallback", getitem)
    chain("len_fallback", length)
    chain("getattr_fallback", getattr_)
    reg.trust("numpy (models_geom)", "arrays of concrete shape with symbolic real elements; array/linalg.norm/arctan2/arcsin/mod/array_equal/dot elementwise as documented; division by zero (nan) is outside A1")
    reg.trust("scipy Rotation (models_geom)", bm.LIBRARY_CONTRACTS["L-rot"])
    reg.trust("trigonometry (models_geom)", "sin cos atan2 asin uninterpreted; only the named A2.* axioms listed under `axioms` are assumed")


class _NotHandled:
    pass


NotHandled = _NotHandled()
