"""Symbolic value model of pyvc (see DESIGN.md section 2.3 for the encoding assumptions).

Python values are represented dynamically: concrete Python objects stay themselves, symbolic scalars
are `SV` wrappers around z3 terms (Int / Real / Bool), containers are small model classes.  Floats
are mathematical reals (assumption A1)."""
import fractions
import math

import z3


class PyvcError(Exception):
    """Engine limitation (construct outside the accepted subset, missing contract): exit 3."""


class NeedsContract(PyvcError):
    pass


class SV:
    """Symbolic scalar (z3 Int, Real or Bool term)."""

    __slots__ = ("e", "isfloat")

    def __init__(self, e, isfloat=None):
        self.e = e
        self.isfloat = z3.is_real(e) if isfloat is None else isfloat

    def __repr__(self):
        return f"SV({self.e})"

    def __bool__(self):
        raise PyvcError(f"symbolic value {self.e} used as a concrete bool inside the engine")

    # operator overloading is provided so that contract helper code can be written naturally
    def __add__(self, o):
        return arith("+", self, o)

    def __radd__(self, o):
        return arith("+", o, self)

    def __sub__(self, o):
        return arith("-", self, o)

    def __rsub__(self, o):
        return arith("-", o, self)

    def __mul__(self, o):
        return arith("*", self, o)

    def __rmul__(self, o):
        return arith("*", o, self)

    def __truediv__(self, o):
        return arith("/", self, o)

    def __rtruediv__(self, o):
        return arith("/", o, self)

    def __neg__(self):
        return arith("-", 0, self)

    def __lt__(self, o):
        return compare("<", self, o)

    def __le__(self, o):
        return compare("<=", self, o)

    def __gt__(self, o):
        return compare(">", self, o)

    def __ge__(self, o):
        return compare(">=", self, o)

    def __eq__(self, o):  # noqa
        return compare("==", self, o)

    def __ne__(self, o):  # noqa
        return compare("!=", self, o)

    def __hash__(self):
        return hash(self.e)

    def __and__(self, o):
        return SV(z3.And(tobool(self), tobool(o)))

    def __or__(self, o):
        return SV(z3.Or(tobool(self), tobool(o)))

    def __invert__(self):
        return SV(z3.Not(tobool(self)))


class Infinity:
    """float('inf') / -inf as concrete extended reals."""

    def __init__(self, sign):
        self.sign = sign

    def __repr__(self):
        return "inf" if self.sign > 0 else "-inf"


def is_sym(v):
    return isinstance(v, SV)


def is_num(v):
    return isinstance(v, (int, float, fractions.Fraction)) and not isinstance(v, bool) or (
        isinstance(v, SV) and not z3.is_bool(v.e)
    )


def is_scalar(v):
    return isinstance(v, (int, float, bool, fractions.Fraction, SV))


def real_const(x):
    if isinstance(x, bool):
        return z3.RealVal(1 if x else 0)
    if isinstance(x, int):
        return z3.RealVal(x)
    if isinstance(x, fractions.Fraction):
        return z3.RealVal(str(x))
    if isinstance(x, float):
        if math.isinf(x) or math.isnan(x):
            raise PyvcError("inf/nan constant in arithmetic")
        # decimal literal semantics: 0.1 means one tenth (A1: floats are reals)
        return z3.RealVal(str(fractions.Fraction(repr(x))))
    raise PyvcError(f"not a number: {x!r}")


def toz3(v, want_real=False):
    """Python/SV scalar -> z3 arithmetic or boolean term."""
    if isinstance(v, SV):
        e = v.e
        if want_real:
            if z3.is_int(e):
                return z3.ToReal(e)
            if z3.is_bool(e):
                return z3.If(e, z3.RealVal(1), z3.RealVal(0))
        return e
    if isinstance(v, bool):
        if want_real:
            return z3.RealVal(1 if v else 0)
        return z3.BoolVal(v)
    if isinstance(v, int):
        return z3.RealVal(v) if want_real else z3.IntVal(v)
    if isinstance(v, (float, fractions.Fraction)):
        return real_const(v)
    raise PyvcError(f"cannot convert {v!r} to an SMT term")


def tonum(v):
    """scalar -> z3 arithmetic term (bools become 0/1)."""
    e = toz3(v)
    if z3.is_bool(e):
        return z3.If(e, z3.IntVal(1), z3.IntVal(0))
    return e


def tobool(v):
    """Python truthiness of a scalar as a z3 Bool (or python bool if concrete)."""
    if isinstance(v, SV):
        e = v.e
        if z3.is_bool(e):
            return e
        return e != 0
    if isinstance(v, z3.ExprRef):
        return v
    return z3.BoolVal(bool(v))


def simplify_sv(e):
    """Wrap a z3 term; return concrete python value when it is a literal."""
    e = z3.simplify(e) if not z3.is_const(e) else e
    if z3.is_true(e):
        return True
    if z3.is_false(e):
        return False
    if z3.is_int_value(e):
        return e.as_long()
    return SV(e)


def _both_int(a, b):
    return z3.is_int(a) and z3.is_int(b)


def isfloat(v):
    if isinstance(v, SV):
        return v.isfloat
    return isinstance(v, float)


def arith(op, a, b):
    if not (is_sym(a) or is_sym(b)):
        return concrete_arith(op, a, b)
    za, zb = tonum(a), tonum(b)
    fl = isfloat(a) or isfloat(b)
    if op in ("+", "-", "*"):
        if not _both_int(za, zb):
            za, zb = _r(za), _r(zb)
        r = za + zb if op == "+" else za - zb if op == "-" else za * zb
        return SV(z3.simplify(r), fl or z3.is_real(r))
    if op == "/":
        return SV(z3.simplify(_r(za) / _r(zb)), True)
    if op == "//":
        if _both_int(za, zb):
            return SV(z3.If(zb > 0, za / zb, (-za) / (-zb)), False)
        q = _r(za) / _r(zb)
        return SV(z3.ToReal(z3.ToInt(q)), True)
    if op == "%":
        if _both_int(za, zb):
            fd = z3.If(zb > 0, za / zb, (-za) / (-zb))
            return SV(za - zb * fd, False)
        q = z3.ToReal(z3.ToInt(_r(za) / _r(zb)))
        return SV(_r(za) - _r(zb) * q, True)
    if op == "**":
        if isinstance(b, int) and not isinstance(b, bool) and 0 <= b <= 4:
            if b == 0:
                return 1
            r = za
            for _ in range(b - 1):
                r = r * za
            return SV(r, fl)
        raise PyvcError("symbolic ** only with small constant exponent")
    raise PyvcError(f"unsupported arithmetic operator {op}")


def _r(e):
    return z3.ToReal(e) if z3.is_int(e) else e


def concrete_arith(op, a, b):
    if isinstance(a, Infinity) or isinstance(b, Infinity):
        return _inf_arith(op, a, b)
    try:
        if op == "+":
            return a + b
        if op == "-":
            return a - b
        if op == "*":
            return a * b
        if op == "/":
            return a / b
        if op == "//":
            return a // b
        if op == "%":
            return a % b
        if op == "**":
            return a**b
    except ZeroDivisionError:
        raise
    raise PyvcError(f"unsupported arithmetic operator {op}")


def _inf_arith(op, a, b):
    if op in ("+", "-"):
        if isinstance(a, Infinity) and not isinstance(b, Infinity):
            return a
        if isinstance(b, Infinity) and not isinstance(a, Infinity):
            return b if op == "+" else Infinity(-b.sign)
        if isinstance(a, Infinity) and isinstance(b, Infinity):
            s = b.sign if op == "+" else -b.sign
            if s == a.sign:
                return a
    if op == "*" and isinstance(a, Infinity) and isinstance(b, (int, float)) and b != 0:
        return Infinity(a.sign * (1 if b > 0 else -1))
    if op == "*" and isinstance(b, Infinity) and isinstance(a, (int, float)) and a != 0:
        return Infinity(b.sign * (1 if a > 0 else -1))
    raise PyvcError("unsupported infinity arithmetic")


def compare(op, a, b):
    """Python comparison on scalars -> python bool or SV(Bool)."""
    if isinstance(a, Infinity) or isinstance(b, Infinity):
        return _inf_compare(op, a, b)
    if not (is_sym(a) or is_sym(b)):
        if isinstance(a, fractions.Fraction) or isinstance(b, fractions.Fraction):
            a, b = fractions.Fraction(a), fractions.Fraction(b)
        return {
            "<": lambda: a < b,
            "<=": lambda: a <= b,
            ">": lambda: a > b,
            ">=": lambda: a >= b,
            "==": lambda: a == b,
            "!=": lambda: a != b,
        }[op]()
    za, zb = toz3(a), toz3(b)
    if z3.is_bool(za) and z3.is_bool(zb):
        if op == "==":
            return simplify_sv(za == zb)
        if op == "!=":
            return simplify_sv(za != zb)
    za, zb = tonum(a), tonum(b)
    if not _both_int(za, zb):
        za, zb = _r(za), _r(zb)
    r = {
        "<": lambda: za < zb,
        "<=": lambda: za <= zb,
        ">": lambda: za > zb,
        ">=": lambda: za >= zb,
        "==": lambda: za == zb,
        "!=": lambda: za != zb,
    }[op]()
    return simplify_sv(r)


def _inf_compare(op, a, b):
    # finite symbolic values are strictly between -inf and +inf (A1: no float overflow)
    def rank(x):
        if isinstance(x, Infinity):
            return 2 * x.sign
        return 0

    ra, rb = rank(a), rank(b)
    if ra == rb == 0:
        raise PyvcError("unreachable")
    if ra == rb:
        return op in ("<=", ">=", "==")
    return {
        "<": ra < rb,
        "<=": ra <= rb,
        ">": ra > rb,
        ">=": ra >= rb,
        "==": False,
        "!=": True,
    }[op]


def sv_and(*xs):
    xs = [tobool(x) for x in xs]
    return simplify_sv(z3.And(*xs)) if xs else True


def sv_or(*xs):
    xs = [tobool(x) for x in xs]
    return simplify_sv(z3.Or(*xs)) if xs else False


def sv_not(x):
    return simplify_sv(z3.Not(tobool(x)))


def sv_implies(a, b):
    return simplify_sv(z3.Implies(tobool(a), tobool(b)))


def sv_ite(c, a, b):
    """If-then-else over scalars (or identical structures)."""
    if isinstance(c, bool):
        return a if c else b
    cz = tobool(c)
    if z3.is_true(cz):
        return a
    if z3.is_false(cz):
        return b
    if a is b:
        return a
    if is_scalar(a) and is_scalar(b):
        za, zb = toz3(a), toz3(b)
        if z3.is_bool(za) != z3.is_bool(zb):
            za, zb = tonum(a), tonum(b)
        if za.sort() != zb.sort():
            za, zb = _r(za), _r(zb)
        return SV(z3.If(cz, za, zb), isfloat(a) or isfloat(b))
    if isinstance(a, tuple) and isinstance(b, tuple) and len(a) == len(b):
        return tuple(sv_ite(c, x, y) for x, y in zip(a, b))
    raise PyvcError(f"cannot merge values {a!r} / {b!r} in a conditional expression")


# ---------------------------------------------------------------------------------------------
# containers and objects


class PList:
    """Mutable Python list of concrete length."""

    def __init__(self, items=()):
        self.items = list(items)

    def __repr__(self):
        return f"PList({self.items})"


class PSet:
    """Python set with concretely known elements (iteration order = insertion order is NOT
    assumed by determinism contracts; see `nondet_order`)."""

    def __init__(self, items=(), frozen=False):
        self.items = []
        self.frozen = frozen
        for it in items:
            self.add(it)

    def add(self, it):
        for x in self.items:
            if x is it or (not isinstance(x, (PObj, SV)) and not isinstance(it, (PObj, SV)) and x == it):
                return
        self.items.append(it)


class PDict:
    """Insertion-ordered dict with concretely known keys."""

    def __init__(self, pairs=()):
        self.keys = []
        self.vals = []
        for k, v in pairs:
            self.set(k, v)

    def _find(self, k):
        for i, x in enumerate(self.keys):
            if x is k or (not isinstance(x, (PObj, SV)) and not isinstance(k, (PObj, SV)) and type(x) == type(k) and x == k):
                return i
        return -1

    def get(self, k, default=None):
        i = self._find(k)
        return self.vals[i] if i >= 0 else default

    def has(self, k):
        return self._find(k) >= 0

    def set(self, k, v):
        i = self._find(k)
        if i >= 0:
            self.vals[i] = v
        else:
            self.keys.append(k)
            self.vals.append(v)

    def pop(self, k):
        i = self._find(k)
        v = self.vals[i]
        del self.keys[i]
        del self.vals[i]
        return v

    def __repr__(self):
        return f"PDict({list(zip(self.keys, self.vals))})"


class PObj:
    """Heap object with named fields.  `cls` is a ClassVal (repo class) or a string tag."""

    _count = 0

    def __init__(self, cls, fields=None, tag=None):
        self.cls = cls
        self.fields = dict(fields or {})
        PObj._count += 1
        self.tag = tag or f"obj{PObj._count}"

    def __repr__(self):
        return f"<{getattr(self.cls, 'name', self.cls)} {self.tag}>"


class PExc:
    """Exception instance."""

    def __init__(self, cls, args=(), cause=None):
        self.cls = cls
        self.args = tuple(args)
        self.cause = cause
        self.fields = {}

    def __repr__(self):
        return f"<exc {getattr(self.cls, '__name__', getattr(self.cls, 'name', self.cls))}{self.args!r}>"


class SBytes:
    """bytes value: z3 Array Int->Int plus (possibly symbolic) length; every element in [0,255]."""

    def __init__(self, arr, length, off=0):
        self.arr = arr
        self.length = length
        self.off = off  # index offset into arr

    def at(self, i):
        return SV(z3.Select(self.arr, tonum(arith("+", self.off, i))))

    def __repr__(self):
        return f"SBytes(len={self.length})"


class SSeq:
    """Immutable sequence of symbolic length: element i is `elem(i)` (a python callable index->value)."""

    def __init__(self, length, elem, kind="tuple", name=None):
        self.length = length
        self.elem = elem
        self.kind = kind
        self.name = name

    def __repr__(self):
        return f"SSeq({self.name}, len={self.length})"


class Opaque:
    """A value the engine knows nothing about except identity (and declared uninterpreted facts)."""

    _n = 0

    def __init__(self, name=None, typ=None):
        Opaque._n += 1
        self.name = name or f"opaque{Opaque._n}"
        self.typ = typ

    def __repr__(self):
        return f"<opaque {self.name}>"
