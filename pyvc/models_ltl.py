"""Library models for C11 (temporal requirements): the `enum.Enum` machinery behind `rv_ltl.B4`, `functools.reduce`,
`operator.{concat,and_,or_}`, `uuid.uuid4`.

Only the *enum machinery* is modelled (member lookup by name, by value, identity of members); the methods of
the enum class (`B4.__and__`, `__or__`, `__invert__`, `is_truthy`, `is_falsy`, `from_bool`) are the real code of
the dependency, read from its source on disk and interpreted like any other carrier.

A member of the enum is a heap object of the real class with one field `value` (python int or symbolic Int)
and the identity `("<Enum>", value)`: two members are identical / equal exactly when their values are."""
import ast

import z3

from . import builtins_model as bm
from . import extract
from .interp import BuiltinFn, ClassVal, SpecFn
from .values import PObj, PyvcError, SV, compare, sv_and, tobool


def enum_members(full):
    """{name: int} read from the class body on disk (so that a mutated copy of the enum is seen)."""
    mod, nm = full.split(":")
    node = extract.get_module(mod).top[nm]
    out = {}
    for st in node.body:
        if isinstance(st, ast.Assign) and len(st.targets) == 1 and isinstance(st.targets[0], ast.Name) and isinstance(st.value, ast.Constant) and isinstance(st.value.value, int):
            out[st.targets[0].id] = st.value.value
    return out


def enum_class(full):
    mod, nm = full.split(":")
    return ClassVal.get(mod, extract.get_module(mod).top[nm])


def make_member(full, value):
    """The member of enum `full` with the given (possibly symbolic) value."""
    o = PObj(enum_class(full), tag=f"{full.split(':')[1]}<{value if isinstance(value, int) else 'sym'}>")
    o.fields["value"] = value
    o.ident = (full, value)
    return o


class EnumClassModel(SpecFn):
    """Stand-in for the enum class object wherever its *name* is evaluated (`B4`, and the bare `__class__` inside
    its methods): calling it looks a member up by value (ValueError outside the declared values), attribute access
    yields members by name or the real (static) methods."""

    def __init__(self, full):
        self.full = full
        super().__init__(self._by_value, full.split(":")[1], needs_interp=True)

    def _by_value(self, I, value):
        vals = sorted(enum_members(self.full).values())
        if not isinstance(value, SV):
            if value not in vals:
                I.raise_("ValueError", f"{value!r} is not a valid {self.name}")
            return make_member(self.full, value)
        lo, hi = _bounds(value.e)
        if lo is not None and vals == list(range(vals[0], vals[-1] + 1)) and vals[0] <= lo and hi <= vals[-1]:
            return make_member(self.full, value)  # in range by construction (interval analysis of the term): no solver call
        ok = z3.simplify(z3.Or(*[value.e == v for v in vals]))
        if not z3.is_true(ok):
            if I.in_spec:
                pass
            elif I.eng.feasible(z3.Not(ok)):
                if not I.eng.branch(ok):
                    I.raise_("ValueError", f"symbolic value is not a valid {self.name}")
            else:
                I.eng.assume(ok)
        return make_member(self.full, value)

    def attr(self, I, name):
        mem = enum_members(self.full)
        if name in mem:
            return make_member(self.full, mem[name])
        cls = enum_class(self.full)
        if name == "__name__":
            return cls.name
        return bm.get_attr(I, cls, name)


_bcache = {}


def _bounds(e):
    """(lo, hi) integer interval of a term built from literals, if-then-else, +, - over bounded parts; (None, None) if unknown"""
    k = e.get_id()
    r = _bcache.get(k)
    if r is not None and r[0].eq(e):
        return r[1]
    out = (None, None)
    if z3.is_int_value(e):
        out = (e.as_long(), e.as_long())
    elif z3.is_app(e):
        kind = e.decl().kind()
        ch = e.children()
        if kind == z3.Z3_OP_ITE:
            a, b = _bounds(ch[1]), _bounds(ch[2])
            if a[0] is not None and b[0] is not None:
                out = (min(a[0], b[0]), max(a[1], b[1]))
        elif kind in (z3.Z3_OP_ADD, z3.Z3_OP_SUB) and len(ch) == 2:
            a, b = _bounds(ch[0]), _bounds(ch[1])
            if a[0] is not None and b[0] is not None:
                out = (a[0] + b[0], a[1] + b[1]) if kind == z3.Z3_OP_ADD else (a[0] - b[1], a[1] - b[0])
        elif kind == z3.Z3_OP_UMINUS:
            a = _bounds(ch[0])
            if a[0] is not None:
                out = (-a[1], -a[0])
        elif kind == z3.Z3_OP_MUL and len(ch) == 2 and z3.is_int_value(ch[0]):
            c, a = ch[0].as_long(), _bounds(ch[1])
            if a[0] is not None:
                out = (min(c * a[0], c * a[1]), max(c * a[0], c * a[1]))
    _bcache[k] = (e, out)
    return out


def b4_type():
    """contracts.Type of a symbolic B4 member (value in 1..4)."""
    from . import contracts as C

    class B4T(C.Type):
        def fresh(self, eng, name, I=None):
            v = eng.fresh_int(name + ".value")
            eng.assume(sv_and(compare("<=", 1, v), compare("<=", v, 4)))
            return make_member(B4, v)

        def concretize(self, eng, model, val):
            v = eng.eval_model(model, val.fields["value"])
            return B4_NAMES.get(v, v)

    return B4T()


B4 = "rv_ltl.b4:B4"
B4_NAMES = {4: "TRUE", 3: "PRESUMABLY_TRUE", 2: "PRESUMABLY_FALSE", 1: "FALSE"}


def b4(value):
    return make_member(B4, value)


def b4_value(x):
    """value of a B4 member as python int / SV."""
    if not (isinstance(x, PObj) and getattr(x, "ident", (None,))[0] == B4):
        raise PyvcError(f"not a B4 member: {x!r}")
    return x.fields["value"]


def is_b4(x):
    return isinstance(x, PObj) and getattr(x, "ident", (None,))[0] == B4


# ------------------------------------------------------------------------------------------------ modules


def _make_functools(I):
    def reduce(fn, seq, *init):
        items = bm.iterate(I, seq)
        if init:
            acc = init[0]
        else:
            if not items:
                I.raise_("TypeError", "reduce() of empty iterable with no initial value")
            acc, items = items[0], items[1:]
        for x in items:
            acc = I.call_value(fn, [acc, x])
        return acc

    return bm.NativeModule("functools", {"reduce": BuiltinFn("reduce", reduce)})


def _bitop(I, op, a, b):
    """operator.and_ / or_ on bools and ints: python's bitwise operators (True & 2 == 0).  A symbolic bool against a
    concrete int is resolved by cases (bool as 0/1); symbolic ints are not modelled."""
    is_and = isinstance(op, ast.BitAnd)
    f = (lambda x, y: x & y) if is_and else (lambda x, y: x | y)
    cint = lambda x: isinstance(x, (bool, int))
    sbool = lambda x: isinstance(x, SV) and z3.is_bool(x.e)
    if cint(a) and cint(b):
        return f(a, b)
    if sbool(a) and sbool(b):
        return I.binop(op, a, b)
    if sbool(a) and isinstance(b, bool) or isinstance(a, bool) and sbool(b):
        return I.binop(op, a, b)
    if (sbool(a) and cint(b)) or (cint(a) and sbool(b)):
        s, c = (a, b) if sbool(a) else (b, a)
        t, e = f(1, int(c)), f(0, int(c))
        if t == e:
            return t
        return SV(z3.If(s.e, z3.IntVal(t), z3.IntVal(e)))
    if isinstance(a, SV) and cint(b) or cint(a) and isinstance(b, SV):
        s, c = (a, b) if isinstance(a, SV) else (b, a)
        lo, hi = _bounds(s.e)
        if lo is not None and hi - lo <= 8:  # small symbolic int (result of an earlier step): by cases
            r = z3.IntVal(f(hi, int(c)))
            for v in range(hi - 1, lo - 1, -1):
                r = z3.If(s.e == v, z3.IntVal(f(v, int(c))), r)
            return SV(r)
    if isinstance(a, (bool, int, SV)) and isinstance(b, (bool, int, SV)):
        raise PyvcError("bitwise operator on symbolic integers is not modelled")
    return I.binop(op, a, b)


def _make_operator(I):
    fns = {
        "concat": lambda a, b: I.binop(ast.Add(), a, b),
        "and_": lambda a, b: _bitop(I, ast.BitAnd(), a, b),
        "or_": lambda a, b: _bitop(I, ast.BitOr(), a, b),
        "not_": lambda a: (lambda t: (not t) if isinstance(t, bool) else SV(z3.Not(tobool(t))))(I.truth(a)),
    }
    return bm.NativeModule("operator", {k: BuiltinFn(k, v) for k, v in fns.items()})


def _make_uuid(I):
    counter = [0]

    def uuid4():
        counter[0] += 1
        return f"<uuid{counter[0]}>"

    return bm.NativeModule("uuid", {"uuid4": BuiltinFn("uuid4", uuid4)})


def _make_typing(I):
    class _T:
        def __getitem__(self, k):
            return self

    return bm.NativeModule("typing", {k: _T() for k in ("Any", "Dict", "List", "Set", "Union", "Tuple", "Optional")})


bm.EXTRA_MODULES.setdefault("functools", _make_functools)
bm.EXTRA_MODULES.setdefault("operator", _make_operator)
bm.EXTRA_MODULES.setdefault("uuid", _make_uuid)
bm.EXTRA_MODULES.setdefault("typing", _make_typing)


# ------------------------------------------------------------------------------------------------ registry hook


def install(reg):
    """Make the names `B4` / `__class__` (inside B4's methods) evaluate to the enum class model, route attribute access
    on it, and let the one-line methods of B4 be interpreted in place wherever they are called."""
    model = EnumClassModel(B4)
    reg.spec_env["B4"] = model
    reg.spec_env["__class__"] = model
    prev = reg.getattr_fallback

    def getattr_fallback(I, obj, name):
        if isinstance(obj, EnumClassModel):
            return obj.attr(I, name)
        if prev is not None:
            return prev(I, obj, name)
        if obj is None or isinstance(obj, (SV, int, float, bool)):
            I.raise_("AttributeError", name)
        raise PyvcError(f"attribute {name!r} of {obj!r} not modelled (line {I.lineno})")

    reg.getattr_fallback = getattr_fallback
    # from_bool is NOT in this list: its verified contract (result.value == 4 if b else 1) is applied at call sites, which
    # keeps a symbolic truth value symbolic instead of forking on it
    for m in ("is_truthy", "is_falsy", "__invert__", "__and__", "__or__", "__bool__"):
        reg.always_inline.add(f"{B4}.{m}")
    if not any(n == "enum.Enum" for n, _ in reg.trusted):
        reg.trust(
            "enum.Enum",
            "model of the enum machinery behind rv_ltl.B4: members are singletons identified by their value; `B4(v)` returns the "
            "member with value v (ValueError otherwise); `B4.NAME` the member declared under NAME (values read from the class body "
            "on disk).  The methods of B4 themselves are interpreted from the dependency's source.",
        )
    return model
