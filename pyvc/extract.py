"""Mechanical extraction of carrier functions from the *current* /repo working tree.

Nothing under /verif holds a copy of Scenic code: every run re-parses the files on disk, locates
the requested qualified name and hands the `ast.FunctionDef` to the VC generator.  What extraction
drops (reported in evidence): decorators, docstrings, annotations.
"""
import ast
import hashlib
import os

REPO = os.environ.get("PYVC_REPO", "/repo")
SRC = os.path.join(REPO, "src")

EXTRACTION_DROPS = [
    "decorators (the decorated body is verified)",
    "docstrings",
    "type annotations",
]


class ExtractionError(Exception):
    """The carrier cannot be found (or is outside the accepted subset): checker failure, not a violation."""


_module_cache = {}


def module_path(modname):
    rel = modname.replace(".", "/")
    for base in (SRC, os.path.join(REPO, "tests"), REPO):
        for cand in (os.path.join(base, rel + ".py"), os.path.join(base, rel, "__init__.py")):
            if os.path.exists(cand):
                return cand
    # third-party packages whose source is on disk (rv_ltl)
    for sp in ("/venv/lib/python3.12/site-packages",):
        for cand in (os.path.join(sp, rel + ".py"), os.path.join(sp, rel, "__init__.py")):
            if os.path.exists(cand):
                return cand
    raise ExtractionError(f"module {modname} not found under {SRC}")


class Module:
    def __init__(self, modname, path=None, source=None):
        self.name = modname
        self.path = path or module_path(modname)
        if source is None:
            with open(self.path, encoding="utf-8") as f:
                source = f.read()
        self.source = source
        try:
            self.tree = ast.parse(self.source, filename=self.path)
        except SyntaxError as e:  # pragma: no cover
            raise ExtractionError(f"cannot parse {self.path}: {e}")
        self.lines = self.source.splitlines()
        self.top = {}  # name -> node (FunctionDef / ClassDef / Assign value / Import)
        self._index()

    def _index_body(self, body):
        for node in body:
            if isinstance(node, (ast.FunctionDef, ast.AsyncFunctionDef, ast.ClassDef)):
                self.top[node.name] = node
            elif isinstance(node, ast.Assign):
                for t in node.targets:
                    if isinstance(t, ast.Name):
                        self.top[t.id] = node
                    elif isinstance(t, ast.Tuple):
                        for el in t.elts:
                            if isinstance(el, ast.Name):
                                self.top[el.id] = node
            elif isinstance(node, ast.AnnAssign) and isinstance(node.target, ast.Name):
                self.top[node.target.id] = node
            elif isinstance(node, ast.Import):
                for a in node.names:
                    self.top[(a.asname or a.name).split(".")[0]] = ("import", a.name, a.asname)
            elif isinstance(node, ast.ImportFrom):
                for a in node.names:
                    mod = node.module or ""
                    if node.level:
                        parts = self.name.split(".")
                        if not self.path.endswith("__init__.py"):
                            parts = parts[:-1]
                        if node.level > 1:
                            parts = parts[: -(node.level - 1)]
                        mod = ".".join(parts + ([mod] if mod else []))
                    self.top[a.asname or a.name] = ("from", mod, a.name)
            elif isinstance(node, (ast.If, ast.Try)):
                # names defined under `if`/`try` at module level (version switches)
                self._index_body(node.body)
                for h in getattr(node, "handlers", []):
                    self._index_body(h.body)
                self._index_body(node.orelse)

    def _index(self):
        self._index_body(self.tree.body)


def get_module(modname):
    m = _module_cache.get(modname)
    if m is None:
        m = _module_cache[modname] = Module(modname)
    return m


def clear_cache():
    _module_cache.clear()


class Extracted:
    def __init__(self, module, qualname, node, owner_class=None, parents=()):
        self.module = module
        self.qualname = qualname
        self.node = node
        self.owner_class = owner_class  # ast.ClassDef or None
        self.parents = parents
        seg = "\n".join(module.lines[node.lineno - 1 : node.end_lineno])
        self.source = seg
        self.sha256 = hashlib.sha256(seg.encode()).hexdigest()
        self.file = os.path.relpath(module.path, REPO) if module.path.startswith(REPO) else module.path
        self.lines = (node.lineno, node.end_lineno)

    @property
    def full(self):
        return f"{self.module.name}:{self.qualname}"

    def describe(self):
        return {
            "qualname": self.full,
            "file": self.file,
            "lines": list(self.lines),
            "sha256": self.sha256,
        }


def _find_in(body, name):
    """Find def/class `name` in a statement list, descending into if/try/with/for blocks."""
    for node in body:
        if isinstance(node, (ast.FunctionDef, ast.AsyncFunctionDef, ast.ClassDef)) and node.name == name:
            return node
    for node in body:
        for fld in ("body", "orelse", "finalbody"):
            sub = getattr(node, fld, None)
            if isinstance(sub, list) and not isinstance(
                node, (ast.FunctionDef, ast.AsyncFunctionDef, ast.ClassDef)
            ):
                r = _find_in(sub, name)
                if r is not None:
                    return r
        for h in getattr(node, "handlers", []) or []:
            r = _find_in(h.body, name)
            if r is not None:
                return r
    return None


def extract(full):
    """`module:Qual.name` -> Extracted.  Nested defs and methods are addressed with dots."""
    if ":" not in full:
        raise ExtractionError(f"bad carrier name {full!r}")
    modname, qual = full.split(":", 1)
    module = get_module(modname)
    parts = qual.split(".")
    body = module.tree.body
    node = None
    owner = None
    parents = []
    for i, part in enumerate(parts):
        found = _find_in(body, part)
        if found is None:
            raise ExtractionError(
                f"carrier {full} not found in {module.path} (missing {'.'.join(parts[: i + 1])}); "
                "the code moved: contract needs updating"
            )
        if i < len(parts) - 1:
            parents.append(found)
            if isinstance(found, ast.ClassDef):
                owner = found
        node = found
        body = found.body
    if not isinstance(node, (ast.FunctionDef, ast.AsyncFunctionDef, ast.ClassDef)):
        raise ExtractionError(f"{full} is not a function or class")
    if isinstance(parents[-1] if parents else None, ast.ClassDef):
        owner = parents[-1]
    else:
        owner = None if not parents or not isinstance(parents[-1], ast.ClassDef) else parents[-1]
    return Extracted(module, qual, node, owner, tuple(parents))


def class_bases(modname, clsname):
    """Resolve base-class names of a class to (module, name) pairs where possible."""
    module = get_module(modname)
    node = module.top.get(clsname)
    if not isinstance(node, ast.ClassDef):
        return []
    out = []
    for b in node.bases:
        if isinstance(b, ast.Name):
            out.append(resolve_name(modname, b.id))
        elif isinstance(b, ast.Attribute) and isinstance(b.value, ast.Name):
            tgt = module.top.get(b.value.id)
            if isinstance(tgt, tuple) and tgt[0] == "import":
                out.append(("ext", tgt[1], b.attr))
            else:
                out.append(("unknown", ast.unparse(b), None))
        else:
            out.append(("unknown", ast.unparse(b), None))
    return out


def resolve_name(modname, name, _depth=0):
    """Resolve a module-level name to ('repo', module, name) for defs/classes/constants defined in
    the repository, following `from x import y` chains; ('ext', module, name) for anything else."""
    if _depth > 8:
        return ("unknown", modname, name)
    try:
        module = get_module(modname)
    except ExtractionError:
        return ("ext", modname, name)
    tgt = module.top.get(name)
    if tgt is None:
        return ("builtin", None, name)
    if isinstance(tgt, tuple):
        if tgt[0] == "from":
            try:
                get_module(tgt[1])
            except ExtractionError:
                return ("ext", tgt[1], tgt[2])
            # `from pkg import submodule`
            try:
                sub = tgt[1] + "." + tgt[2]
                module_path(sub)
                if tgt[2] not in get_module(tgt[1]).top:
                    return ("module", sub, None)
            except ExtractionError:
                pass
            return resolve_name(tgt[1], tgt[2], _depth + 1)
        if tgt[0] == "import":
            return ("module", tgt[1] if tgt[2] else tgt[1].split(".")[0], None)
    return ("repo", modname, name)
