"""AST interpreter over the symbolic value model (the VC generator of pyvc).

It executes the *real* function bodies extracted from /repo.  Control flow on symbolic conditions
forks through `Engine.branch`; loops over symbolic iteration spaces are cut by the loop contract
of the function's sidecar contract; calls to repository functions go through the callee's contract
(or are inlined when the caller's contract lists the callee under `inline`)."""
import ast
import builtins as pybuiltins
import fractions
import math

import os
import sys

import z3

TRACE = bool(os.environ.get("PYVC_TRACE"))

from . import extract
from .engine import PathEnd
from .values import (
    Infinity,
    NeedsContract,
    Opaque,
    PDict,
    PExc,
    PList,
    PObj,
    PSet,
    PyvcError,
    SBytes,
    SSeq,
    SV,
    arith,
    compare,
    is_scalar,
    is_sym,
    simplify_sv,
    sv_and,
    sv_implies,
    sv_ite,
    sv_not,
    sv_or,
    tobool,
    tonum,
    toz3,
)


# ------------------------------------------------------------------------------ signals
class ReturnSig(Exception):
    def __init__(self, value):
        self.value = value


class BreakSig(Exception):
    pass


class ContinueSig(Exception):
    pass


class SymRaise(Exception):
    """A Python exception raised by the interpreted program."""

    def __init__(self, exc):
        self.exc = exc

    def __str__(self):
        return repr(self.exc)


# ------------------------------------------------------------------------------ callable values
class Env:
    def __init__(self, module, parent=None, vars=None):
        self.module = module  # extract.Module
        self.parent = parent
        self.vars = {} if vars is None else vars
        self.nonlocals = set()
        self.globals_ = set()

    def lookup(self, name):
        e = self
        while e is not None:
            if name in e.vars:
                return e.vars[name]
            e = e.parent
        raise KeyError(name)

    def has(self, name):
        e = self
        while e is not None:
            if name in e.vars:
                return True
            e = e.parent
        return False

    def assign(self, name, value):
        if name in self.nonlocals:
            e = self.parent
            while e is not None:
                if name in e.vars:
                    e.vars[name] = value
                    return
                e = e.parent
            raise PyvcError(f"nonlocal {name} not found")
        if name in self.globals_:
            e = self
            while e.parent is not None:
                e = e.parent
            e.vars[name] = value
            return
        self.vars[name] = value


class FuncVal:
    """A function whose body is an AST from the repository (or a lambda / nested def)."""

    def __init__(self, node, module, closure=None, qualname=None, owner=None):
        self.node = node
        self.module = module
        self.closure = closure
        self.qualname = qualname  # "module:Qual.name" when it is a named repository function
        self.owner = owner  # ClassVal for methods
        self.name = getattr(node, "name", "<lambda>")
        self.decorators = [ast.unparse(d) for d in getattr(node, "decorator_list", [])]

    def __repr__(self):
        return f"<func {self.qualname or self.name}>"


class BoundMethod:
    def __init__(self, func, self_obj):
        self.func = func
        self.self_obj = self_obj

    def __repr__(self):
        return f"<bound {self.func} of {self.self_obj}>"


class ClassVal:
    """A class defined in the repository, known through its AST."""

    _cache = {}

    def __init__(self, modname, node):
        self.modname = modname
        self.node = node
        self.name = node.name
        self.full = f"{modname}:{node.name}"

    @classmethod
    def get(cls, modname, node):
        key = (modname, node.name, node.lineno)
        c = cls._cache.get(key)
        if c is None:
            c = cls._cache[key] = ClassVal(modname, node)
        return c

    def __repr__(self):
        return f"<class {self.full}>"


class BuiltinFn:
    def __init__(self, name, fn):
        self.name = name
        self.fn = fn

    def __repr__(self):
        return f"<builtin {self.name}>"


class ModuleVal:
    def __init__(self, name):
        self.name = name

    def __repr__(self):
        return f"<module {self.name}>"


class SpecFn:
    """A native Python callable supplied by a contract file (spec function / ghost helper)."""

    def __init__(self, fn, name=None, needs_interp=False):
        self.fn = fn
        self.name = name or getattr(fn, "__name__", "spec")
        self.needs_interp = needs_interp


BUILTIN_EXC = {
    n: getattr(pybuiltins, n)
    for n in dir(pybuiltins)
    if isinstance(getattr(pybuiltins, n), type) and issubclass(getattr(pybuiltins, n), BaseException)
}


def _module_scope_bindings(module):
    """Names that may be bound at module scope by anything the extractor's index does not cover (loop targets,
    `global` declarations, with/except targets, star imports -> '*' makes every name possibly bound)."""
    cached = getattr(module, "_scope_bindings", None)
    if cached is not None:
        return cached
    names = set()

    class AnyName(set):
        def __contains__(self, item):
            return True

    star = False

    def visit(n, module_scope):
        nonlocal star
        for c in ast.iter_child_nodes(n):
            if isinstance(c, ast.Global):
                names.update(c.names)
            if isinstance(c, ast.ImportFrom) and any(a.name == "*" for a in c.names):
                star = True
            inner = module_scope and not isinstance(c, (ast.FunctionDef, ast.AsyncFunctionDef, ast.Lambda, ast.ClassDef, ast.ListComp, ast.SetComp, ast.DictComp, ast.GeneratorExp))
            if inner and isinstance(c, ast.Name) and isinstance(c.ctx, (ast.Store, ast.Del)):
                names.add(c.id)
            if inner and isinstance(c, ast.ExceptHandler) and c.name:
                names.add(c.name)
            if inner and isinstance(c, ast.alias):
                names.add((c.asname or c.name).split(".")[0])
            visit(c, inner)

    visit(module.tree, True)
    module._scope_bindings = AnyName() if star else names
    return module._scope_bindings


_LOOP_ORDINALS_CACHE = {}  # id(node) -> (node, result); the result is a pure function of the AST node


def loop_ordinals(fnode):
    """Number the loops of a function body in source order (nested defs excluded)."""
    cached = _LOOP_ORDINALS_CACHE.get(id(fnode))
    if cached is not None and cached[0] is fnode:
        return cached[1]
    out = {}
    counter = [0]

    def visit(n):
        for child in ast.iter_child_nodes(n):
            if isinstance(child, (ast.FunctionDef, ast.AsyncFunctionDef, ast.Lambda, ast.ClassDef)):
                continue
            if isinstance(child, (ast.For, ast.While)):
                counter[0] += 1
                out[id(child)] = counter[0]
            visit(child)

    visit(fnode)
    _LOOP_ORDINALS_CACHE[id(fnode)] = (fnode, out)
    return out


def assigned_names(stmts):
    """Names (re)bound by a list of statements (for loop havoc)."""
    names = set()

    class V(ast.NodeVisitor):
        def visit_Name(self, n):
            if isinstance(n.ctx, (ast.Store, ast.Del)):
                names.add(n.id)

        def visit_FunctionDef(self, n):
            names.add(n.name)

        def visit_Lambda(self, n):
            pass

        def visit_ListComp(self, n):
            pass

        visit_SetComp = visit_DictComp = visit_GeneratorExp = visit_ListComp

    for s in stmts:
        V().visit(s)
    return names


class Frame:
    def __init__(self, func, contract=None):
        self.func = func
        self.contract = contract
        self.loops = loop_ordinals(func.node) if isinstance(func.node, (ast.FunctionDef, ast.AsyncFunctionDef)) else {}
        self.yielded = None


class Interp:
    def __init__(self, engine, registry):
        self.eng = engine
        self.registry = registry
        self.spec_depth = 0
        self.frames = []
        self.call_depth = 0
        from . import builtins_model

        self.bm = builtins_model
        self.builtins = builtins_model.make_builtins(self)
        self.modules = builtins_model.make_modules(self)
        self.lineno = None

    # ---------------------------------------------------------------- helpers
    @property
    def in_spec(self):
        return self.spec_depth > 0

    def raise_(self, cls, *args):
        if isinstance(cls, str):
            cls = BUILTIN_EXC[cls]
        raise SymRaise(PExc(cls, args))

    def truth(self, v):
        """Python truthiness -> python bool or z3 Bool."""
        if v is None:
            return False
        if isinstance(v, bool):
            return v
        if isinstance(v, SV):
            return tobool(v)
        if isinstance(v, (int, float, fractions.Fraction)):
            return v != 0
        if isinstance(v, str):
            return len(v) > 0
        if isinstance(v, (tuple, list)):
            return len(v) > 0
        if isinstance(v, PList):
            return len(v.items) > 0
        if isinstance(v, PSet):
            return len(v.items) > 0
        if isinstance(v, PDict):
            return len(v.keys) > 0
        if isinstance(v, (SBytes, SSeq)):
            ln = v.length
            if isinstance(ln, int):
                return ln > 0
            return tobool(compare(">", ln, 0))
        if isinstance(v, bytes):
            return len(v) > 0
        if isinstance(v, Infinity):
            return True
        if isinstance(v, PObj):
            r = self.bm.object_truth(self, v)
            return r
        return True

    def decide(self, v):
        """Truthiness with forking."""
        t = self.truth(v)
        if isinstance(t, bool):
            return t
        if self.in_spec:
            raise PyvcError("control flow on a symbolic value inside a specification expression")
        return self.eng.branch(t)

    # ---------------------------------------------------------------- name resolution
    def resolve_global(self, module, name):
        kind, mod, nm = extract.resolve_name(module.name, name)
        if (
            kind == "builtin"
            and not self.in_spec
            and self.frames
            and not name.startswith("_")
            and name not in self.builtins
            and name not in BUILTIN_EXC
            and not hasattr(pybuiltins, name)
            and name not in _module_scope_bindings(module)
        ):
            # a name bound nowhere (no local, no module-level binding, no star import, not a builtin): Python raises NameError
            self.raise_("NameError", f"name {name!r} is not defined")
        return self._materialize(kind, mod, nm, name)

    def _materialize(self, kind, mod, nm, origname):
        if kind == "repo":
            m = extract.get_module(mod)
            node = m.top[nm]
            if isinstance(node, (ast.FunctionDef, ast.AsyncFunctionDef)):
                return FuncVal(node, m, None, f"{mod}:{nm}")
            if isinstance(node, ast.ClassDef):
                return ClassVal.get(mod, node)
            if isinstance(node, (ast.Assign, ast.AnnAssign)):
                key = ("const", mod, nm)
                ov = self.registry.global_overrides.get(f"{mod}:{nm}")
                if ov is not None:
                    return ov(self) if callable(ov) and not isinstance(ov, SpecFn) else ov
                return self._module_constant(m, node, nm)
        if kind == "module":
            xm = getattr(self.registry, "extra_modules", None)
            if xm and mod.split(".")[0] in xm:
                cur = xm[mod.split(".")[0]]
                for part in mod.split(".")[1:]:
                    cur = self.get_attr(cur, part)
                return cur
            if mod in self.modules:
                return self.modules[mod]
            top = mod.split(".")[0]
            if top in self.modules and mod == top:
                return self.modules[top]
            try:
                extract.get_module(mod)
                return ModuleVal(mod)
            except extract.ExtractionError:
                return ModuleVal(mod)
        if kind == "builtin":
            if origname in self.builtins:
                return self.builtins[origname]
            if origname in BUILTIN_EXC:
                return BUILTIN_EXC[origname]
            raise PyvcError(f"unknown name {origname!r}")
        if kind == "ext":
            key = f"{mod}.{nm}"
            if key in self.bm.EXTERNAL:
                return self.bm.EXTERNAL[key](self)
            if mod in self.modules:
                return self.get_attr(self.modules[mod], nm)
            raise NeedsContract(f"external name {key} has no library contract")
        raise PyvcError(f"cannot resolve {origname}")

    def _module_constant(self, m, node, nm):
        value = node.value
        if value is None:
            raise PyvcError(f"module constant {nm} has no value")
        env = Env(m)
        if isinstance(node, ast.Assign) and isinstance(node.targets[0], ast.Tuple):
            vals = self.eval(value, env)
            for t, v in zip(node.targets[0].elts, vals):
                if isinstance(t, ast.Name) and t.id == nm:
                    return v
        return self.eval(value, env)

    def lookup_name(self, name, env):
        try:
            return env.lookup(name)
        except KeyError:
            pass
        fr = self.frames[-1] if self.frames else None
        if fr is not None and fr.contract is not None and name in fr.contract.env:
            v = fr.contract.env[name]
            return v
        if name in self.registry.spec_env:
            return self.registry.spec_env[name]
        return self.resolve_global(env.module, name)

    # ---------------------------------------------------------------- statements
    def exec_block(self, stmts, env):
        for s in stmts:
            self.exec_stmt(s, env)

    def exec_stmt(self, s, env):
        self.lineno = getattr(s, "lineno", self.lineno)
        if TRACE:
            print("  " * len(self.frames), "L%s %s" % (self.lineno, type(s).__name__), file=sys.stderr)
        m = getattr(self, "st_" + type(s).__name__, None)
        if m is None:
            raise PyvcError(f"statement {type(s).__name__} outside the accepted subset (line {s.lineno})")
        return m(s, env)

    def st_Expr(self, s, env):
        if isinstance(s.value, ast.Constant) and isinstance(s.value.value, str):
            return  # docstring
        self.eval(s.value, env)

    def st_Pass(self, s, env):
        pass

    def st_Continue(self, s, env):
        raise ContinueSig()

    def st_Break(self, s, env):
        raise BreakSig()

    def st_Global(self, s, env):
        env.globals_.update(s.names)

    def st_Nonlocal(self, s, env):
        env.nonlocals.update(s.names)

    def st_Import(self, s, env):
        for a in s.names:
            top = a.name.split(".")[0]
            env.assign(a.asname or top, self._materialize("module", a.name if a.asname else top, None, top))

    def st_ImportFrom(self, s, env):
        for a in s.names:
            mod = s.module or ""
            if s.level:
                parts = env.module.name.split(".")
                if not env.module.path.endswith("__init__.py"):
                    parts = parts[:-1]
                if s.level > 1:
                    parts = parts[: -(s.level - 1)]
                mod = ".".join(parts + ([mod] if mod else []))
            try:
                extract.get_module(mod)
                kind, m2, nm = extract.resolve_name(mod, a.name)
                if kind == "builtin":  # not defined there: maybe a submodule
                    val = self._materialize("module", mod + "." + a.name, None, a.name)
                else:
                    val = self._materialize(kind, m2, nm, a.name)
            except extract.ExtractionError:
                val = self._materialize("ext", mod, a.name, a.name)
            env.assign(a.asname or a.name, val)

    def st_Assign(self, s, env):
        v = self.eval(s.value, env)
        for t in s.targets:
            self.assign_target(t, v, env)

    def st_AnnAssign(self, s, env):
        if s.value is not None:
            self.assign_target(s.target, self.eval(s.value, env), env)

    def st_AugAssign(self, s, env):
        cur = self.eval(self._load(s.target), env)
        rhs = self.eval(s.value, env)
        if isinstance(cur, PList) and isinstance(s.op, ast.Add):
            cur.items.extend(self.iterate(rhs))
            return
        if isinstance(cur, PSet) and isinstance(s.op, ast.BitOr):
            for it in self.iterate(rhs):
                cur.add(it)
            return
        v = self.binop(s.op, cur, rhs)
        self.assign_target(s.target, v, env)

    def _load(self, t):
        t2 = ast.copy_location(type(t)(**{f: getattr(t, f) for f in t._fields}), t)
        t2.ctx = ast.Load()
        return t2

    def assign_target(self, t, v, env):
        if isinstance(t, ast.Name):
            env.assign(t.id, v)
        elif isinstance(t, (ast.Tuple, ast.List)):
            items = self.iterate(v)
            star = [i for i, e in enumerate(t.elts) if isinstance(e, ast.Starred)]
            if star:
                i = star[0]
                n_after = len(t.elts) - i - 1
                if len(items) < len(t.elts) - 1:
                    self.raise_("ValueError", "not enough values to unpack")
                for e, x in zip(t.elts[:i], items[:i]):
                    self.assign_target(e, x, env)
                self.assign_target(t.elts[i].value, PList(items[i : len(items) - n_after]), env)
                for e, x in zip(t.elts[i + 1 :], items[len(items) - n_after :]):
                    self.assign_target(e, x, env)
            else:
                if len(items) != len(t.elts):
                    self.raise_("ValueError", "unpack length mismatch")
                for e, x in zip(t.elts, items):
                    self.assign_target(e, x, env)
        elif isinstance(t, ast.Attribute):
            obj = self.eval(t.value, env)
            self.set_attr(obj, t.attr, v)
        elif isinstance(t, ast.Subscript):
            obj = self.eval(t.value, env)
            idx = self.eval_index(t.slice, env)
            self.bm.set_item(self, obj, idx, v)
        else:
            raise PyvcError(f"assignment target {type(t).__name__} unsupported")

    def st_Delete(self, s, env):
        for t in s.targets:
            if isinstance(t, ast.Subscript):
                obj = self.eval(t.value, env)
                idx = self.eval_index(t.slice, env)
                self.bm.del_item(self, obj, idx)
            elif isinstance(t, ast.Name):
                env.vars.pop(t.id, None)
            elif isinstance(t, ast.Attribute):
                obj = self.eval(t.value, env)
                self.bm.del_attr(self, obj, t.attr)
            else:
                raise PyvcError("del target unsupported")

    def st_Return(self, s, env):
        raise ReturnSig(None if s.value is None else self.eval(s.value, env))

    def st_If(self, s, env):
        if self.decide(self.eval(s.test, env)):
            self.exec_block(s.body, env)
        else:
            self.exec_block(s.orelse, env)

    def st_Assert(self, s, env):
        c = self.eval(s.test, env)
        t = self.truth(c)
        fr = self.frames[-1]
        mode = fr.contract.assert_mode if fr.contract is not None else "raise"
        if mode == "prove":
            # the assertion must be unreachable-as-failure: an obligation
            name = f"{fr.contract.short}#assert[{self._assert_ordinal(fr, s)}]"
            self.eng.check(name, t if not isinstance(t, bool) else t, line=s.lineno, kind="assert")
            self.eng.assume(t)
        else:
            if not self.decide(c):
                msg = () if s.msg is None else ("assertion",)
                self.raise_("AssertionError", *msg)

    def _assert_ordinal(self, fr, s):
        if not hasattr(fr, "asserts"):
            fr.asserts = {}
            k = 0
            for n in ast.walk(fr.func.node):
                if isinstance(n, ast.Assert):
                    k += 1
                    fr.asserts[id(n)] = k
        return fr.asserts.get(id(s), 0)

    def _relline(self, s):
        fr = self.frames[-1]
        base = getattr(fr.func.node, "lineno", 0)
        return s.lineno - base

    def st_Raise(self, s, env):
        if s.exc is None:
            cur = getattr(self, "_handling", None)
            if cur is None:
                raise PyvcError("bare raise outside handler")
            raise SymRaise(cur)
        e = self.eval(s.exc, env)
        if isinstance(e, (ClassVal, type)):
            e = self.instantiate_exception(e, [])
        if not isinstance(e, PExc):
            raise PyvcError(f"raise of non-exception {e!r}")
        if s.cause is not None:
            e.cause = self.eval(s.cause, env)
        raise SymRaise(e)

    # real implementation of Try with finally, replacing the above when finalbody exists
    def st_Try(self, s, env):
        def body_and_handlers():
            try:
                self.exec_block(s.body, env)
            except SymRaise as sr:
                for h in s.handlers:
                    if h.type is None or self.exc_matches(sr.exc, self.eval(h.type, env)):
                        if h.name:
                            env.assign(h.name, sr.exc)
                        prev = getattr(self, "_handling", None)
                        self._handling = sr.exc
                        try:
                            self.exec_block(h.body, env)
                        finally:
                            self._handling = prev
                        return
                raise
            else:
                self.exec_block(s.orelse, env)

        if not s.finalbody:
            return body_and_handlers()
        try:
            body_and_handlers()
        except (SymRaise, ReturnSig, BreakSig, ContinueSig):
            self.exec_block(s.finalbody, env)
            raise
        else:
            self.exec_block(s.finalbody, env)

    st_TryStar = None

    def st_With(self, s, env):
        # context managers: evaluate __enter__/__exit__ through the object model
        mgrs = []
        for item in s.items:
            cm = self.eval(item.context_expr, env)
            val = self.bm.cm_enter(self, cm)
            mgrs.append(cm)
            if item.optional_vars is not None:
                self.assign_target(item.optional_vars, val, env)
        try:
            self.exec_block(s.body, env)
        except SymRaise as sr:
            suppressed = False
            for cm in reversed(mgrs):
                if self.bm.cm_exit(self, cm, sr.exc):
                    suppressed = True
                    break
            if not suppressed:
                raise
        except (ReturnSig, BreakSig, ContinueSig):
            for cm in reversed(mgrs):
                self.bm.cm_exit(self, cm, None)
            raise
        else:
            for cm in reversed(mgrs):
                self.bm.cm_exit(self, cm, None)

    def st_FunctionDef(self, s, env):
        f = FuncVal(s, env.module, env, None)
        fr = self.frames[-1] if self.frames else None
        if fr is not None and fr.func.qualname:
            f.qualname = fr.func.qualname + "." + s.name
        env.assign(s.name, f)

    def st_ClassDef(self, s, env):
        raise PyvcError("local class definitions are outside the accepted subset")

    # ---- loops
    def st_While(self, s, env):
        fr = self.frames[-1]
        spec = self._loop_spec(fr, s)
        if spec is not None:
            return self._cut_loop(s, env, spec, None)
        n = 0
        total = 0
        bound = self._unroll_bound(fr)
        while True:
            c = self.eval(s.test, env)
            t = self.truth(c)
            total += 1
            if not isinstance(t, bool):
                n += 1
                if bound == 0:
                    raise PyvcError(
                        f"while loop at line {s.lineno} has a symbolic guard and no loop contract (invariant needed)"
                    )
            if (bound and total > bound) or total > 5000:
                if not bound:
                    raise PyvcError(f"while loop at line {s.lineno} did not finish within 5000 concrete iterations")
                # every path must leave the loop within `bound` iterations (complete when it passes: all
                # paths are explored symbolically); reaching this point is a termination failure
                self.eng.check(
                    f"{fr.contract.short}#terminates[loop{fr.loops.get(id(s), 0)}].within_{bound}_iterations",
                    False,
                    line=s.lineno,
                    kind="termination",
                    detail=f"a path stays in the loop for more than {bound} iterations",
                )
                raise PathEnd()
            if not self.decide(c):
                self.exec_block(s.orelse, env)
                return
            try:
                self.exec_block(s.body, env)
            except BreakSig:
                return
            except ContinueSig:
                continue

    def _unroll_bound(self, fr):
        c = fr.contract
        return c.unroll if c is not None and c.unroll else 0

    def _loop_spec(self, fr, s):
        if fr.contract is None:
            return None
        ordinal = fr.loops.get(id(s))
        return fr.contract.loops.get(ordinal)

    def st_For(self, s, env):
        fr = self.frames[-1]
        spec = self._loop_spec(fr, s)
        it = self.eval(s.iter, env)
        if spec is not None:
            return self._cut_loop(s, env, spec, it)
        items = self.iterate(it, allow_symbolic=False, lineno=s.lineno)
        for x in items:
            self.assign_target(s.target, x, env)
            try:
                self.exec_block(s.body, env)
            except BreakSig:
                return
            except ContinueSig:
                continue
        self.exec_block(s.orelse, env)

    def _cut_loop(self, s, env, spec, it):
        """Loop cut by its contract (invariant / decreases / modifies)."""
        fr = self.frames[-1]
        eng = self.eng
        ordinal = fr.loops[id(s)]
        cname = fr.contract.short
        is_for = isinstance(s, ast.For)
        if is_for:
            seq = self.bm.as_indexable(self, it)
            n = seq.length
        specenv = Env(env.module, env)

        def check_inv(idx, phase):
            if is_for:
                specenv.vars["_i"] = idx
                specenv.vars["_seq"] = seq
            for nm, clause in spec.invariants.items():
                val = self.eval_spec(clause, specenv)
                eng.check(f"{cname}#invariant[{ordinal}].{nm}:{phase}", val, line=s.lineno, kind="invariant")

        def assume_inv(idx):
            if is_for:
                specenv.vars["_i"] = idx
                specenv.vars["_seq"] = seq
            for nm, clause in spec.invariants.items():
                eng.assume(self.eval_spec(clause, specenv))

        # snapshot for `entry(...)` references in invariants
        specenv.vars["_entry"] = self.bm.snapshot_env(self, env)
        check_inv(0, "entry")
        # havoc
        modified = spec.modifies if spec.modifies is not None else {n_: None for n_ in assigned_names(s.body)}
        elem_maps = {}
        for name in modified:
            try:
                cur = env.lookup(name)
            except KeyError:
                continue
            if isinstance(cur, SSeq):
                elem_maps[name] = (cur, cur.elem)
        for name, typ in modified.items():
            if is_for and isinstance(s.target, ast.Name) and name == s.target.id:
                continue
            if typ is None:
                try:
                    cur = env.lookup(name)
                except KeyError:
                    continue
                newv = self.bm.havoc_like(self, cur, name)
            else:
                newv = typ.fresh(eng, name + "@loop%d" % ordinal) if not callable(typ) or hasattr(typ, "fresh") else typ(self, env)
            if "." in name:
                base, attr = name.split(".", 1)
                self.set_attr(env.lookup(base), attr, newv)
            else:
                env.assign(name, newv)
        if is_for:
            idx = eng.fresh_int("_i%d" % ordinal)
            eng.assume(sv_and(compare("<=", 0, idx), compare("<=", idx, n)))
        else:
            idx = None
        assume_inv(idx)
        if not eng.feasible(z3.BoolVal(True)):
            raise PathEnd()
        # guard
        if is_for:
            go = eng.branch(tobool(compare("<", idx, n)))
        else:
            go = self.decide(self.eval(s.test, env))
        if not go:
            self.exec_block(s.orelse, env)
            return
        measure0 = None
        if spec.decreases is not None:
            measure0 = self.eval_spec(spec.decreases, specenv)
        if is_for:
            self.assign_target(s.target, seq.elem(idx), env)
        try:
            self.exec_block(s.body, env)
        except BreakSig:
            return  # continue after the loop with the current state
        except ContinueSig:
            pass
        for name, (seqobj, elem0) in elem_maps.items():
            if env.lookup(name) is not seqobj or seqobj.elem is not elem0:
                raise PyvcError(f"loop {ordinal} rebinds or reorders list {name}: its loop contract must give a type for it")
        check_inv(arith("+", idx, 1) if is_for else None, "preserved")
        if measure0 is not None:
            m1 = self.eval_spec(spec.decreases, specenv)
            eng.check(
                f"{cname}#decreases[{ordinal}]",
                sv_and(compare(">=", measure0, 0), compare("<", m1, measure0)),
                line=s.lineno,
                kind="decreases",
            )
        raise PathEnd()

    # ---------------------------------------------------------------- expressions
    def eval_spec(self, clause, env):
        """Evaluate a specification clause (string, AST or python callable) to a scalar."""
        self.spec_depth += 1
        try:
            if callable(clause) and not isinstance(clause, (str, ast.AST)):
                return clause(SpecCtx(self, env))
            if isinstance(clause, str):
                node = self.registry.parse_clause(clause)
            else:
                node = clause
            return self.eval(node, env)
        finally:
            self.spec_depth -= 1

    def eval(self, node, env):
        m = getattr(self, "ex_" + type(node).__name__, None)
        if m is None:
            raise PyvcError(f"expression {type(node).__name__} outside the accepted subset (line {getattr(node,'lineno','?')})")
        return m(node, env)

    def ex_Constant(self, n, env):
        return n.value

    def ex_Name(self, n, env):
        return self.lookup_name(n.id, env)

    def ex_NamedExpr(self, n, env):
        v = self.eval(n.value, env)
        env.assign(n.target.id, v)
        return v

    def ex_Tuple(self, n, env):
        out = []
        for e in n.elts:
            if isinstance(e, ast.Starred):
                out.extend(self.iterate(self.eval(e.value, env)))
            else:
                out.append(self.eval(e, env))
        return tuple(out)

    def ex_List(self, n, env):
        return PList(self.ex_Tuple(n, env))

    def ex_Set(self, n, env):
        return PSet(self.ex_Tuple(n, env))

    def ex_Dict(self, n, env):
        d = PDict()
        for k, v in zip(n.keys, n.values):
            if k is None:
                other = self.eval(v, env)
                for kk, vv in zip(other.keys, other.vals):
                    d.set(kk, vv)
            else:
                d.set(self.eval(k, env), self.eval(v, env))
        return d

    def ex_JoinedStr(self, n, env):
        # f-strings occur in messages only: opaque text (unless a contract module installs `registry.fstring_hook`,
        # models_dyn: generated identifier names in the compiler)
        h = getattr(self.registry, "fstring_hook", None)
        if h is not None:
            return h(self, n, env)
        return "<fstring>"

    def ex_FormattedValue(self, n, env):
        return "<fmt>"

    def ex_Lambda(self, n, env):
        return FuncVal(n, env.module, env, None)

    def ex_IfExp(self, n, env):
        c = self.eval(n.test, env)
        t = self.truth(c)
        if isinstance(t, bool):
            return self.eval(n.body if t else n.orelse, env)
        if self.in_spec:
            a = self.eval(n.body, env)
            b = self.eval(n.orelse, env)
            return sv_ite(t, a, b)
        if self.eng.branch(t):
            return self.eval(n.body, env)
        return self.eval(n.orelse, env)

    def ex_BoolOp(self, n, env):
        is_and = isinstance(n.op, ast.And)
        if self.in_spec:
            vals = [self.eval(v, env) for v in n.values]
            ts = [self.truth(v) for v in vals]
            if all(isinstance(t, bool) for t in ts):
                return all(ts) if is_and else any(ts)
            return sv_and(*ts) if is_and else sv_or(*ts)
        val = None
        for v in n.values:
            val = self.eval(v, env)
            t = self.truth(val)
            if isinstance(t, bool):
                d = t
            else:
                d = self.eng.branch(t)
            if is_and and not d:
                return val
            if not is_and and d:
                return val
        return val

    def ex_UnaryOp(self, n, env):
        v = self.eval(n.operand, env)
        if isinstance(n.op, ast.Not):
            t = self.truth(v)
            if isinstance(t, bool):
                return not t
            return sv_not(t)
        if isinstance(n.op, ast.USub):
            if isinstance(v, Infinity):
                return Infinity(-v.sign)
            if is_scalar(v):
                return arith("-", 0, v)
            return self.bm.unary_object(self, "__neg__", v)
        if isinstance(n.op, ast.UAdd):
            return v
        if isinstance(n.op, ast.Invert):
            if isinstance(v, SV) and z3.is_bool(v.e):
                return sv_not(v)
            if isinstance(v, PObj):  # user-defined __invert__ (rv_ltl.B4, C11)
                return self.bm.unary_object(self, "__invert__", v)
        raise PyvcError("unary operator unsupported")

    BINOPS = {
        ast.Add: "+",
        ast.Sub: "-",
        ast.Mult: "*",
        ast.Div: "/",
        ast.FloorDiv: "//",
        ast.Mod: "%",
        ast.Pow: "**",
    }

    def ex_BinOp(self, n, env):
        a = self.eval(n.left, env)
        b = self.eval(n.right, env)
        return self.binop(n.op, a, b)

    def binop(self, op, a, b):
        sym = self.BINOPS.get(type(op))
        if (is_scalar(a) or isinstance(a, Infinity)) and (is_scalar(b) or isinstance(b, Infinity)) and sym:
            if sym in ("/", "//", "%"):
                zero = compare("==", b, 0) if not isinstance(b, Infinity) else False
                if self.in_spec:
                    pass
                elif self.decide(zero):
                    self.raise_("ZeroDivisionError", "division by zero")
            if sym == "**" and not (isinstance(b, int)):
                return self.bm.power(self, a, b)
            return arith(sym, a, b)
        return self.bm.binop_object(self, op, sym, a, b)

    CMPOPS = {ast.Lt: "<", ast.LtE: "<=", ast.Gt: ">", ast.GtE: ">=", ast.Eq: "==", ast.NotEq: "!="}

    def ex_Compare(self, n, env):
        left = self.eval(n.left, env)
        result = True
        acc = []
        for op, rn in zip(n.ops, n.comparators):
            right = self.eval(rn, env)
            r = self.compare_values(op, left, right)
            if len(n.ops) == 1 and getattr(r, "elementwise", False):
                return r  # array-valued comparison produced by a library model (numpy: `arr > 0`)
            t = self.truth(r) if not isinstance(r, (bool, SV)) else r
            if isinstance(t, bool):
                if not t:
                    return False
            else:
                if self.in_spec or len(n.ops) == 1:
                    acc.append(t)
                else:
                    if not self.eng.branch(tobool(t)):
                        return False
            left = right
        if not acc:
            return True
        return sv_and(*acc) if len(acc) > 1 else (acc[0] if isinstance(acc[0], SV) else simplify_sv(tobool(acc[0])))

    def compare_values(self, op, a, b):
        if isinstance(op, ast.Is):
            return self.bm.identical(self, a, b)
        if isinstance(op, ast.IsNot):
            r = self.bm.identical(self, a, b)
            return (not r) if isinstance(r, bool) else sv_not(r)
        if isinstance(op, ast.In):
            return self.bm.contains(self, b, a)
        if isinstance(op, ast.NotIn):
            r = self.bm.contains(self, b, a)
            return (not r) if isinstance(r, bool) else sv_not(r)
        sym = self.CMPOPS[type(op)]
        if (is_scalar(a) or isinstance(a, Infinity)) and (is_scalar(b) or isinstance(b, Infinity)):
            return compare(sym, a, b)
        return self.bm.compare_object(self, sym, a, b)

    def ex_Attribute(self, n, env):
        obj = self.eval(n.value, env)
        return self.get_attr(obj, n.attr)

    def eval_index(self, sl, env):
        if isinstance(sl, ast.Slice):
            return slice(
                None if sl.lower is None else self.eval(sl.lower, env),
                None if sl.upper is None else self.eval(sl.upper, env),
                None if sl.step is None else self.eval(sl.step, env),
            )
        return self.eval(sl, env)

    def ex_Slice(self, n, env):
        # a slice inside a tuple index (numpy style `a[i, :]`)
        return self.eval_index(n, env)

    def ex_Subscript(self, n, env):
        obj = self.eval(n.value, env)
        idx = self.eval_index(n.slice, env)
        return self.bm.get_item(self, obj, idx)

    def ex_Starred(self, n, env):
        raise PyvcError("starred expression in unsupported position")

    def _comp(self, n, env, emit):
        def rec(gi, e):
            if gi == len(n.generators):
                emit(e)
                return
            g = n.generators[gi]
            for x in self.iterate(self.eval(g.iter, e)):
                e2 = Env(e.module, e)
                self.assign_target(g.target, x, e2)
                ok = True
                for cond in g.ifs:
                    if not self.decide(self.eval(cond, e2)):
                        ok = False
                        break
                if ok:
                    rec(gi + 1, e2)

        rec(0, env)

    def _symbolic_comp(self, n, env):
        """Filter comprehension over a symbolic-length sequence: [x for x in S if c(x)]."""
        if len(n.generators) != 1:
            return None
        g = n.generators[0]
        src = self.eval(g.iter, env)
        if not (isinstance(src, SSeq) and not isinstance(src.length, int)):
            return ("concrete", src)
        if not (isinstance(g.target, ast.Name) and isinstance(n.elt, ast.Name) and n.elt.id == g.target.id):
            raise PyvcError(f"comprehension over a symbolic sequence must be a pure filter (line {n.lineno})")

        def cond(x):
            e2 = Env(env.module, env)
            e2.vars[g.target.id] = x
            vals = [self.truth(self.eval(c, e2)) for c in g.ifs]
            return sv_and(*vals) if vals else True

        return ("symbolic", self.bm.symbolic_filter(self, src, cond))

    def ex_ListComp(self, n, env):
        if len(n.generators) == 1 and not self.in_spec:
            r = self._symbolic_comp(n, env)
            if r is not None and r[0] == "symbolic":
                return r[1]
            if r is not None:
                # source already evaluated: iterate it concretely
                g = n.generators[0]
                out = []
                for x in self.iterate(r[1]):
                    e2 = Env(env.module, env)
                    self.assign_target(g.target, x, e2)
                    if all(self.decide(self.eval(c, e2)) for c in g.ifs):
                        out.append(self.eval(n.elt, e2))
                return PList(out)
        out = []
        self._comp(n, env, lambda e: out.append(self.eval(n.elt, e)))
        return PList(out)

    def ex_SetComp(self, n, env):
        out = []
        self._comp(n, env, lambda e: out.append(self.eval(n.elt, e)))
        return PSet(out)

    def ex_DictComp(self, n, env):
        d = PDict()
        self._comp(n, env, lambda e: d.set(self.eval(n.key, e), self.eval(n.value, e)))
        return d

    def ex_GeneratorExp(self, n, env):
        # evaluated lazily by the consumers all/any/sum/min/max/tuple/list (see builtins_model)
        return GenExp(n, env)

    def ex_Call(self, n, env):
        # special forms of the specification language
        if isinstance(n.func, ast.Name):
            sf = self.bm.SPECIAL_FORMS.get(n.func.id)
            if sf is not None and (self.in_spec or n.func.id in self.bm.ALWAYS_SPECIAL):
                if not env.has(n.func.id):
                    return sf(self, n, env)
        if isinstance(n.func, ast.Name) and n.func.id == "super" and not n.args and not env.has("super"):
            fr = self.frames[-1]
            a0 = fr.func.node.args
            first = (a0.posonlyargs + a0.args)[0].arg
            e0 = env
            while not (first in e0.vars) and e0.parent is not None:
                e0 = e0.parent
            return self.bm.SuperProxy(env.lookup(first), fr.func.owner)
        f = self.eval(n.func, env)
        args = []
        for a in n.args:
            if isinstance(a, ast.Starred):
                args.extend(self.iterate(self.eval(a.value, env)))
            else:
                args.append(self.eval(a, env))
        kwargs = {}
        for k in n.keywords:
            if k.arg is None:
                d = self.eval(k.value, env)
                for kk, vv in zip(d.keys, d.vals):
                    kwargs[kk] = vv
            else:
                kwargs[k.arg] = self.eval(k.value, env)
        self.lineno = getattr(n, "lineno", self.lineno)
        return self.call_value(f, args, kwargs, node=n)

    def ex_Yield(self, n, env):
        v = None if n.value is None else self.eval(n.value, env)
        return self.bm.do_yield(self, v)

    def ex_YieldFrom(self, n, env):
        v = self.eval(n.value, env)
        return self.bm.do_yield_from(self, v)

    def ex_Await(self, n, env):
        raise PyvcError("await unsupported")

    # ---------------------------------------------------------------- calls
    def call_value(self, f, args, kwargs=None, node=None):
        kwargs = kwargs or {}
        if isinstance(f, BuiltinFn):
            return f.fn(*args, **kwargs)
        if isinstance(f, SpecFn):
            if f.needs_interp:
                return f.fn(self, *args, **kwargs)
            return f.fn(*args, **kwargs)
        if isinstance(f, BoundMethod):
            return self.call_function(f.func, [f.self_obj] + list(args), kwargs)
        if isinstance(f, FuncVal):
            return self.call_function(f, list(args), kwargs)
        if isinstance(f, ClassVal):
            return self.instantiate(f, args, kwargs)
        if isinstance(f, type) and issubclass(f, BaseException):
            return self.instantiate_exception(f, args)
        if isinstance(f, PObj):
            call = self.find_method(f.cls, "__call__") if isinstance(f.cls, ClassVal) else None
            if call is not None:
                return self.call_function(call, [f] + list(args), kwargs)
        if callable(f) and not isinstance(f, (PObj, Opaque)):
            return f(*args, **kwargs)
        if isinstance(f, Opaque):
            return self.bm.call_opaque(self, f, args, kwargs)
        raise PyvcError(f"call of {f!r} unsupported")

    def call_function(self, f, args, kwargs):
        """Call a repository function: through its contract unless inlining is requested."""
        caller = self.frames[-1].contract if self.frames else None
        q = f.qualname
        if q is not None:
            # dispatch of an overriding stub/model for this callee
            model = self.registry.models.get(q)
            if model is not None:
                return model(self, *args, **kwargs)
            inline = (caller is not None and caller.inlines(q)) or q in self.registry.always_inline
            contract = self.registry.contracts.get(q)
            if contract is not None and not contract.usable_at_calls():
                contract = None
            if contract is not None and not inline:
                return self.registry.apply_contract(self, contract, f, args, kwargs)
            if not inline and not (caller is not None and caller.inline_all):
                # a contract-less helper of the SAME module as the function under contract is interpreted in place
                # (its real body): an "extract function" refactoring must not turn into a checker error, and a
                # defect moved into such a helper is still seen by the caller's obligations
                same_module = caller is not None and q.split(":")[0] == caller.target.split(":")[0] and "." not in q.split(":", 1)[1]
                if f.closure is None and not same_module:
                    raise NeedsContract(f"call to {q} from {caller.target if caller else '?'}: callee has no contract")
        return self.run_function(f, args, kwargs, None)

    def bind_args(self, f, args, kwargs):
        node = f.node
        a = node.args
        env = Env(f.module, f.closure)
        params = [p.arg for p in a.posonlyargs + a.args]
        defaults = a.defaults
        nd = len(defaults)
        args = list(args)
        kwargs = dict(kwargs)
        for i, p in enumerate(params):
            if i < len(args):
                env.vars[p] = args[i]
            elif p in kwargs:
                env.vars[p] = kwargs.pop(p)
            else:
                di = i - (len(params) - nd)
                if di >= 0:
                    env.vars[p] = self.eval(defaults[di], Env(f.module, f.closure))
                else:
                    self.raise_("TypeError", f"missing argument {p}")
        extra = args[len(params) :]
        if a.vararg:
            env.vars[a.vararg.arg] = tuple(extra)
        elif extra:
            self.raise_("TypeError", "too many positional arguments")
        for p, d in zip(a.kwonlyargs, a.kw_defaults):
            if p.arg in kwargs:
                env.vars[p.arg] = kwargs.pop(p.arg)
            elif d is not None:
                env.vars[p.arg] = self.eval(d, Env(f.module, f.closure))
            else:
                self.raise_("TypeError", f"missing keyword argument {p.arg}")
        if a.kwarg:
            env.vars[a.kwarg.arg] = PDict(list(kwargs.items()))
        elif kwargs:
            self.raise_("TypeError", f"unexpected keyword arguments {list(kwargs)}")
        return env

    def run_function(self, f, args, kwargs, contract):
        """Interpret the body of `f` (the real code) on the given arguments."""
        if self.call_depth > 60:
            raise PyvcError("call depth exceeded (unbounded recursion needs a contract)")
        env = self.bind_args(f, args, kwargs)
        if contract is None and self.frames:
            # inlined callee: inherits inline permissions of the caller, no loop specs
            contract = self.frames[-1].contract.inline_view() if self.frames[-1].contract is not None else None
        if contract is not None and not getattr(contract, "_is_inline_view", False) and "_old" not in env.vars:
            env.vars["_old"] = self.bm.snapshot_env(self, env)  # old(...) in loop invariants = function entry
        fr = Frame(f, contract)
        fr.env = env
        self.frames.append(fr)
        self.call_depth += 1
        try:
            if isinstance(f.node, ast.Lambda):
                return self.eval(f.node.body, env)
            if self.bm.is_generator(f.node):
                return self.bm.make_generator(self, f, env, fr)
            try:
                self.exec_block(f.node.body, env)
            except ReturnSig as r:
                return r.value
            return None
        finally:
            self.call_depth -= 1
            self.frames.pop()

    # ---------------------------------------------------------------- classes and objects
    def class_mro(self, cls):
        """Linearised list of ClassVal / builtin types (depth-first, left to right, deduplicated)."""
        out = []

        def rec(c):
            if c in out:
                return
            out.append(c)
            if isinstance(c, ClassVal):
                for kind, mod, nm in extract.class_bases(c.modname, c.name):
                    if kind == "repo":
                        node = extract.get_module(mod).top.get(nm)
                        if isinstance(node, ast.ClassDef):
                            rec(ClassVal.get(mod, node))
                    elif kind == "builtin" and nm in BUILTIN_EXC:
                        rec(BUILTIN_EXC[nm])
                    elif kind == "builtin" and hasattr(pybuiltins, nm):
                        rec(getattr(pybuiltins, nm))
            elif isinstance(c, type):
                for b in c.__mro__[1:]:
                    if b not in out:
                        out.append(b)

        rec(cls)
        return out

    def is_subclass(self, cls, target):
        if isinstance(target, tuple):
            return any(self.is_subclass(cls, t) for t in target)
        if cls is target:
            return True
        if isinstance(cls, type) and isinstance(target, type):
            return issubclass(cls, target)
        return target in self.class_mro(cls)

    def exc_matches(self, exc, target):
        if isinstance(target, tuple):
            return any(self.exc_matches(exc, t) for t in target)
        return self.is_subclass(exc.cls, target)

    def find_method(self, cls, name):
        for c in self.class_mro(cls):
            if isinstance(c, ClassVal):
                for node in c.node.body:
                    if isinstance(node, (ast.FunctionDef, ast.AsyncFunctionDef)) and node.name == name:
                        return FuncVal(node, extract.get_module(c.modname), None, f"{c.modname}:{c.name}.{name}", c)
        return None

    def find_class_attr(self, cls, name):
        for c in self.class_mro(cls):
            if isinstance(c, ClassVal):
                for node in c.node.body:
                    if isinstance(node, ast.Assign):
                        for t in node.targets:
                            if isinstance(t, ast.Name) and t.id == name:
                                return ("value", self.eval(node.value, Env(extract.get_module(c.modname))))
                    elif isinstance(node, ast.AnnAssign) and isinstance(node.target, ast.Name) and node.target.id == name and node.value is not None:
                        return ("value", self.eval(node.value, Env(extract.get_module(c.modname))))
        return None

    def instantiate_exception(self, cls, args):
        return PExc(cls, args)

    def instantiate(self, cls, args, kwargs):
        mro = self.class_mro(cls)
        if any(isinstance(c, type) and issubclass(c, BaseException) for c in mro):
            init = self.find_method(cls, "__init__")
            e = PExc(cls, args)
            if init is not None:
                # exception constructors only build messages: inlined; their payload is not modelled
                try:
                    self.run_function(init, [e] + list(args), kwargs, None)
                except (PyvcError, SymRaise):
                    pass
            return e
        hook = self.registry.constructors.get(cls.full)
        if hook is not None:
            return hook(self, cls, args, kwargs)
        obj = PObj(cls)
        init = self.find_method(cls, "__init__")
        if init is not None:
            self.call_function(init, [obj] + list(args), kwargs)
        elif args or kwargs:
            self.raise_("TypeError", "object() takes no arguments")
        return obj

    def get_attr(self, obj, name):
        return self.bm.get_attr(self, obj, name)

    def set_attr(self, obj, name, v):
        return self.bm.set_attr(self, obj, name, v)

    # ---------------------------------------------------------------- iteration
    def iterate(self, v, allow_symbolic=False, lineno=None):
        return self.bm.iterate(self, v, lineno=lineno)


class GenExp:
    def __init__(self, node, env):
        self.node = node
        self.env = env
        self.consumed = False


class SpecCtx:
    """Handed to python-callable specification clauses."""

    def __init__(self, interp, env):
        self.interp = interp
        self.env = env
        self.eng = interp.eng

    def __getitem__(self, name):
        return self.interp.lookup_name(name, self.env)

    def __getattr__(self, name):
        try:
            return self.interp.lookup_name(name, self.env)
        except KeyError:
            raise AttributeError(name)

    def old(self, name):
        return self.env.lookup("_old").lookup(name)

    def ev(self, src):
        return self.interp.eval_spec(src, self.env)
