"""Library models for the type-level code of scenic.core.type_support (C05): `typing.get_origin/get_args/Union`,
`inspect.getmro/isabstract`, `issubclass` of repository classes against ABCs, `hasattr` on Python type objects.

Repository classes are `ClassVal`s (known through their AST), Python types are themselves.  A parametrised type whose
arguments are repository classes cannot be built with the real `typing` module, hence `GenAlias`."""
import inspect as _inspect
import typing as _typing

from . import builtins_model as bm
from .interp import BuiltinFn, ClassVal
from .values import PyvcError


class GenAlias:
    """A parametrised type `origin[args]` (origin may be typing.Union) over model classes."""

    def __init__(self, origin, args, label=None):
        self.origin, self.args = origin, tuple(args)
        self.label = label or f"{getattr(origin, '__name__', getattr(origin, 'name', origin))}[{', '.join(type_name(a) for a in args)}]"

    def __repr__(self):
        return self.label


def type_name(t):
    t = norm(t)
    if isinstance(t, ClassVal):
        return t.name
    if isinstance(t, GenAlias):
        return t.label
    if isinstance(t, type):
        return t.__name__
    return repr(t).replace("typing.", "")


def get_origin(t):
    t = norm(t)
    if isinstance(t, GenAlias):
        return t.origin
    if isinstance(t, ClassVal):
        return None
    return _typing.get_origin(t)


def get_args(t):
    t = norm(t)
    if isinstance(t, GenAlias):
        return t.args
    if isinstance(t, ClassVal):
        return ()
    return _typing.get_args(t)


def norm(t):
    """Builtin types appear inside the interpreter as `BuiltinFn` objects carrying `.pytype`."""
    if isinstance(t, BuiltinFn) and hasattr(t, "pytype"):
        return t.pytype
    return t


def is_class(t):
    return isinstance(t, (type, ClassVal))


def install(reg):
    """Registers the models into the registry (chained with whatever is installed already)."""
    xm = getattr(reg, "extra_modules", None) or {}

    class _LazyI:  # modules are created before the interpreter exists: the interpreter is bound by patch_interp
        I = None

    holder = _LazyI()
    reg._types_holder = holder

    def getmro(cls):
        cls = norm(cls)
        if isinstance(cls, ClassVal):
            mro = list(holder.I.class_mro(cls))
            return tuple(mro if object in mro else mro + [object])  # every class ends its MRO with object
        if isinstance(cls, type):
            return _inspect.getmro(cls)
        holder.I.raise_("AttributeError", "__mro__")

    def isabstract(cls):
        cls = norm(cls)
        return _inspect.isabstract(cls) if isinstance(cls, type) else False

    prev_inspect = xm.get("inspect")
    members = dict(getattr(prev_inspect, "attrs", {}) or {}) if prev_inspect is not None else {}
    members.update(getmro=BuiltinFn("inspect.getmro", getmro), isabstract=BuiltinFn("inspect.isabstract", isabstract))
    xm["inspect"] = bm.NativeModule("inspect", members)
    xm["typing"] = bm.NativeModule(
        "typing",
        {"Union": _typing.Union, "get_origin": BuiltinFn("typing.get_origin", get_origin), "get_args": BuiltinFn("typing.get_args", get_args), "Tuple": _typing.Tuple, "List": _typing.List, "Optional": _typing.Optional},
    )
    xm["sys"] = bm.NativeModule("sys", {"stderr": None})
    reg.extra_modules = xm
    bm.EXTERNAL["typing.get_origin"] = lambda I: BuiltinFn("typing.get_origin", get_origin)
    bm.EXTERNAL["typing.get_args"] = lambda I: BuiltinFn("typing.get_args", get_args)

    prev_ga = reg.getattr_fallback

    def getattr_fb(I, obj, name):
        obj = norm(obj)
        if (isinstance(obj, type) or obj is None) and not name.startswith("__"):
            if hasattr(obj, name) and isinstance(obj, type):
                return BuiltinFn(f"{obj.__name__}.{name}", getattr(obj, name))
            I.raise_("AttributeError", name)
        if isinstance(obj, GenAlias):
            I.raise_("AttributeError", name)
        if prev_ga is not None:
            return prev_ga(I, obj, name)
        raise PyvcError(f"attribute {name!r} of {obj!r} not modelled (line {I.lineno})")

    reg.getattr_fallback = getattr_fb


def patch_interp(I):
    """`issubclass` with Python's meaning for repository classes against ABCs (numbers.Real: a repository class is a
    Real iff one of its builtin bases is) and a TypeError when the first argument is not a class."""
    holder = getattr(I.registry, "_types_holder", None)
    if holder is not None:
        holder.I = I
    if getattr(I, "_types_patched", False):
        return
    orig = I.is_subclass

    def is_subclass(cls, target):
        if isinstance(target, tuple):
            return any(is_subclass(cls, t) for t in target)
        cls, target = norm(cls), norm(target)
        if not is_class(cls):
            I.raise_("TypeError", "issubclass() arg 1 must be a class")
        if not is_class(target):
            I.raise_("TypeError", "issubclass() arg 2 must be a class, a tuple of classes, or a union")
        if target is object:
            return True
        if isinstance(cls, ClassVal) and isinstance(target, type):
            return any(isinstance(b, type) and issubclass(b, target) for b in I.class_mro(cls))
        return orig(cls, target)

    I.is_subclass = is_subclass
    I._types_patched = True
