"""Models used by the contracts of the dynamic-simulation properties (C12-C15).

Nothing here is a copy of Scenic code.  There are three kinds of things:

* **module state of `scenic.syntax.veneer`** (`VeneerState`): the list of state components and their initial
  values is extracted MECHANICALLY from the module's AST (names that some function of the module declares
  `global`, module-level names bound to a mutable display, and attributes of other modules that the module's
  functions assign, e.g. `scenic.core.object_types.Point = ...`).  The interpreted functions read and write
  a state vector: reads of `veneer.<name>` from anywhere go through `reg.global_overrides`, functions of the
  module are run with the state vector as their global environment (`global x; x = ...` lands in it).
* **`@contextmanager` generator functions executed structurally** (`structural_cm`): the REAL body is split
  at its single `try: yield ... finally:` statement; `__enter__` runs what precedes the yield, `__exit__`
  runs the matching handler (if an exception arrives) and the `finally` block.  Any other shape is an engine
  error (exit 3), never a silent pass.
* **library models**: `types.GeneratorType` / iterator protocol on model iterators (`ScriptedIterator`),
  `inspect.isgeneratorfunction`, `weakref.ref`, `sys.version_info/gettrace`, and the *set iteration order*
  nondeterminism (`install_set_order`): iterating / `tuple()`-ing / `list()`-ing a set yields an ARBITRARY
  permutation of its elements (one fork per permutation through `Engine.choose`), which is how
  "independent of hash randomisation and memory layout" (C15) becomes checkable.
"""
import ast
import itertools

from . import builtins_model as bm
from . import extract
from .interp import BuiltinFn, ClassVal, Env, FuncVal, ModuleVal, SymRaise
from .values import Opaque, PDict, PExc, PList, PObj, PSet, PyvcError

VENEER = "scenic.syntax.veneer"

bm.LIBRARY_CONTRACTS["L-setorder"] = (
    "iteration over a set/frozenset (for, tuple(), list(), sorted() input, update() source) visits every element exactly once "
    "in an order about which NOTHING is assumed (all permutations are explored); dicts iterate in insertion order"
)
bm.LIBRARY_CONTRACTS["L-iterators"] = (
    "generator objects: isinstance(g, types.GeneratorType); g.send(None) returns the next yielded value or raises "
    "StopIteration carrying the return value; inspect.isgeneratorfunction(f) is true for functions containing yield"
)


# ------------------------------------------------------------------------------------------------
# veneer module state


def _mutable_display(node):
    if isinstance(node, (ast.List, ast.Dict, ast.Set, ast.ListComp, ast.DictComp, ast.SetComp)):
        return True
    return isinstance(node, ast.Call) and isinstance(node.func, ast.Name) and node.func.id in ("set", "dict", "list", "defaultdict")


def veneer_state_names(modname=VENEER):
    """(names, external attributes): mechanical extraction, in order of first appearance in the file."""
    m = extract.get_module(modname)
    names, ext = [], []
    for node in m.tree.body:
        if isinstance(node, ast.Assign) and len(node.targets) == 1 and isinstance(node.targets[0], ast.Name) and _mutable_display(node.value):
            if node.targets[0].id not in names:
                names.append(node.targets[0].id)
    for fn in m.tree.body:
        if not isinstance(fn, (ast.FunctionDef, ast.AsyncFunctionDef)):
            continue
        for n in ast.walk(fn):
            if isinstance(n, ast.Global):
                for nm in n.names:
                    if nm not in names:
                        names.append(nm)
            if isinstance(n, ast.Assign):
                for t in n.targets:
                    if isinstance(t, ast.Attribute):
                        path = _dotted(t)
                        if path is not None and path.split(".")[0] in m.top and isinstance(m.top[path.split(".")[0]], tuple):
                            # attribute of an imported module
                            try:
                                extract.module_path(path.rsplit(".", 1)[0])
                            except extract.ExtractionError:
                                continue
                            if path not in ext:
                                ext.append(path)
    # order of the module-level definitions
    order = {nm: i for i, nm in enumerate(m.top)}
    names.sort(key=lambda nm: order.get(nm, 10**6))
    return names, ext


def _dotted(node):
    parts = []
    while isinstance(node, ast.Attribute):
        parts.append(node.attr)
        node = node.value
    if isinstance(node, ast.Name):
        parts.append(node.id)
        return ".".join(reversed(parts))
    return None


class VeneerState:
    """State vector of the veneer module on the current path."""

    def __init__(self, I, modname=VENEER):
        self.modname = modname
        self.module = extract.get_module(modname)
        self.names, self.ext_names = veneer_state_names(modname)
        self.env = Env(self.module, None, {})
        self.ext = {}
        for nm in self.names:
            self.env.vars[nm] = self.initial(I, nm)
        for path in self.ext_names:
            self.ext[path] = self.initial(I, path)

    def initial(self, I, nm):
        """A fresh copy of the initial value of a component (evaluated from the module-level definition)."""
        if "." in nm:
            mod, attr = nm.rsplit(".", 1)
            kind, m2, n2 = extract.resolve_name(mod, attr)
            return I._materialize(kind, m2, n2, attr)
        tgt = self.module.top.get(nm)
        if isinstance(tgt, tuple):  # imported name (the swapped classes)
            kind, m2, n2 = extract.resolve_name(self.modname, nm)
            return I._materialize(kind, m2, n2, nm)
        if isinstance(tgt, (ast.Assign, ast.AnnAssign)):
            return I._module_constant(self.module, tgt, nm)
        raise PyvcError(f"veneer state component {nm} has no module-level definition")

    def get(self, nm):
        return self.ext[nm] if "." in nm else self.env.vars[nm]

    def set(self, nm, v):
        if "." in nm:
            self.ext[nm] = v
        else:
            self.env.vars[nm] = v

    def all_names(self):
        return list(self.names) + list(self.ext_names)


def current_state(I):
    st = getattr(I, "_veneer_state", None)
    if st is None or getattr(st, "_path", None) is not I.eng.path_notes:
        st = VeneerState(I)
        st._path = I.eng.path_notes  # a fresh list per explored path (Engine.reset_path)
        I._veneer_state = st
    return st


def same_value(I, a, b):
    """Equality of state components: identity for objects/classes, structural for containers, == for scalars."""
    if a is b:
        return True
    if isinstance(a, (PObj, ClassVal, Opaque, FuncVal)) or isinstance(b, (PObj, ClassVal, Opaque, FuncVal)):
        return False
    from .values import is_scalar

    if is_scalar(a) and is_scalar(b):
        return bm.equal_values(I, a, b)
    if type(a) is not type(b) and not (isinstance(a, (int, float)) and isinstance(b, (int, float))):
        return False
    if isinstance(a, PList):
        return len(a.items) == len(b.items) and all(same_value(I, x, y) for x, y in zip(a.items, b.items))
    if isinstance(a, tuple):
        return len(a) == len(b) and all(same_value(I, x, y) for x, y in zip(a, b))
    if isinstance(a, PSet):
        return len(a.items) == len(b.items) and all(any(same_value(I, x, y) for y in b.items) for x in a.items)
    if isinstance(a, PDict):
        return len(a.keys) == len(b.keys) and all(b._find(k) >= 0 and same_value(I, v, b.vals[b._find(k)]) for k, v in zip(a.keys, a.vals))
    r = bm.equal_values(I, a, b)
    return r if isinstance(r, bool) else r


def install_veneer_state(reg, modname=VENEER):
    """Wire the state vector into the registry (idempotent)."""
    if getattr(reg, "_veneer_state_installed", False):
        return
    reg._veneer_state_installed = True
    m = extract.get_module(modname)
    names, ext_names = veneer_state_names(modname)
    for nm in names:
        if isinstance(m.top.get(nm), (ast.Assign, ast.AnnAssign)):
            reg.global_overrides[f"{modname}:{nm}"] = (lambda nm: lambda I: current_state(I).env.vars[nm])(nm)
    # functions of the module that rebind module state run with the state vector as global environment
    for fn in m.tree.body:
        if isinstance(fn, ast.FunctionDef) and any(isinstance(n, ast.Global) for n in ast.walk(fn)):
            q = f"{modname}:{fn.name}"
            if q not in reg.models:
                reg.models[q] = _state_runner(q, fn, m)
    prev_set = reg.setattr_fallback
    prev_get = reg.getattr_fallback

    def setattr_fb(I, obj, name, v):
        if isinstance(obj, ModuleVal) and f"{obj.name}.{name}" in ext_names:
            current_state(I).ext[f"{obj.name}.{name}"] = v
            return None
        if prev_set is not None:
            return prev_set(I, obj, name, v)
        raise PyvcError(f"cannot set attribute {name} on {obj!r}")

    reg.setattr_fallback = setattr_fb
    reg.trust(
        "veneer module state",
        "the module globals of scenic.syntax.veneer are modelled as a state vector extracted mechanically from the module AST "
        f"({len(names)} components + {len(ext_names)} attributes of scenic.core.object_types); functions of the module are the REAL bodies "
        "run with that vector as their global environment; @contextmanager functions are executed structurally (enter = code before "
        "the yield, exit = matching handler + finally block)",
    )


def is_contextmanager(fn):
    return any(ast.unparse(d).split(".")[-1] == "contextmanager" for d in fn.decorator_list)


def _state_runner(q, fn, module):
    def run(I, *args, **kwargs):
        st = current_state(I)
        f = FuncVal(fn, module, st.env, q)
        if is_contextmanager(fn):
            return structural_cm(I, f, list(args), kwargs)
        return I.run_function(f, list(args), kwargs, None)

    return run


def state_function(I, name, modname=VENEER):
    """FuncVal of a module function bound to the current state vector (for contract targets run by hand)."""
    st = current_state(I)
    return FuncVal(st.module.top[name], st.module, st.env, f"{modname}:{name}")


# ------------------------------------------------------------------------------------------------
# @contextmanager functions, structurally


def _split_cm(fn):
    body = [s for s in fn.body if not (isinstance(s, ast.Expr) and isinstance(s.value, ast.Constant) and isinstance(s.value.value, str))]
    if not body or not isinstance(body[-1], ast.Try):
        raise PyvcError(f"contextmanager {fn.name}: expected `...; try: yield ... finally:` as the last statement")
    tr = body[-1]
    if not (len(tr.body) == 1 and isinstance(tr.body[0], ast.Expr) and isinstance(tr.body[0].value, ast.Yield) and not tr.orelse):
        raise PyvcError(f"contextmanager {fn.name}: the try body must be a single `yield`")
    for s in body[:-1]:
        for n in ast.walk(s):
            if isinstance(n, (ast.Yield, ast.YieldFrom)):
                raise PyvcError(f"contextmanager {fn.name}: yield outside the final try statement")
    return body[:-1], tr


def structural_cm(I, f, args, kwargs):
    pre, tr = _split_cm(f.node)
    env = I.bind_args(f, args, kwargs)
    from .interp import Frame

    fr = Frame(f, I.frames[-1].contract.inline_view() if I.frames and I.frames[-1].contract is not None else None)
    fr.env = env

    def in_frame(thunk):
        I.frames.append(fr)
        try:
            return thunk()
        finally:
            I.frames.pop()

    def enter(I_):
        in_frame(lambda: I.exec_block(pre, env))
        y = tr.body[0].value.value
        return None if y is None else in_frame(lambda: I.eval(y, env))

    def exit_(I_, exc):
        def run():
            # exactly Interp.st_Try on a body that raised `exc` (or completed normally)
            swallowed = False
            try:
                if exc is not None:
                    for h in tr.handlers:
                        if h.type is None or I.exc_matches(exc, I.eval(h.type, env)):
                            if h.name:
                                env.assign(h.name, exc)
                            prev = getattr(I, "_handling", None)
                            I._handling = exc
                            try:
                                I.exec_block(h.body, env)
                            finally:
                                I._handling = prev
                            swallowed = True  # handler completed normally: exception swallowed
                            break
            except SymRaise:
                I.exec_block(tr.finalbody, env)
                raise
            I.exec_block(tr.finalbody, env)
            return swallowed

        return in_frame(run)

    return bm.ContextManagerVal(enter, exit_)


# ------------------------------------------------------------------------------------------------
# set iteration order


def install_set_order(reg):
    """Make iteration over sets nondeterministic for every Interp built on this registry whose flag
    `I.nondet_sets` is on (the flag is switched on by the contract's setup)."""

    def hook(I, s):
        items = list(s.items)
        if not getattr(I, "nondet_sets", False) or len(items) < 2:
            return items
        perms = list(itertools.permutations(range(len(items))))
        k = I.eng.choose(len(perms), f"set order ({len(items)} elements)")
        I.eng.path_notes.append(("set-order", tuple(getattr(x, "tag", x) for x in items), perms[k]))
        return [items[j] for j in perms[k]]

    reg.set_order_hook = hook
    reg.trust("L-setorder", bm.LIBRARY_CONTRACTS["L-setorder"])


# ------------------------------------------------------------------------------------------------
# iterators / generators handed to the code under contract


class ScriptedIterator:
    """A generator object whose behaviour is a script decided by the contract: `step(k)` is called for the
    k-th `send`/`next` and returns ("yield", value) or ("return", value) or ("raise", PExc)."""

    def __init__(self, tag, step):
        self.tag = tag
        self.step = step
        self.n = 0
        self.finished = False
        self.closed = False

    def __repr__(self):
        return f"<generator {self.tag}>"


def _iterator_attr(I, it, name):
    def send(v=None):
        if it.finished:
            e = PExc(StopIteration, ())
            e.fields["value"] = None
            raise SymRaise(e)
        kind, val = it.step(it.n)
        it.n += 1
        if kind == "yield":
            return val
        it.finished = True
        if kind == "close":
            # the consumer closes the delegating generator while it is suspended in `yield from <this iterator>`:
            # Python closes this iterator and raises GeneratorExit (a BaseException, not an Exception) at the `yield from`
            it.closed = True
            raise SymRaise(PExc(GeneratorExit, ("generator closed while suspended",)))
        if kind == "return":
            e = PExc(StopIteration, (val,))
            e.fields["value"] = val
            raise SymRaise(e)
        raise SymRaise(val)

    def close():
        it.closed = True
        it.finished = True

    if name in ("send", "__next__"):
        return BuiltinFn("generator." + name, send)
    if name == "close":
        return BuiltinFn("generator.close", close)
    I.raise_("AttributeError", name)


class GeneratorType:
    """Stands for types.GeneratorType."""


def _make_types(I):
    attrs = {}
    try:
        from . import models_spec

        attrs.update(models_spec._make_types(I).attrs)
    except Exception:  # pragma: no cover
        pass
    attrs["GeneratorType"] = GeneratorType
    attrs["MappingProxyType"] = BuiltinFn("MappingProxyType", lambda d: d)
    return bm.NativeModule("types", attrs)


def _make_inspect(I):
    def isgeneratorfunction(f):
        if isinstance(f, FuncVal):
            return bm.is_generator(f.node)
        from .interp import BoundMethod

        if isinstance(f, BoundMethod):
            return bm.is_generator(f.func.node)
        return bool(getattr(f, "is_generator_function", False))

    return bm.NativeModule("inspect", {"isgeneratorfunction": BuiltinFn("isgeneratorfunction", isgeneratorfunction)})


def _make_weakref(I):
    def ref(o):
        return BuiltinFn("weakref", lambda: o)

    return bm.NativeModule("weakref", {"ref": BuiltinFn("ref", ref)})


def _make_sys(I):
    import sys

    return bm.NativeModule("sys", {"version_info": tuple(sys.version_info[:3]), "gettrace": BuiltinFn("gettrace", lambda: None)})


bm.EXTRA_MODULES["types"] = _make_types
bm.EXTRA_MODULES.setdefault("inspect", _make_inspect)
bm.EXTRA_MODULES.setdefault("weakref", _make_weakref)
bm.EXTRA_MODULES.setdefault("sys", _make_sys)


def install_iterators(reg):
    if getattr(reg, "_models_dyn_iter", False):
        return
    reg._models_dyn_iter = True
    prev_get, prev_inst, prev_iter = reg.getattr_fallback, reg.isinstance_hook, reg.iterate_fallback

    def getattr_fb(I, obj, name):
        if isinstance(obj, ScriptedIterator):
            return _iterator_attr(I, obj, name)
        if obj is object and name in ("__getattribute__", "__setattr__", "__delattr__"):
            # the default attribute protocol (bypasses a class's own __getattribute__/__setattr__, as in CPython)
            fn = {"__getattribute__": lambda o, n: bm.get_attr(I, o, n), "__setattr__": lambda o, n, v: bm.set_attr(I, o, n, v), "__delattr__": lambda o, n: bm.del_attr(I, o, n)}[name]
            return BuiltinFn("object." + name, fn)
        if obj is dict and name == "fromkeys":
            return BuiltinFn("dict.fromkeys", lambda it, value=None: PDict([(k, value) for k in I.iterate(it)]))
        if isinstance(obj, bm.GeneratorVal) and name in ("send", "__next__", "close"):
            raise PyvcError("resumable use of an interpreted generator is not modelled (generators are drained eagerly)")
        if prev_get is not None:
            return prev_get(I, obj, name)
        import fractions

        from .values import SV, Infinity

        if obj is None or isinstance(obj, (SV, int, float, bool, fractions.Fraction, Infinity)):
            if not name.startswith("__") and name not in ("real", "imag", "numerator", "denominator", "is_integer", "conjugate"):
                I.raise_("AttributeError", name)
        raise PyvcError(f"attribute {name!r} of {obj!r} not modelled (line {I.lineno})")

    def isinstance_hook(I, x, cls):
        if cls is GeneratorType:
            return isinstance(x, (ScriptedIterator, bm.GeneratorVal))
        if isinstance(x, ScriptedIterator):
            return False
        if prev_inst is not None:
            return prev_inst(I, x, cls)
        return None

    def iterate_fb(I, v):
        if isinstance(v, ScriptedIterator):
            out = []
            send = _iterator_attr(I, v, "send").fn
            while True:
                try:
                    out.append(send(None))
                except SymRaise as sr:
                    if sr.exc.cls is StopIteration:
                        v.result = sr.exc.fields.get("value")
                        return out
                    raise
        if prev_iter is not None:
            return prev_iter(I, v)
        raise PyvcError(f"iteration over {v!r} not modelled (line {I.lineno})")

    reg.getattr_fallback = getattr_fb
    reg.isinstance_hook = isinstance_hook
    reg.iterate_fallback = iterate_fb
    reg.trust("L-iterators", bm.LIBRARY_CONTRACTS["L-iterators"])


# ------------------------------------------------------------------------------------------------
# fault injection


def maybe_raise(I, label, cls=None, args=None):
    """Every modelled callee may raise: one fork.  Returns normally on the other branch."""
    if I.eng.choose(2, f"{label} raises?") == 1:
        I.eng.path_notes.append(("fault", label))
        raise SymRaise(PExc(cls or bm.AnyException, tuple(args or (f"raised by {label}",))))


def faults_on_path(I):
    return [n[1] for n in I.eng.path_notes if isinstance(n, tuple) and n and n[0] == "fault"]


# ------------------------------------------------------------------------------------------------
# lists of symbolic length that are only appended to and measured (trajectory, action log)


class CountedList:
    """A Python list about which only its length is tracked symbolically (`len`, `append`); the elements
    appended on the current path are kept for inspection by postconditions."""

    def __init__(self, length, tag="list"):
        self.length = length
        self.appended = []
        self.tag = tag

    def __repr__(self):
        return f"<list {self.tag} of length {self.length}>"


def install_counted_lists(reg):
    if getattr(reg, "_models_dyn_counted", False):
        return
    reg._models_dyn_counted = True
    prev_get, prev_len, prev_inst = reg.getattr_fallback, reg.len_fallback, reg.isinstance_hook
    from .values import arith

    def getattr_fb(I, obj, name):
        if isinstance(obj, CountedList):
            if name == "append":

                def append(x):
                    obj.length = arith("+", obj.length, 1)
                    obj.appended.append(x)

                return BuiltinFn("list.append", append)
            raise PyvcError(f"list.{name} on a counted list not modelled")
        if prev_get is not None:
            return prev_get(I, obj, name)
        raise PyvcError(f"attribute {name!r} of {obj!r} not modelled (line {I.lineno})")

    def len_fb(I, x):
        if isinstance(x, CountedList):
            return x.length
        if prev_len is not None:
            return prev_len(I, x)
        raise PyvcError(f"len of {x!r} not modelled")

    def isinstance_hook(I, x, cls):
        if isinstance(x, CountedList):
            return cls is list
        if prev_inst is not None:
            return prev_inst(I, x, cls)
        return None

    reg.getattr_fallback = getattr_fb
    reg.len_fallback = len_fb
    reg.isinstance_hook = isinstance_hook


# ------------------------------------------------------------------------------------------------
# small library models: builtins module, enum.auto, named nondeterministic choices


class EnumToken:
    """Value of an enum member defined with `enum.auto()`: one interned token per defining line."""

    def __init__(self, line):
        self.line = line
        self.fields = {}

    def __repr__(self):
        return f"<enum member defined on line {self.line}>"


def _make_enum(I):
    cache = {}

    def auto():
        return cache.setdefault(I.lineno, EnumToken(I.lineno))

    return bm.NativeModule("enum", {"auto": BuiltinFn("auto", auto), "unique": BuiltinFn("unique", lambda c: c), "Enum": object, "IntEnum": object})


bm.EXTRA_MODULES.setdefault("enum", _make_enum)
bm.EXTRA_MODULES.setdefault("builtins", lambda I: bm.NativeModule("builtins", dict(I.builtins)))


def pick(I, n, label):
    """`Engine.choose` whose decision is also recorded in the path notes, so that a postcondition can
    name the case it is in: ("choice", label, k)."""
    k = I.eng.choose(n, label)
    I.eng.path_notes.append(("choice", label, k))
    return k


def picked(I, prefix):
    """All recorded decisions whose label starts with `prefix`, in order."""
    return [n[2] for n in I.eng.path_notes if isinstance(n, tuple) and len(n) == 3 and n[0] == "choice" and n[1].startswith(prefix)]


def install_fstrings(reg):
    """Evaluate f-strings whose parts are concrete strings / integers without format specs (generated identifiers
    such as f"{prefix}_handler_{i}"); anything else stays the opaque text "<fstring>"."""

    def hook(I, node, env):
        parts = []
        for v in node.values:
            if isinstance(v, ast.Constant):
                parts.append(str(v.value))
                continue
            if isinstance(v, ast.FormattedValue) and v.format_spec is None and v.conversion == -1:
                try:
                    x = I.eval(v.value, env)
                except Exception:
                    return "<fstring>"
                if isinstance(x, (str, int)) and not isinstance(x, bool):
                    parts.append(str(x))
                    continue
            return "<fstring>"
        return "".join(parts)

    reg.fstring_hook = hook


def install_next(reg):
    """`next(it[, default])` on a generator expression (LAZY: elements are produced one at a time, so side effects of
    the filter conditions happen only up to the element returned) and on scripted iterators."""
    from .interp import Env, GenExp

    def hook(I, it, default):
        if isinstance(it, GenExp) and len(it.node.generators) == 1:
            g = it.node.generators[0]
            if not hasattr(it, "_src"):
                it._src = list(I.iterate(I.eval(g.iter, it.env)))
                it._pos = 0
            while it._pos < len(it._src):
                x = it._src[it._pos]
                it._pos += 1
                e2 = Env(it.env.module, it.env)
                I.assign_target(g.target, x, e2)
                if all(I.decide(I.eval(c, e2)) for c in g.ifs):
                    return I.eval(it.node.elt, e2)
            it.consumed = True
            if default:
                return default[0]
            I.raise_("StopIteration")
        if isinstance(it, ScriptedIterator):
            try:
                return _iterator_attr(I, it, "send").fn(None)
            except SymRaise as sr:
                if sr.exc.cls is StopIteration and default:
                    return default[0]
                raise
        raise PyvcError("next() on non-iterator")

    reg.next_hook = hook
