#!/usr/bin/env python3
"""Evaluate a seeded change: tools_seeded.py <seed dir with patch.diff + demo.py> <property> [--keep-as NAME]

1. on a clean private worktree: demo.py must PASS;  2. apply patch.diff: demo.py must FAIL;
3. run `./check <property>` against the patched worktree (PYVC_REPO) and record exit code + VIOLATION lines;
4. revert.  With --keep-as the change is copied to /verif/seeded/<NAME>/ with meta.json."""
import json, os, shutil, subprocess, sys

WT = os.environ.get("SEED_WT", "/tmp/wt_main")
HERE = os.path.dirname(os.path.abspath(__file__))


def sh(cmd, **kw):
    return subprocess.run(cmd, shell=True, capture_output=True, text=True, **kw)


def demo(d):
    env = dict(os.environ, PYTHONPATH=f"{WT}/src")
    p = subprocess.run(["/venv/bin/python", os.path.join(d, "demo.py")], capture_output=True, text=True, env=env, cwd=WT, timeout=1200)
    return p.returncode, (p.stdout + p.stderr)[-600:]


def main():
    d, pid = sys.argv[1], sys.argv[2]
    keep = sys.argv[sys.argv.index("--keep-as") + 1] if "--keep-as" in sys.argv else None
    assert sh(f"git -C {WT} status --porcelain --untracked-files=no").stdout.strip() == "", "worktree not clean"
    sh(f"git -C {WT} checkout -q --detach $(git -C /repo rev-parse HEAD)")
    regen = f"cd {WT} && /venv/bin/python -m pegen src/scenic/syntax/scenic.gram -o src/scenic/syntax/parser.py"
    sh(regen)  # parser.py is git-ignored: regenerate it from the checkout's grammar
    res = {"property": pid, "repo_head": sh("git -C /repo rev-parse --short HEAD").stdout.strip()}
    rc0, out0 = demo(d)
    res["demo_without_change"] = {"exit": rc0, "tail": out0[-200:]}
    ap = sh(f"git -C {WT} apply {os.path.join(d, 'patch.diff')}")
    if ap.returncode != 0:  # the tree has moved on (fix: commits): try a 3-way merge of the change
        ap = sh(f"git -C {WT} apply -3 {os.path.join(d, 'patch.diff')}")
        sh(f"git -C {WT} reset -q")
        res["patch_applied_with_3way_merge"] = ap.returncode == 0
    if ap.returncode != 0:
        sh(f"git -C {WT} reset -q; git -C {WT} checkout -- .")  # leave the scratch worktree clean for the next change
        print("PATCH DOES NOT APPLY:", ap.stderr[:300]); sys.exit(2)
    try:
        if "scenic.gram" in open(os.path.join(d, "patch.diff")).read():
            sh(regen)
        rc1, out1 = demo(d)
        res["demo_with_change"] = {"exit": rc1, "tail": out1[-300:]}
        ck = subprocess.run(["./check", pid], capture_output=True, text=True, cwd=HERE, env=dict(os.environ, PYVC_REPO=WT, PYVC_EVIDENCE_DIR="/tmp/pyvc_seeded_evidence_" + os.path.basename(WT), PYVC_REPLAY_DIR="/tmp/pyvc_seeded_replays_" + os.path.basename(WT)), timeout=3000)
        lines = [l for l in ck.stdout.splitlines() if l.startswith(("VIOLATION", "UNDECIDED", "CHECKER-ERROR", "KNOWN-FINDING", "   failed obligation"))]
        res["check"] = {"cmd": f"PYVC_REPO=<patched checkout> ./check {pid}", "exit": ck.returncode, "lines": [l[:300] for l in lines][:12]}
    finally:
        sh(f"git -C {WT} checkout -- . ")
        sh(regen)
    res["caught"] = res["check"]["exit"] == 1
    print(json.dumps(res, indent=1))
    if keep:
        out = os.path.join(HERE, "seeded", keep)
        os.makedirs(out, exist_ok=True)
        for f in ("patch.diff", "demo.py", "notes.txt"):
            if os.path.exists(os.path.join(d, f)) and os.path.abspath(os.path.join(d, f)) != os.path.abspath(os.path.join(out, f)):
                shutil.copy(os.path.join(d, f), out)
        notes = open(os.path.join(d, "notes.txt")).read() if os.path.exists(os.path.join(d, "notes.txt")) else ""
        meta = dict(breaks_property=pid, needs_to_manifest=notes[:1500], what_i_ran=res)
        json.dump(meta, open(os.path.join(out, "meta.json"), "w"), indent=1)


main()
