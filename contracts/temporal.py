"""Sidecar contracts for Scenic's side of temporal requirements (C11): the proposition layer
(`scenic.core.propositions`), the verdict plumbing (`scenic.core.requirements`, `DynamicScenario._step/_stop`) and
`veneer.require`.

Oracle (property statement of C11): a requirement with temporal operators accepts exactly the traces satisfying the formula
under finite-trace RV-LTL semantics (strong next / until); rejection before the end only when no continuation can satisfy
it; non-temporal sub-formulas are evaluated in the current step only; and / or / not / implies have their ordinary Boolean
meaning.  The monitors themselves (dependency `rv_ltl`) are under contract in `contracts/rvltl.py`; here the obligations are

 * every `propositions.X` constructor builds the rv_ltl node of the SAME operator with the operands in the SAME order
   (no swap of lhs/rhs, hypothesis/conclusion) -- structurally per class, and semantically end to end (real Scenic tree ->
   real monitor -> `PropositionMonitor.update` per step -> verdict truthy iff the finite trace satisfies the formula);
 * `flatten` / `atomics` enumerate every node / atom exactly once;
 * `PropositionMonitor.update` evaluates every atomic closure exactly once per step, hands the monitor one truth value per
   atom keyed by `str(syntax_id)`, updates the monitor exactly once and returns its verdict;
 * `CompiledRequirement.falsifiedByInner`: the initial scene is rejected iff the step-0 verdict is FALSE (fresh monitor);
 * `MonitorRequirement / DynamicMonitorRequirement`: one persistent monitor, `lastValue` is the latest verdict (TRUE before
   the first step);
 * `DynamicScenario._step`: reject iff some requirement monitor's verdict of this step is FALSE, every monitor stepped once;
 * `DynamicScenario._stop`: reject iff not quiet and some last verdict is falsy;
 * `veneer.require`: temporal => probability 1; at run time temporal requirements become dynamic monitors, non-temporal ones
   are evaluated at once with the ordinary Boolean meaning of and / or / not / implies."""
import ast

import z3

from pyvc import contracts as C
from pyvc import extract
from pyvc import models_ltl as ML
from pyvc.builtins_model import NativeModule
from pyvc.interp import BuiltinFn, ClassVal
from pyvc.values import Opaque, PDict, PList, PObj, PyvcError, SV, tobool

from .common import repo_class
from .rvltl import (
    FALSE,
    NAMES,
    PF,
    PROP_CLASS,
    PT,
    TRUE,
    _z,
    atoms_of,
    b4val,
    driver_frame,
    guarded,
    py_sat,
    sat,
    short_of,
    show,
)

P = "scenic.core.propositions"
R = "scenic.core.requirements"
D = "scenic.core.dynamics.scenarios"
V = "scenic.syntax.veneer"
LTL = "rv_ltl.proposition"

SCENIC_CLASS = {"not": "Not", "and": "And", "or": "Or", "implies": "Implies", "next": "Next", "always": "Always", "eventually": "Eventually", "until": "Until"}
TEMPORAL_CLASSES = ("Always", "Eventually", "Next", "Until")


def real_str(x="", *a):
    if isinstance(x, (int, str, bool)) and not isinstance(x, SV):
        return str(x)
    return "<str>"


_STR = BuiltinFn("str", real_str)
_STR.pytype = str
STR_ENV = {"str": _STR}
# used by setup code that builds real proposition trees: every callee interpreted in place
BUILD = C.Contract(f"{P}:PropositionNode.__init__", params={}, inline_all=True, env=STR_ENV)


def install(reg):
    """names shared by the Scenic-side contracts: the module `rv_ltl` (real classes of the dependency + the enum model of B4)"""
    ML.install(reg)
    xm = getattr(reg, "extra_modules", None) or {}
    attrs = {n: repo_class(f"{LTL}:{n}") for n in ("Atomic", "Not", "And", "Or", "Next", "Until", "Eventually", "Always", "Implies", "Proposition")}
    attrs["B4"] = reg.spec_env["B4"]
    attrs["Monitor"] = repo_class("rv_ltl.monitor:Monitor")
    xm["rv_ltl"] = NativeModule("rv_ltl", attrs)
    reg.extra_modules = xm


def cls_name(o):
    return getattr(getattr(o, "cls", None), "full", getattr(o, "cls", None))


def _next_id(ids, name):
    """syntax ids are unique per OCCURRENCE of an atom (as the compiler assigns them); `ids` maps a name to its id or is a counter"""
    if isinstance(ids, list):
        ids[0] += 1
        return ids[0] - 1
    return ids[name]


def build_scenic(I, f, closures, ids):
    """real scenic.core.propositions tree for formula f (real constructors); closures by atom name"""
    if f[0] == "atom":
        return I.instantiate(repo_class(f"{P}:Atomic"), [closures[f[1]], _next_id(ids, f[1])], {})
    kids = [build_scenic(I, g, closures, ids) for g in f[1:]]
    if f[0] in ("and", "or"):
        return I.instantiate(repo_class(f"{P}:{SCENIC_CLASS[f[0]]}"), [PList(kids)], {})
    return I.instantiate(repo_class(f"{P}:{SCENIC_CLASS[f[0]]}"), kids, {})


def real_scenic(f, closures, ids):
    import scenic.core.propositions as sp

    if f[0] == "atom":
        return sp.Atomic(closures[f[1]], _next_id(ids, f[1]))
    kids = [real_scenic(g, closures, ids) for g in f[1:]]
    if f[0] in ("and", "or"):
        return getattr(sp, SCENIC_CLASS[f[0]])(kids)
    return getattr(sp, SCENIC_CLASS[f[0]])(*kids)


def _same_truth(I, got, val):
    """the value handed to the monitor for an atom is the truth value of the condition (None counts as false)"""
    import z3 as _z3

    from pyvc.values import tobool as _tb

    tv = I.truth(val)
    tg = I.truth(got)
    if isinstance(tv, bool) and isinstance(tg, bool):
        return tv == tg and isinstance(got, bool)
    return not I.eng.feasible(_z3.Not(_tb(tg) == _tb(tv)))


def register(reg):
    install(reg)
    register_constructors(reg)
    register_structure(reg)
    register_monitor_update(reg)
    register_semantics(reg)
    register_verdicts(reg)
    register_step_stop(reg)
    register_require(reg)
    register_dynamic(reg)


# ================================================================================================ (1) constructors
# operands of the constructor contracts: one real node of EVERY proposition class (built by the real constructors over atoms)
CHILD_SHAPES = [
    ("atom", "p"),
    ("always", ("atom", "p")),
    ("eventually", ("atom", "p")),
    ("next", ("atom", "p")),
    ("not", ("atom", "p")),
    ("and", ("atom", "p"), ("atom", "q")),
    ("or", ("atom", "p"), ("atom", "q")),
    ("until", ("atom", "p"), ("atom", "q")),
    ("implies", ("atom", "p"), ("atom", "q")),
]
CHILD_NAMES = ["Atomic"] + [SCENIC_CLASS[f[0]] for f in CHILD_SHAPES[1:]]


def real_child(I, k, counter):
    """a real proposition node of class CHILD_NAMES[k] (real constructors, all callees interpreted)"""
    closures = {"p": Opaque("closure_p"), "q": Opaque("closure_q")}
    with driver_frame(I, BUILD, module=P):
        return build_scenic(I, CHILD_SHAPES[k], closures, counter)


def register_constructors(reg):
    def node_stub(tag):
        o = PObj("PropositionNodeStub", tag=tag)
        o.fields["ltl_node"] = PObj("LtlNodeStub", tag="ltl_" + tag)
        o.fields["is_temporal"] = False
        return o

    def replay_ctor_for(only):
        return lambda inputs, clause: replay_ctor(inputs, clause, only)

    def replay_ctor(inputs, clause, only=None):
        import rv_ltl
        import scenic.core.propositions as sp

        def kid(k, counter):
            return real_scenic(CHILD_SHAPES[k], {"p": (lambda: True), "q": (lambda: False)}, counter)

        nK = len(CHILD_SHAPES)
        given = [CHILD_NAMES.index(inputs[p]) for p in ("req", "lhs", "rhs") if inputs.get(p) in CHILD_NAMES]
        unary = dict(Always=rv_ltl.Always, Eventually=rv_ltl.Eventually, Next=rv_ltl.Next, Not=rv_ltl.Not)
        binary = dict(Until=rv_ltl.Until, Implies=rv_ltl.Implies)
        nary = dict(And=rv_ltl.And, Or=rv_ltl.Or)
        for name in list(unary) + list(binary) + list(nary):
            if only is not None and name != only:
                continue
            cls = getattr(sp, name)
            if name in unary:
                combos = [(k,) for k in (given[:1] + list(range(nK)))]
            elif name in binary:
                combos = ([tuple(given[:2])] if len(given) >= 2 else []) + [(i, j) for i in range(nK) for j in range(nK)]
            else:
                combos = [tuple((s0 + j) % nK for j in range(n)) for n in (1, 2, 3) for s0 in range(nK)]
            want = {**unary, **binary, **nary}[name]
            for combo in combos:
                counter = [0]
                kids = [kid(k, counter) for k in combo]
                own = [c.ltl_node for c in kids]
                node = cls(kids) if name in nary else cls(*kids)
                desc = f"propositions.{name}({', '.join(CHILD_NAMES[k] + '(...)' for k in combo)})"
                if type(node.ltl_node) is not want:
                    return f"{desc} builds an rv_ltl.{type(node.ltl_node).__name__} node (expected rv_ltl.{want.__name__} applied to the operands' own nodes)"
                got = list(node.ltl_node.ops) if name in nary else [node.ltl_node.op] if name in unary else [node.ltl_node.lhs, node.ltl_node.rhs]
                if len(got) != len(own) or any(g is not w for g, w in zip(got, own)):
                    return f"{desc}: the operands of the rv_ltl node are not the operands' own rv_ltl nodes in source order"
                if any(c.ltl_node is not w for c, w in zip(kids, own)):
                    return f"{desc} replaced the rv_ltl node of an operand"
                kept = list(node.reqs) if name in nary else [node.req] if name in unary else [node.lhs, node.rhs]
                if len(kept) != len(kids) or any(x is not y for x, y in zip(kept, kids)):
                    return f"{desc}: the Scenic tree does not keep the operands as children"
                if node.is_temporal != (name in TEMPORAL_CLASSES):
                    return f"propositions.{name}.is_temporal == {node.is_temporal}"
        if only not in (None, "Atomic"):
            return None
        a = sp.Atomic(lambda: True, 7)
        if type(a.ltl_node) is not rv_ltl.Atomic or a.ltl_node.identifier != "7":
            return f"propositions.Atomic(…, 7) builds {type(a.ltl_node).__name__} with identifier {getattr(a.ltl_node, 'identifier', None)!r}"
        return None

    def make(name, params, operand_fields, ltl_fields):
        tgt = f"{P}:{name}.__init__"
        cn = short_of(tgt)

        def setup(I, env):
            eng = I.eng
            env.vars["self"] = PObj(repo_class(f"{P}:{name}"), tag="self")
            counter = [0]
            for p in params:  # every operand ranges over every proposition node class
                k = eng.choose(len(CHILD_SHAPES), f"class of {p}")
                eng.input_syms.append((p, C.Const(CHILD_NAMES[k]), CHILD_NAMES[k]))
                env.vars[p] = real_child(I, k, counter)
            if name in ("And", "Or"):
                n = eng.choose(3, "operands") + 1
                start = eng.choose(len(CHILD_SHAPES), "class of the first operand")
                ks = [(start + j) % len(CHILD_SHAPES) for j in range(n)]
                eng.input_syms.append(("reqs", C.Const([CHILD_NAMES[k] for k in ks]), [CHILD_NAMES[k] for k in ks]))
                env.vars["reqs"] = PList([real_child(I, k, counter) for k in ks])
            # the operands' own rv_ltl nodes, as they are BEFORE the constructor runs
            env.vars["_own"] = {id(c): c.fields["ltl_node"] for c in ([env.vars[p] for p in params] + (env.vars["reqs"].items if name in ("And", "Or") else []))}

        def post(I, env, outcome):
            eng = I.eng
            if outcome[0] != "return":
                return
            self = env.vars["self"]
            node = self.fields.get("ltl_node")
            eng.check(f"{cn}#ensures.builds_the_rv_ltl_node_of_the_same_operator", isinstance(node, PObj) and cls_name(node) == f"{LTL}:{name}")
            if not isinstance(node, PObj):
                return
            own = env.vars["_own"]
            kids = [env.vars[p] for p in params] + (env.vars["reqs"].items if name in ("And", "Or") else [])
            eng.check(f"{cn}#ensures.operands_keep_their_own_rv_ltl_nodes", all(c.fields.get("ltl_node") is own[id(c)] for c in kids))
            if name in ("And", "Or"):
                want = [own[id(r)] for r in env.vars["reqs"].items]
                got = node.fields.get("ops")
                eng.check(f"{cn}#ensures.operands_in_source_order", isinstance(got, tuple) and len(got) == len(want) and all(g is w for g, w in zip(got, want)))
                kept = self.fields.get("reqs")
                eng.check(f"{cn}#ensures.children_are_the_operands", kept is env.vars["reqs"] or (isinstance(kept, PList) and all(a is b for a, b in zip(kept.items, env.vars["reqs"].items)) and len(kept.items) == len(want)))
            else:
                for p, lf in zip(params, ltl_fields):  # the operator applied to the operands' OWN nodes (identity), in source order
                    eng.check(f"{cn}#ensures.operands_in_source_order", node.fields.get(lf) is own[id(env.vars[p])])
                for p, of in zip(params, operand_fields):
                    eng.check(f"{cn}#ensures.children_are_the_operands", self.fields.get(of) is env.vars[p])
            eng.check(f"{cn}#ensures.is_temporal_iff_temporal_operator", self.fields.get("is_temporal") is (name in TEMPORAL_CLASSES))

        reg.add(C.Contract(tgt, params={p: C.Const(None) for p in ["self"] + (["reqs"] if name in ("And", "Or") else params)}, setup=setup, post=post, inline_all=True, env=STR_ENV, replay=replay_ctor_for(name), bounded=name in ("And", "Or"), note="every operand is a real node of each of the 9 proposition classes (Atomic, Always, Eventually, Next, Not, And, Or, Until, Implies)" + ("; 1..3 operands of consecutive classes" if name in ("And", "Or") else ""), properties=("C11",)))

    for nm in ("Always", "Eventually", "Next", "Not"):
        make(nm, ["req"], ["req"], ["op"])
    make("Until", ["lhs", "rhs"], ["lhs", "rhs"], ["lhs", "rhs"])
    make("Implies", ["lhs", "rhs"], ["lhs", "rhs"], ["lhs", "rhs"])
    make("And", [], [], [])
    make("Or", [], [], [])

    # ---- Atomic
    tgt = f"{P}:Atomic.__init__"
    cna = short_of(tgt)

    def setup_atomic(I, env):
        env.vars["self"] = PObj(repo_class(f"{P}:Atomic"), tag="self")
        env.vars["closure"] = Opaque("closure")
        env.vars["syntax_id"] = [0, 7, 12][I.eng.choose(3, "syntax id")]

    def post_atomic(I, env, outcome):
        eng = I.eng
        if outcome[0] != "return":
            return
        self = env.vars["self"]
        node = self.fields.get("ltl_node")
        ok = isinstance(node, PObj) and cls_name(node) == f"{LTL}:Atomic"
        eng.check(f"{cna}#ensures.builds_an_rv_ltl_atomic", ok)
        if ok:
            eng.check(f"{cna}#ensures.identifier_is_str_of_syntax_id", node.fields.get("identifier") == str(env.vars["syntax_id"]))
        eng.check(f"{cna}#ensures.keeps_closure_and_id", self.fields.get("closure") is env.vars["closure"] and self.fields.get("syntax_id") == env.vars["syntax_id"])
        eng.check(f"{cna}#ensures.is_temporal_iff_temporal_operator", self.fields.get("is_temporal") is False)

    reg.add(C.Contract(tgt, params=dict(self=C.Const(None), closure=C.Const(None), syntax_id=C.Const(None)), setup=setup_atomic, post=post_atomic, inline_all=True, env=STR_ENV, replay=replay_ctor_for("Atomic"), properties=("C11",)))


# ================================================================================================ (2) flatten / atomics
TREE = ("until", ("and", ("atom", "a"), ("not", ("atom", "b"))), ("implies", ("next", ("atom", "c")), ("always", ("eventually", ("atom", "a2")))))


def preorder(f, path=()):
    out = [path]
    for k, g in enumerate(f[1:] if f[0] != "atom" else ()):
        out += preorder(g, path + (k,))
    return out


def node_at(root, path):
    n = root
    for k in path:
        cl = n.cls.name
        if cl in ("And", "Or"):
            n = n.fields["reqs"].items[k]
        elif cl in ("Until", "Implies"):
            n = n.fields["lhs" if k == 0 else "rhs"]
        else:
            n = n.fields["req"]
    return n


def register_structure(reg):
    holder = {}

    def setup(I, env):
        names = atoms_of(TREE)
        closures = {x: Opaque("closure_" + x) for x in names}
        ids = {x: k for k, x in enumerate(names)}
        with driver_frame(I, BUILD, module=P):
            env.vars["self"] = build_scenic(I, TREE, closures, ids)

    def make(method, want_fn, clause):
        tgt = f"{P}:PropositionNode.{method}"
        cn = short_of(tgt)

        def setup_m(I, env):
            env.vars["_which"] = method
            setup(I, env)

        def post(I, env, outcome):
            if outcome[0] != "return":
                return
            root = env.vars["self"]
            want = want_fn(root)
            got = outcome[1].items if isinstance(outcome[1], PList) else list(outcome[1]) if isinstance(outcome[1], (tuple, list)) else None
            I.eng.check(f"{cn}#ensures.{clause}", got is not None and len(got) == len(want) and all(g is w for g, w in zip(got, want)))

        def replay(inputs, clause_):
            names = atoms_of(TREE)
            root = real_scenic(TREE, {x: (lambda: True) for x in names}, {x: k for k, x in enumerate(names)})
            import scenic.core.propositions as sp

            def rn(n, path):
                for k in path:
                    if isinstance(n, (sp.And, sp.Or)):
                        n = n.reqs[k]
                    elif isinstance(n, (sp.Until, sp.Implies)):
                        n = n.lhs if k == 0 else n.rhs
                    else:
                        n = n.req
                return n

            allnodes = [rn(root, p) for p in preorder(TREE)]
            got = getattr(root, method)()
            want = allnodes if method == "flatten" else [n for n in allnodes if isinstance(n, sp.Atomic)]
            if len(got) != len(want) or any(g is not w for g, w in zip(got, want)):
                return f"{method}() of `{show(TREE)}` returns {len(got)} nodes {[str(x) for x in got]}; expected the {len(want)} {'nodes' if method == 'flatten' else 'atoms'} in pre-order, each once"
            return None

        holder[method] = C.Contract(tgt, params=dict(self=C.Const(None)), setup=setup_m, post=post, inline_all=True, replay=replay, bounded=True, note=f"one concrete tree with every operator: `{show(TREE)}`", properties=("C11",))
        reg.add(holder[method])

    make("flatten", lambda root: [node_at(root, p) for p in preorder(TREE)], "every_node_exactly_once_in_preorder")
    make("atomics", lambda root: [n for n in (node_at(root, p) for p in preorder(TREE)) if n.cls.name == "Atomic"], "every_atom_exactly_once_in_source_order")


# ================================================================================================ (3) PropositionMonitor.update
UPD_TREE = ("until", ("and", ("atom", "a"), ("not", ("atom", "b"))), ("next", ("atom", "c")))


def register_monitor_update(reg):
    tgt = f"{P}:PropositionMonitor.update"
    cn = short_of(tgt)
    holder = {}
    names = atoms_of(UPD_TREE)
    ids = {"a": 0, "b": 3, "c": 11}

    def setup(I, env):
        eng = I.eng
        events = []
        vals = {}
        for x in names:
            if eng.choose(2, f"{x}: truth value or None") == 0:
                vals[x] = eng.fresh_bool(f"{x}.now")
                eng.input_syms.append((x, C.Bool(), vals[x]))
            else:
                vals[x] = None
                eng.input_syms.append((x, C.Const(None), None))

        def closure_of(x):
            def call():
                events.append(("closure", x))
                return vals[x]

            return BuiltinFn("closure_" + x, call)

        with driver_frame(I, BUILD, module=P):
            tree = build_scenic(I, UPD_TREE, {x: closure_of(x) for x in names}, ids)
        verdict = B4T.fresh(eng, "verdict")
        mon = PObj("RvLtlMonitorStub", tag="monitor")

        def m_update(state):
            events.append(("monitor.update", [(k, v) for k, v in zip(state.keys, state.vals)] if isinstance(state, PDict) else state))

        def m_evaluate():
            events.append(("monitor.evaluate",))
            return verdict

        mon.fields["update"] = BuiltinFn("update", m_update)
        mon.fields["evaluate"] = BuiltinFn("evaluate", m_evaluate)
        self = PObj(repo_class(f"{P}:PropositionMonitor"), tag="self")
        self.fields.update(_proposition=tree, _monitor=mon)
        env.vars.update(self=self, _events=events, _vals=vals, _verdict=verdict)

    def post(I, env, outcome):
        eng = I.eng
        events, vals = env.vars["_events"], env.vars["_vals"]
        if outcome[0] != "return":
            return
        kinds = [e[0] for e in events]
        eng.check(f"{cn}#ensures.every_atomic_closure_evaluated_exactly_once_in_this_step", sorted(e[1] for e in events if e[0] == "closure") == sorted(names))
        eng.check(f"{cn}#ensures.monitor_updated_exactly_once_after_all_closures_then_evaluated", kinds == ["closure"] * len(names) + ["monitor.update", "monitor.evaluate"])
        upd = [e for e in events if e[0] == "monitor.update"]
        if len(upd) == 1 and isinstance(upd[0][1], list):
            state = dict((k, v) for k, v in upd[0][1])
            eng.check(f"{cn}#ensures.state_has_one_entry_per_atom_keyed_by_str_of_syntax_id", sorted(state) == sorted(str(ids[x]) for x in names) and all(_same_truth(I, state[str(ids[x])], vals[x]) for x in names))
            # rv_ltl's precondition (Step = Dict[..., bool]; AtomicMonitor skips a None, see rvltl.AtomicMonitor._update_internal)
            eng.check(f"{cn}#call:rv_ltl.Monitor.update.requires[every atom gets a truth value: no None]", all(v is not None for v in state.values()))
        eng.check(f"{cn}#ensures.returns_the_monitors_verdict", outcome[1] is env.vars["_verdict"])

    def replay(inputs, clause):
        import rv_ltl

        log = []
        now = {x: (None if inputs.get(x, True) is None else bool(inputs.get(x, True))) for x in names}

        def closure_of(x):
            def call():
                log.append(x)
                return now[x]

            return call

        tree = real_scenic(UPD_TREE, {x: closure_of(x) for x in names}, ids)
        mon = tree.create_monitor()
        first = dict(now)
        try:
            v1 = mon.update()
            if sorted(log) != sorted(names):
                return f"one update evaluated the atomic closures {log} (expected each of {names} once)"
            # a second step with all atoms true: the verdict must be that of the two-step trace
            for x in names:
                now[x] = True
            v2 = mon.update()
        except Exception as e:
            return f"PropositionMonitor.update for `{show(UPD_TREE)}` with first-step atom values {first} (None is falsy in Python): raised {type(e).__name__}: {e}"
        w = {x: [bool(first[x]), True] for x in names}
        for n, v in ((1, v1), (2, v2)):
            if v.is_truthy != py_sat(UPD_TREE, w, 0, n):
                return f"`{show(UPD_TREE)}` after {n} step(s) with first-step values {first}: verdict {v}, expected {'truthy' if py_sat(UPD_TREE, w, 0, n) else 'falsy'}"
        return None

    B4T = ML.b4_type()
    holder["c"] = C.Contract(
        tgt,
        params=dict(self=C.Const(None)),
        setup=setup,
        post=post,
        raises=[C.Raises("InvalidScenarioError", mode="may")],
        inline=["PropositionNode.atomics", "PropositionNode.flatten", "UnaryProposition.children", "And.children", "Or.children", "Until.children", "Implies.children", "PropositionNode.children"],
        env=STR_ENV,
        replay=replay,
        bounded=True,
        note=f"one concrete tree `{show(UPD_TREE)}` (syntax ids 0, 3, 11); each atom's closure returns a symbolic bool or None",
        properties=("C11",),
    )
    reg.add(holder["c"])


# ================================================================================================ (4) operator semantics end to end (Scenic layer)
SEM_N = 3
SEM_FORMULAS = [
    ("always", ("atom", "a")),
    ("eventually", ("atom", "a")),
    ("next", ("atom", "a")),
    ("not", ("atom", "a")),
    ("until", ("atom", "a"), ("atom", "b")),
    ("implies", ("atom", "a"), ("atom", "b")),
    ("and", ("atom", "a"), ("atom", "b")),
    ("or", ("atom", "a"), ("atom", "b")),
    ("always", ("implies", ("atom", "a"), ("next", ("atom", "b")))),
    ("implies", ("always", ("atom", "a")), ("eventually", ("atom", "b"))),
    ("until", ("not", ("atom", "a")), ("and", ("atom", "a"), ("atom", "b"))),
    # negated temporal operators: the verdict in the LAST state separates strong from weak next / until
    ("not", ("next", ("atom", "a"))),
    ("not", ("always", ("atom", "a"))),
    ("not", ("eventually", ("atom", "a"))),
    ("not", ("until", ("atom", "a"), ("atom", "b"))),
    ("always", ("implies", ("atom", "a"), ("not", ("next", ("atom", "b"))))),
]


def register_semantics(reg):
    tgt = f"{P}:PropositionMonitor.update"
    key = tgt + "[operator semantics]"
    cn = short_of(tgt, key)
    holder = {}

    def setup(I, env):
        eng = I.eng
        f = SEM_FORMULAS[eng.choose(len(SEM_FORMULAS), "formula")]
        eng.input_syms.append(("formula", C.Const(repr(f)), repr(f)))
        names = atoms_of(f)
        w = {x: [eng.fresh_bool(f"{x}{t}") for t in range(SEM_N)] for x in names}
        for x in names:
            eng.input_syms.append((x, C.ListOf(C.Bool(), SEM_N), PList(w[x])))
        clock = [0]
        closures = {x: BuiltinFn("closure_" + x, lambda x=x: w[x][clock[0]]) for x in names}  # reads the CURRENT step only
        verdicts = []
        with guarded(I, cn), driver_frame(I, holder["c"], module=P):
            tree = build_scenic(I, f, closures, [0])
            mon = I.call_function(I.find_method(tree.cls, "create_monitor"), [tree], {})
            upd = I.find_method(mon.cls, "update")
            for t in range(SEM_N - 1):
                clock[0] = t
                verdicts.append(I.call_function(upd, [mon], {}))
            clock[0] = SEM_N - 1
        env.vars.update(self=mon, _f=f, _w=w, _verdicts=verdicts)

    def post(I, env, outcome):
        eng = I.eng
        if outcome[0] != "return":
            return
        f, w = env.vars["_f"], env.vars["_w"]
        verdicts = env.vars["_verdicts"] + [outcome[1]]
        if not all(ML.is_b4(v) for v in verdicts):
            eng.check(f"{cn}#ensures.returns_a_B4_verdict", False)
            return
        exact, sound = [], []
        for t, vd in enumerate(verdicts):
            n = t + 1
            v = b4val(vd)
            exact.append((v >= PT) == sat(f, w, 0, n))
            sound.append(z3.Implies(v == FALSE, z3.And(*[z3.Not(sat(f, w, 0, m)) for m in range(n, SEM_N + 1)])))
        eng.check(f"{cn}#ensures.verdict_truthy_iff_trace_satisfies_formula", z3.And(*exact))
        eng.check(f"{cn}#ensures.FALSE_only_if_no_continuation_satisfies", z3.And(*sound))
        if f == SEM_FORMULAS[0]:
            a = w["a"]
            for t, vd in enumerate(verdicts):  # "at once for `always` of a non-temporal condition that is false"
                eng.check(f"{cn}#ensures.always_of_false_condition_rejected_at_once", z3.Implies(z3.Not(_z(a[t])), b4val(vd) == FALSE))

    def replay(inputs, clause):
        fs = [ast.literal_eval(inputs["formula"])] if "formula" in inputs else SEM_FORMULAS
        import itertools as it

        for f in fs:
            names = atoms_of(f)
            given = {x: [bool(v) for v in inputs.get(x, [])][:SEM_N] for x in names}
            traces = [given] if all(len(given[x]) == SEM_N for x in names) else []
            if clause == "*" or not traces:
                traces += [dict(zip(names, (bits[k * SEM_N : (k + 1) * SEM_N] for k in range(len(names))))) for bits in it.product([False, True], repeat=SEM_N * len(names))]
            for w in traces:
                clock = [0]
                tree = real_scenic(f, {x: (lambda x=x: w[x][clock[0]]) for x in names}, [0])
                mon = tree.create_monitor()
                tr = lambda n: " ".join(f"{x}={''.join('T' if v else 'F' for v in w[x][:n])}" for x in names)
                for t in range(SEM_N):
                    clock[0] = t
                    v = mon.update()
                    if v.is_truthy != py_sat(f, w, 0, t + 1):
                        return f"Scenic proposition `{show(f)}` on the trace {tr(t + 1)}: verdict {v}, but the trace {'satisfies' if py_sat(f, w, 0, t + 1) else 'violates'} the formula"
                    if v.value == FALSE and any(py_sat(f, w, 0, m) for m in range(t + 1, SEM_N + 1)):
                        return f"Scenic proposition `{show(f)}`: verdict FALSE after {tr(t + 1)} although the continuation {tr(SEM_N)} satisfies it"
                    if f == SEM_FORMULAS[0] and not w["a"][t] and v.value != FALSE:
                        return f"`always a` with a false at step {t}: verdict {v} (not rejected at once)"
        return None

    holder["c"] = C.Contract(
        tgt,
        params=dict(self=C.Const(None)),
        setup=setup,
        post=post,
        inline_all=True,
        env=STR_ENV,
        replay=replay,
        bounded=True,
        note=f"{len(SEM_FORMULAS)} formulas (every operator once, plus three nestings), all traces of length <= {SEM_N} (symbolic truth values); real Scenic constructors, "
        "create_monitor, PropositionMonitor.update and the real rv_ltl monitors interpreted; closures read the current step only",
        properties=("C11",),
    )
    reg.add(holder["c"], key=key)


# ================================================================================================ (5) verdict plumbing in requirements.py
def register_verdicts(reg):
    B4T = ML.b4_type()

    def world(I, eng):
        """a proposition whose create_monitor() hands out distinguishable monitors, and a requirement closure with a symbolic verdict"""
        log = []
        created = []

        def create_monitor():
            m = PObj("PropositionMonitorStub", tag=f"monitor{len(created)}")
            created.append(m)
            log.append(("create_monitor", m))
            return m

        prop = PObj("PropositionStub", tag="proposition")
        prop.fields["create_monitor"] = BuiltinFn("create_monitor", create_monitor)
        verdicts = []

        def closure(*args):
            v = B4T.fresh(eng, f"verdict{len(verdicts)}")
            eng.input_syms.append((f"verdict{len(verdicts)}", B4T, v))
            verdicts.append(v)
            log.append(("closure", args))
            return v

        return prop, BuiltinFn("closure", closure), log, created, verdicts

    # ---------------------------------------------------------------- CompiledRequirement.falsifiedByInner
    tgt = f"{R}:CompiledRequirement.falsifiedByInner"
    cn = short_of(tgt)

    def setup_f(I, env):
        prop, closure, log, created, verdicts = world(I, I.eng)
        self = PObj(repo_class(f"{R}:CompiledRequirement"), tag="self")
        self.fields.update(proposition=prop, closure=closure)
        sample = PObj("Sample", tag="sample")
        env.vars.update(self=self, sample=sample, _log=log, _created=created, _verdicts=verdicts)

    def post_f(I, env, outcome):
        eng = I.eng
        if outcome[0] != "return":
            return
        log, created, verdicts = env.vars["_log"], env.vars["_created"], env.vars["_verdicts"]
        ok = len(created) == 1 and len(verdicts) == 1 and [e[0] for e in log] == ["create_monitor", "closure"]
        eng.check(f"{cn}#ensures.fresh_monitor_evaluated_once_on_the_sample", ok and log[1][1][0] is env.vars["sample"] and log[1][1][1] is created[0])
        if ok:
            eng.check(f"{cn}#ensures.initial_scene_rejected_iff_step0_verdict_is_FALSE", tobool(I.truth(outcome[1])) == (b4val(verdicts[0]) == FALSE))

    def replay_f(inputs, clause):
        import rv_ltl
        from scenic.core.requirements import CompiledRequirement

        for name in ([inputs.get("verdict0")] if inputs.get("verdict0") in NAMES.values() else []) + list(NAMES.values()):
            v = getattr(rv_ltl.B4, name)
            made = []

            class Prop:
                def create_monitor(self):
                    made.append(object())
                    return made[-1]

            calls = []
            req = CompiledRequirement.__new__(CompiledRequirement)
            req.proposition = Prop()
            req.closure = lambda sample, monitor=None: (calls.append((sample, monitor)), v)[1]
            s = object()
            got = req.falsifiedByInner(s)
            if bool(got) != (name == "FALSE"):
                return f"CompiledRequirement.falsifiedByInner with step-0 verdict {name}: returns {got!r} (the initial scene must be rejected exactly for FALSE)"
            if len(made) != 1 or len(calls) != 1 or calls[0][0] is not s or calls[0][1] is not made[0]:
                return "falsifiedByInner does not evaluate the requirement once on the sample with one fresh monitor"
        return None

    reg.add(C.Contract(tgt, params=dict(self=C.Const(None), sample=C.Const(None)), setup=setup_f, post=post_f, replay=replay_f, properties=("C11",)))

    # ---------------------------------------------------------------- MonitorRequirement / DynamicMonitorRequirement
    def replay_mon(inputs, clause):
        import rv_ltl
        from scenic.core.requirements import DynamicMonitorRequirement, MonitorRequirement

        class Prop:
            def __init__(self):
                self.made = []

            def create_monitor(self):
                self.made.append(object())
                return self.made[-1]

        class CR:
            ty, line, name, recConfig = "require", 1, "r", None

        seq = [rv_ltl.B4.PRESUMABLY_TRUE, rv_ltl.B4.PRESUMABLY_FALSE, rv_ltl.B4.FALSE]
        for kind in ("MonitorRequirement", "DynamicMonitorRequirement"):
            p = Prop()
            calls = []
            it = iter(seq)
            if kind == "MonitorRequirement":
                cr = CR()
                cr.closure = lambda sample, monitor=None: (calls.append(monitor), next(it))[1]
                m = MonitorRequirement(cr, object(), p)
            else:
                m = DynamicMonitorRequirement(lambda monitor=None: (calls.append(monitor), next(it))[1], p, 1, "r")
            if m.lastValue is not rv_ltl.B4.TRUE or len(p.made) != 1:
                return f"{kind}: before the first step lastValue={m.lastValue}, monitors created {len(p.made)}"
            for want in seq:
                got = m.value()
                if got is not want or m.lastValue is not want:
                    return f"{kind}.value() returned {got}, lastValue {m.lastValue}, verdict of the step was {want}"
            if any(c is not p.made[0] for c in calls) or len(p.made) != 1:
                return f"{kind}.value() does not step the one persistent monitor"
        return None

    def make_value(clsname, closure_args):
        tgt = f"{R}:{clsname}.value"
        cn = short_of(tgt)

        def setup(I, env):
            prop, closure, log, created, verdicts = world(I, I.eng)
            self = PObj(repo_class(f"{R}:{clsname}"), tag="self")
            mon = PObj("PropositionMonitorStub", tag="the persistent monitor")
            sample = PObj("Sample", tag="sample")
            self.fields.update(closure=closure, monitor=mon, sample=sample, lastValue=ML.b4(TRUE), proposition=prop, condition=prop)
            env.vars.update(self=self, _log=log, _verdicts=verdicts, _mon=mon, _sample=sample)

        def post(I, env, outcome):
            eng = I.eng
            if outcome[0] != "return":
                return
            log, verdicts, self = env.vars["_log"], env.vars["_verdicts"], env.vars["self"]
            ok = len(verdicts) == 1 and [e[0] for e in log] == ["closure"]
            want_args = [env.vars["_sample"], env.vars["_mon"]] if closure_args == 2 else [env.vars["_mon"]]
            eng.check(f"{cn}#ensures.steps_the_persistent_monitor_exactly_once", ok and len(log[0][1]) == len(want_args) and all(a is b for a, b in zip(log[0][1], want_args)))
            if ok:
                eng.check(f"{cn}#ensures.returns_and_records_the_verdict_of_this_step", outcome[1] is verdicts[0] and self.fields.get("lastValue") is verdicts[0])

        reg.add(C.Contract(tgt, params=dict(self=C.Const(None)), setup=setup, post=post, replay=replay_mon, properties=("C11",)))

    make_value("MonitorRequirement", 2)
    make_value("DynamicMonitorRequirement", 1)

    def make_init(clsname, params):
        tgt = f"{R}:{clsname}.__init__"
        cn = short_of(tgt)

        def setup(I, env):
            prop, closure, log, created, verdicts = world(I, I.eng)
            self = PObj(repo_class(f"{R}:{clsname}"), tag="self")
            env.vars.update(self=self, _log=log, _created=created, _prop=prop)
            if clsname == "MonitorRequirement":
                cr = PObj("CompiledRequirementStub", tag="compiledReq")
                cr.fields.update(ty="require", closure=closure, line=1, name="r", recConfig=None)
                env.vars.update(compiledReq=cr, sample=PObj("Sample", tag="sample"), proposition=prop)
            else:
                env.vars.update(closure=closure, condition=prop, line=1, name="r")

        def post(I, env, outcome):
            eng = I.eng
            if outcome[0] != "return":
                return
            self, created, log = env.vars["self"], env.vars["_created"], env.vars["_log"]
            eng.check(f"{cn}#ensures.one_monitor_created_for_the_whole_simulation", len(created) == 1 and self.fields.get("monitor") is created[0] and [e[0] for e in log] == ["create_monitor"])
            lv = self.fields.get("lastValue")
            eng.check(f"{cn}#ensures.lastValue_is_TRUE_before_the_first_step", ML.is_b4(lv) and lv.fields["value"] == TRUE)

        reg.add(C.Contract(tgt, params={p: C.Const(None) for p in ["self"] + params}, setup=setup, post=post, inline=["BoundRequirement.__init__"], replay=replay_mon, properties=("C11",)))

    make_init("MonitorRequirement", ["compiledReq", "sample", "proposition"])
    make_init("DynamicMonitorRequirement", ["closure", "condition", "line", "name"])


# ================================================================================================ (6) DynamicScenario._step / _stop
NMON = 3


def _fake_scenario():
    from scenic.core.dynamics.scenarios import DynamicScenario

    sc = DynamicScenario.__new__(DynamicScenario)
    sc.__dict__.update(
        _isRunning=True, _timeLimitInSteps=None, _elapsedTime=0, _runningIterator=None, _compose=None, _endWithBehaviors=False, _terminationConditions=(), _agents=(),
        _monitors=[], _subScenarios=[], _overrides={}, _recordedExprs=(), _terminateSimulationConditions=(),
    )
    return sc


def replay_step(inputs, clause):
    import itertools as it

    import rv_ltl
    from scenic.core.dynamics.utils import RejectSimulationException

    given = [inputs.get(f"verdict{k}") for k in range(NMON)]
    combos = ([tuple(given)] if all(g in NAMES.values() for g in given) else []) + list(it.product(NAMES.values(), repeat=NMON))
    for combo in combos:
        calls = []

        class M:
            def __init__(self, k, v):
                self.k, self.v = k, v

            def value(self):
                calls.append(self.k)
                return getattr(rv_ltl.B4, self.v)

            def __str__(self):
                return f"requirement{self.k}"

        sc = _fake_scenario()
        sc._requirementMonitors = [M(k, v) for k, v in enumerate(combo)]
        try:
            sc._step()
            rejected = False
        except RejectSimulationException:
            rejected = True
        if rejected != ("FALSE" in combo):
            return f"DynamicScenario._step with requirement verdicts {combo}: {'rejected' if rejected else 'not rejected'} (reject iff some verdict is FALSE)"
        if not rejected and calls != list(range(NMON)):
            return f"DynamicScenario._step stepped the requirement monitors {calls} (each exactly once)"
    return None


def replay_stop(inputs, clause):
    import itertools as it

    import rv_ltl
    import scenic.syntax.veneer as veneer
    from scenic.core.dynamics.utils import RejectSimulationException

    saved = veneer.endScenario
    veneer.endScenario = lambda *a, **k: None
    try:
        for quiet in (False, True):
            for combo in it.product(NAMES.values(), repeat=2):

                class M:
                    def __init__(self, v):
                        self.lastValue = getattr(rv_ltl.B4, v)

                sc = _fake_scenario()
                sc._requirementMonitors = [M(v) for v in combo]
                try:
                    r = sc._stop("some reason", quiet=quiet)
                    rejected = False
                except RejectSimulationException:
                    rejected = True
                want = (not quiet) and any(v in ("FALSE", "PRESUMABLY_FALSE") for v in combo)
                if rejected != want:
                    return f"DynamicScenario._stop(quiet={quiet}) with last verdicts {combo}: {'rejected' if rejected else 'not rejected'} (reject iff not quiet and some last verdict is falsy)"
                if not rejected and r != "some reason":
                    return f"_stop returned {r!r}"
    finally:
        veneer.endScenario = saved
    return None


def register_step_stop(reg):
    B4T = ML.b4_type()
    reg.models[f"{V}:endScenario"] = lambda I, scenario, reason, quiet=False: None
    reg.trust("veneer.endScenario", "stub: book-keeping of the veneer's running-scenario stack (C12/C14); no effect on requirement verdicts")

    def scenario_obj(I):
        sc = PObj(repo_class(f"{D}:DynamicScenario"), tag="scenario")
        sc.fields.update(
            _isRunning=True, _timeLimitInSteps=None, _elapsedTime=0, _runningIterator=None, _compose=None, _endWithBehaviors=False, _terminationConditions=(), _agents=(),
            _monitors=PList([]), _subScenarios=PList([]), _overrides=PDict(), _recordedExprs=(),
        )
        return sc

    # ---------------------------------------------------------------- _step
    tgt = f"{D}:DynamicScenario._step"
    key = tgt + "[temporal requirements]"
    cn = short_of(tgt, key)

    def setup_step(I, env):
        eng = I.eng
        calls = []
        mons = []
        vals = []
        for k in range(NMON):
            v = B4T.fresh(eng, f"verdict{k}")
            eng.input_syms.append((f"verdict{k}", B4T, v))
            vals.append(v)
            m = PObj("RequirementMonitorStub", tag=f"requirement{k}")
            m.fields["value"] = BuiltinFn("value", lambda k=k, v=v: (calls.append(k), v)[1])
            mons.append(m)
        sc = scenario_obj(I)
        sc.fields["_requirementMonitors"] = PList(mons)
        env.vars.update(self=sc, _calls=calls, _vals=vals)

    def post_step(I, env, outcome):
        eng = I.eng
        vals, calls = env.vars["_vals"], env.vars["_calls"]
        some_false = z3.Or(*[b4val(v) == FALSE for v in vals])
        if outcome[0] == "raise":
            is_reject = getattr(outcome[1].cls, "name", "") == "RejectSimulationException"
            eng.check(f"{cn}#raises.only_RejectSimulationException", is_reject)
            eng.check(f"{cn}#ensures.rejects_only_if_some_verdict_is_FALSE", some_false)
            return
        eng.check(f"{cn}#ensures.some_verdict_FALSE_implies_rejection", z3.Not(some_false))
        eng.check(f"{cn}#ensures.every_requirement_monitor_stepped_exactly_once", calls == list(range(NMON)))
        eng.check(f"{cn}#ensures.scenario_continues", outcome[1] is None)

    reg.add(
        C.Contract(
            tgt,
            params=dict(self=C.Const(None)),
            setup=setup_step,
            post=post_step,
            raises=[C.Raises("RejectSimulationException", mode="may")],
            inline=["Invocable._step"],
            replay=replay_step,
            bounded=True,
            note=f"{NMON} requirement monitors with symbolic verdicts; no time limit, compose block, termination condition (their order is C12)",
            properties=("C11",),
        ),
        key=key,
    )

    # ---------------------------------------------------------------- _stop
    tgt2 = f"{D}:DynamicScenario._stop"
    key2 = tgt2 + "[temporal requirements]"
    cn2 = short_of(tgt2, key2)

    def setup_stop(I, env):
        eng = I.eng
        vals, mons = [], []
        for k in range(2):
            v = B4T.fresh(eng, f"last{k}")
            eng.input_syms.append((f"last{k}", B4T, v))
            vals.append(v)
            m = PObj("RequirementMonitorStub", tag=f"requirement{k}")
            m.fields["lastValue"] = v
            mons.append(m)
        sc = scenario_obj(I)
        sc.fields["_requirementMonitors"] = PList(mons)
        quiet = eng.choose(2, "quiet") == 1
        eng.input_syms.append(("quiet", C.Const(quiet), quiet))
        env.vars.update(self=sc, reason="some reason", quiet=quiet, _vals=vals)

    def post_stop(I, env, outcome):
        eng = I.eng
        vals, quiet = env.vars["_vals"], env.vars["quiet"]
        some_falsy = z3.Or(*[b4val(v) <= PF for v in vals])
        want = z3.And(z3.BoolVal(not quiet), some_falsy)
        if outcome[0] == "raise":
            eng.check(f"{cn2}#raises.only_RejectSimulationException", getattr(outcome[1].cls, "name", "") == "RejectSimulationException")
            eng.check(f"{cn2}#ensures.rejects_only_if_not_quiet_and_some_last_verdict_falsy", want)
            return
        eng.check(f"{cn2}#ensures.falsy_last_verdict_implies_rejection_unless_quiet", z3.Not(want))
        eng.check(f"{cn2}#ensures.returns_the_reason_and_drops_the_monitors", outcome[1] == "some reason" and env.vars["self"].fields.get("_requirementMonitors") is None)

    reg.add(
        C.Contract(
            tgt2,
            params=dict(self=C.Const(None), reason=C.Const(None), quiet=C.Const(None)),
            setup=setup_stop,
            post=post_stop,
            raises=[C.Raises("RejectSimulationException", mode="may")],
            inline=["Invocable._stop"],
            replay=replay_stop,
            bounded=True,
            note="2 requirement monitors with symbolic last verdicts; no sub-scenarios, monitors, overrides or recorders (C12/C14)",
            properties=("C11",),
        ),
        key=key2,
    )


# ================================================================================================ (7) veneer.require
REQ_SHAPES = [
    ("atom", "a"),
    ("not", ("atom", "a")),
    ("and", ("atom", "a"), ("atom", "b")),
    ("or", ("atom", "a"), ("atom", "b")),
    ("implies", ("atom", "a"), ("atom", "b")),
    ("not", ("and", ("atom", "a"), ("atom", "b"))),
]
REQ_TEMPORAL = ("always", ("implies", ("atom", "a"), ("next", ("atom", "b"))))


def py_truth(f, val):
    """ordinary Boolean meaning over the Python truth values of the atoms"""
    op = f[0]
    if op == "atom":
        return bool(val[f[1]])
    if op == "not":
        return not py_truth(f[1], val)
    if op == "and":
        return py_truth(f[1], val) and py_truth(f[2], val)
    if op == "or":
        return py_truth(f[1], val) or py_truth(f[2], val)
    if op == "implies":
        return (not py_truth(f[1], val)) or py_truth(f[2], val)
    raise ValueError(op)


def z_truth(I, f, val):
    op = f[0]
    if op == "atom":
        return tobool(I.truth(val[f[1]]))
    if op == "not":
        return z3.Not(z_truth(I, f[1], val))
    if op == "and":
        return z3.And(z_truth(I, f[1], val), z_truth(I, f[2], val))
    if op == "or":
        return z3.Or(z_truth(I, f[1], val), z_truth(I, f[2], val))
    if op == "implies":
        return z3.Implies(z_truth(I, f[1], val), z_truth(I, f[2], val))
    raise ValueError(op)


def replay_require(inputs, clause):
    """the real veneer.require in the three situations, on real proposition trees"""
    import itertools as it

    import scenic.syntax.veneer as veneer
    from scenic.core.errors import InvalidScenarioError
    from scenic.core.simulators import RejectSimulationException

    class Scn:
        def __init__(self):
            self.log = []

        def _addRequirement(self, *a):
            self.log.append(("static", a))

        def _addDynamicRequirement(self, *a):
            self.log.append(("dynamic", a))

    saved = (veneer.currentSimulation, veneer.currentScenario, veneer.evaluatingRequirement)

    def call(req, runtime, prob=1):
        scn = Scn()
        veneer.currentSimulation = object() if runtime else None
        veneer.currentScenario = scn
        veneer.evaluatingRequirement = False
        try:
            veneer.require(0, req, 3, "r", prob)
            return "ok", scn.log
        except RejectSimulationException:
            return "reject", scn.log
        except InvalidScenarioError:
            return "invalid", scn.log
        except Exception as e:
            return f"{type(e).__name__}: {e}", scn.log
        finally:
            veneer.currentSimulation, veneer.currentScenario, veneer.evaluatingRequirement = saved

    key = clause.split("#")[-1]
    want_all = key == "*"
    try:
        if want_all or "non_temporal" in key or "no-unexpected-exception" in key:
            given = ast.literal_eval(inputs["formula"]) if inputs.get("formula") else None
            shapes = [given] if given in REQ_SHAPES else []
            bool_only = key.endswith("[bool atoms]")
            for f in shapes + REQ_SHAPES:
                names = atoms_of(f)
                cands = []
                if all(x in inputs for x in names) and f is given:
                    cands.append({x: inputs[x] for x in names})
                cands += [dict(zip(names, vs)) for vs in it.product([True, False] if bool_only else [True, False, 2, 1], repeat=len(names))]
                for val in cands:
                    calls = []
                    req = real_scenic(f, {x: (lambda x=x: (calls.append(x), val[x])[1]) for x in names}, [0])
                    out, log = call(req, runtime=True)
                    want = "ok" if py_truth(f, val) else "reject"
                    if out != want:
                        return f"`require {show(f)}` executed at run time (inside a behavior / compose block) with {val}: outcome {out!r}, expected {want!r} (ordinary Boolean meaning of and/or/not/implies)"
                    if log:
                        return f"run-time non-temporal require registered {log}"
        t = real_scenic(REQ_TEMPORAL, {x: (lambda: True) for x in atoms_of(REQ_TEMPORAL)}, [0])
        if want_all or "run_time_temporal" in key or "no-unexpected-exception" in key:
            out, log = call(t, runtime=True)
            if out != "ok" or [k for k, _ in log] != ["dynamic"] or log[0][1][1] is not t:
                return f"temporal `require {show(REQ_TEMPORAL)}` executed at run time: outcome {out!r}, registrations {[k for k, _ in log]} (must be handed to the scenario as a dynamic requirement, unevaluated)"
        if want_all or "compile_time" in key or "InvalidScenarioError" in key:
            out, log = call(t, runtime=False)
            if out != "ok" or [k for k, _ in log] != ["static"] or log[0][1][2] is not t:
                return f"compile-time temporal require: outcome {out!r}, registrations {[k for k, _ in log]}"
            out, log = call(t, runtime=False, prob=0.5)
            if out != "invalid":
                return f"temporal require with probability 0.5: outcome {out!r} (must be an InvalidScenarioError)"
            n = real_scenic(REQ_SHAPES[2], {x: (lambda: True) for x in "ab"}, [0])
            out, log = call(n, runtime=False, prob=0.5)
            if out != "ok" or [k for k, _ in log] != ["static"]:
                return f"non-temporal require with probability 0.5 at compile time: outcome {out!r}, registrations {[k for k, _ in log]}"
    finally:
        veneer.currentSimulation, veneer.currentScenario, veneer.evaluatingRequirement = saved
    return None


def register_require(reg):
    tgt = f"{V}:require"
    cn = short_of(tgt)
    reg.global_overrides[f"{V}:currentSimulation"] = lambda I: I.c11_veneer["currentSimulation"]
    reg.global_overrides[f"{V}:currentScenario"] = lambda I: I.c11_veneer["currentScenario"]
    reg.global_overrides[f"{V}:evaluatingRequirement"] = lambda I: I.c11_veneer["evaluatingRequirement"]

    def setup(I, env):
        eng = I.eng
        log = []
        scn = PObj("ScenarioStub", tag="currentScenario")
        scn.fields["_addRequirement"] = BuiltinFn("_addRequirement", lambda *a: log.append(("static", a)))
        scn.fields["_addDynamicRequirement"] = BuiltinFn("_addDynamicRequirement", lambda *a: log.append(("dynamic", a)))
        mode = eng.choose(4, "situation")  # 0 compile time, 1 run time temporal, 2 run time non-temporal, 3 inside a requirement
        eng.input_syms.append(("situation", C.Const(mode), ["compile time", "run time, temporal", "run time, non-temporal", "inside a requirement"][mode]))
        I.c11_veneer = dict(currentSimulation=None if mode == 0 else PObj("Simulation", tag="simulation"), currentScenario=scn, evaluatingRequirement=(mode == 3))
        calls = []
        if mode == 2:
            f = REQ_SHAPES[eng.choose(len(REQ_SHAPES), "formula")]
        elif mode == 0:
            f = [REQ_TEMPORAL, REQ_SHAPES[2]][eng.choose(2, "temporal?")]
        else:
            f = REQ_TEMPORAL
        eng.input_syms.append(("formula", C.Const(repr(f)), repr(f)))
        names = atoms_of(f)
        val = {}
        for x in names:
            kind = eng.choose(3, f"{x}: bool / 2 / 1") if mode == 2 else 0
            val[x] = [eng.fresh_bool(x), 2, 1][kind]
            eng.input_syms.append((x, C.Bool() if kind == 0 else C.Const(val[x]), val[x]))
        closures = {x: BuiltinFn("closure_" + x, lambda x=x: (calls.append(x), val[x])[1]) for x in names}
        with driver_frame(I, BUILD, module=P):
            req = build_scenic(I, f, closures, [0])
        prob = 1 if mode != 0 else [1, 0.5][eng.choose(2, "prob")]
        env.vars.update(reqID=0, req=req, line=3, name="r", prob=prob, _mode=mode, _f=f, _val=val, _log=log, _calls=calls)

    def post(I, env, outcome):
        eng = I.eng
        mode, f, val, log, calls, req, prob = (env.vars[k] for k in ("_mode", "_f", "_val", "_log", "_calls", "req", "prob"))
        exc = getattr(outcome[1].cls, "name", getattr(outcome[1].cls, "__name__", "")) if outcome[0] == "raise" else None
        temporal = f == REQ_TEMPORAL
        if mode == 3:
            eng.check(f"{cn}#raises.InvalidScenarioError_for_a_requirement_inside_a_requirement", exc == "InvalidScenarioError")
        elif mode == 0:
            if temporal and prob != 1:
                eng.check(f"{cn}#raises.InvalidScenarioError_iff_temporal_with_probability_below_1", exc == "InvalidScenarioError")
            else:
                eng.check(f"{cn}#raises.InvalidScenarioError_iff_temporal_with_probability_below_1", exc is None)
                eng.check(f"{cn}#ensures.compile_time_requirement_registered_once_unevaluated", len(log) == 1 and log[0][0] == "static" and log[0][1][2] is req and log[0][1][5] == prob and not calls)
        elif mode == 1:
            eng.check(f"{cn}#ensures.run_time_temporal_requirement_becomes_a_dynamic_monitor_unevaluated", exc is None and len(log) == 1 and log[0][0] == "dynamic" and log[0][1][1] is req and not calls)
        else:
            if exc not in (None, "RejectSimulationException"):
                return  # reported by #no-unexpected-exception
            holds = z_truth(I, f, val)
            kind = "[bool atoms]" if all(isinstance(v, SV) for v in val.values()) else "[truthy non-bool atoms]"
            if exc is None:
                eng.check(f"{cn}#ensures.run_time_non_temporal_requirement_false_implies_rejection{kind}", holds)
            else:
                eng.check(f"{cn}#ensures.run_time_non_temporal_requirement_rejected_only_if_false{kind}", z3.Not(holds))
            eng.check(f"{cn}#ensures.run_time_non_temporal_requirement_evaluated_now_and_not_registered", not log and set(calls) <= set(atoms_of(f)) and len(calls) == len(set(calls)))

    reg.add(
        C.Contract(
            tgt,
            params={p: C.Const(None) for p in ("reqID", "req", "line", "name", "prob")},
            setup=setup,
            post=post,
            raises=[C.Raises("InvalidScenarioError", mode="may"), C.Raises("RejectSimulationException", mode="may")],
            inline_all=True,
            env=STR_ENV,
            replay=replay_require,
            bounded=True,
            note="non-temporal shapes: a, not a, a and b, a or b, a implies b, not (a and b); atom values: a symbolic bool, the int 2, the int 1 (truthy non-bools); "
            "temporal: always (a implies next b)",
            properties=("C11",),
        )
    )


# ================================================================================================ (8) requirements declared while the simulation runs
DYN_PROGRAMS = {
    "top-level compose block": """
scenario Main():
    setup:
        ego = new Object
    compose:
        require always a[T()]
        wait for 4 steps
""",
    "behavior of the top-level scenario": """
behavior B():
    require always a[T()]
    while True:
        wait
ego = new Object with behavior B
terminate after 4 steps
""",
    "compose block of a sub-scenario": """
scenario Sub():
    compose:
        require always a[T()]
        wait for 4 steps
scenario Main():
    setup:
        ego = new Object
    compose:
        do Sub()
""",
    "setup block of a sub-scenario": """
scenario Sub():
    setup:
        require always a[T()]
    compose:
        wait for 4 steps
scenario Main():
    setup:
        ego = new Object
    compose:
        do Sub()
""",
}


def run_program(body, table, steps=8):
    """compile + simulate (built-in dummy simulator) a program whose atoms read a truth table indexed by the current step"""
    import scenic
    from scenic.core.simulators import DummySimulator

    decl = "\n".join(f"{k} = {v!r}" for k, v in table.items())
    src = f"{decl}\ndef T():\n    import scenic.syntax.veneer as v\n    return v.currentSimulation.currentTime if v.currentSimulation is not None else 0\n{body}\n"
    sc = scenic.scenarioFromString(src, mode2D=True)
    scene, _ = sc.generate(maxIterations=1)
    try:
        sim = DummySimulator().simulate(scene, maxSteps=steps, maxIterations=1, timestep=1)
    except Exception as e:
        return f"raised {type(e).__name__}: {e}"
    return "rejected" if sim is None else "accepted"


def replay_dynamic(inputs, clause):
    table = dict(a=[True, True, False, True, True, True, True, True, True, True])
    sit = inputs.get("situation")
    pre = str(sit).split(":")[0] if sit else ""
    order = [k for k in DYN_PROGRAMS if pre and (k.startswith(pre) or pre.startswith(k))] + list(DYN_PROGRAMS)
    for k in order:
        out = run_program(DYN_PROGRAMS[k], table)
        if out != "rejected":
            return f"`require always a` executed in the {k}, a false at step 2: simulation {out} (must be rejected at step 2)"
    return None


def register_dynamic(reg):
    tgt = f"{D}:DynamicScenario._addDynamicRequirement"
    cn = short_of(tgt)
    SITUATIONS = ["setup block of a sub-scenario: not started yet", "compose block of a sub-scenario: running", "top-level compose block / behavior: running, requirements bound from the scene"]

    def setup(I, env):
        eng = I.eng
        k = eng.choose(3, "situation")
        eng.input_syms.append(("situation", C.Const(SITUATIONS[k]), SITUATIONS[k]))
        old_req = PObj("DynamicRequirementStub", tag="earlier requirement")
        old_mon = PObj("RequirementMonitorStub", tag="monitor of the earlier requirement")
        sc = PObj(repo_class(f"{D}:DynamicScenario"), tag="scenario")
        if k == 0:
            sc.fields.update(_isRunning=False, _temporalRequirements=PList([old_req]), _requirementMonitors=None)
        elif k == 1:
            sc.fields.update(_isRunning=True, _temporalRequirements=PList([old_req]), _requirementMonitors=PList([old_mon]))
        else:  # DynamicScenario._bindTo: self._temporalRequirements = scene.temporalRequirements, a tuple (Scene.__init__)
            sc.fields.update(_isRunning=True, _temporalRequirements=(old_req,), _requirementMonitors=PList([old_mon]))
        I.c11_veneer = dict(currentSimulation=PObj("Simulation", tag="simulation"), currentScenario=sc, evaluatingRequirement=False)
        made = []

        def create_monitor():
            made.append(PObj("PropositionMonitorStub", tag=f"monitor{len(made)}"))
            return made[-1]

        req = PObj("PropositionStub", tag="the temporal requirement")
        req.fields["create_monitor"] = BuiltinFn("create_monitor", create_monitor)
        env.vars.update(self=sc, ty="require", req=req, line=7, name="r", _k=k)

    def post(I, env, outcome):
        eng = I.eng
        if outcome[0] != "return":
            return  # reported by #no-unexpected-exception
        sc, req, k = env.vars["self"], env.vars["req"], env.vars["_k"]

        def is_for(x):
            return isinstance(x, PObj) and (x.fields.get("condition") is req or x.fields.get("proposition") is req)

        if k == 0:
            pend = sc.fields.get("_temporalRequirements")
            eng.check(f"{cn}#ensures.declared_before_start_is_registered_for_the_monitors_created_at_start", isinstance(pend, PList) and sum(1 for x in pend.items if is_for(x)) == 1)
        else:
            mons = sc.fields.get("_requirementMonitors")
            eng.check(f"{cn}#ensures.declared_while_running_is_monitored_from_now_on", isinstance(mons, PList) and sum(1 for x in mons.items if is_for(x)) == 1)

    reg.add(
        C.Contract(
            tgt,
            params={p: C.Const(None) for p in ("self", "ty", "req", "line", "name")},
            setup=setup,
            post=post,
            inline_all=True,
            replay=replay_dynamic,
            bounded=True,
            note="three situations in which veneer.require hands a temporal requirement to the current scenario at run time",
            properties=("C11",),
        )
    )
