"""C15: geometry helpers draw their internal randomness from a PRIVATE generator with a constant seed; the global
NumPy stream (visible to the user) is touched only in the documented fall-back, whose probability is bounded:
`findMeshInteriorPoint` tries N = ceil(min(1e6, max(1, log_{1-p}(0.01)))) private candidates first, where p is the
fraction of the bounding box filled by the mesh, so the fall-back is reached with probability (1-p)^N <= 1%."""
import z3

from pyvc import contracts as C
from pyvc.builtins_model import NativeModule
from pyvc.interp import BuiltinFn
from pyvc.values import Opaque, PObj, SV, compare, sv_and, tobool, toz3

U = "scenic.core.utils"
logb = z3.Function("log_base", z3.RealSort(), z3.RealSort(), z3.RealSort())  # math.log(x, base)


def register(reg):
    def setup(I, env):
        eng = I.eng
        events = []
        p = eng.fresh_real("fill_ratio")
        eng.assume(sv_and(compare(">", p, 0), compare("<=", p, 1)))
        eng.input_syms.append(("fill_ratio", C.Real(), p))
        com_inside = eng.fresh_bool("centre_inside")
        n_inside = eng.fresh_int("private_candidates_inside")
        eng.assume(compare(">=", n_inside, 0))

        class Arr(PObj):
            pass

        def arr(tag, **f):
            a = PObj("ndarray", tag=tag)
            a.fields.update(f)
            return a

        mesh = PObj("Trimesh", tag="mesh")
        bbox = PObj("Box", tag="bounding_box")
        vol = eng.fresh_real("bbox_volume")
        eng.assume(compare(">", vol, 0))
        bbox.fields.update(center_mass=arr("com"), volume=vol)
        mesh.fields.update(bounding_box=bbox, volume=p * vol, extents=arr("extents"), bounds=(arr("lo"), arr("hi")), face_normals=arr("normals"))

        def contains(pts):
            events.append(("contains", pts))
            if isinstance(pts, PObj) and pts.tag == "private_points":
                m = arr("mask")
                m.of = pts
                return m
            return (com_inside,)

        mesh.fields["contains"] = BuiltinFn("contains", contains)

        def sample(n, return_index=False):
            events.append(("GLOBAL numpy stream: mesh.sample", n))
            return ((arr("surfacePt"),), (0,))

        mesh.fields["sample"] = BuiltinFn("sample", sample)
        ray = PObj("Ray", tag="ray")
        ray.fields["intersects_location"] = BuiltinFn("intersects_location", lambda **k: (arr("hits", size=0), None, None))
        mesh.fields["ray"] = ray

        def default_rng(seed=None):
            events.append(("default_rng", seed))
            g = PObj("Generator", tag="private_rng")

            def random(shape):
                events.append(("private draw", shape))
                return arr("private_points")

            g.fields["random"] = BuiltinFn("random", random)
            return g

        numpy = NativeModule("numpy", {"random": NativeModule("numpy.random", {"default_rng": BuiltinFn("default_rng", default_rng)})})
        reg.extra_modules = getattr(reg, "extra_modules", {})
        reg.extra_modules["numpy"] = numpy

        def binop(I2, sym, a, b):
            if isinstance(a, PObj) and a.cls == "ndarray" or isinstance(b, PObj) and b.cls == "ndarray":
                return a if isinstance(a, PObj) and a.cls == "ndarray" else b
            raise Exception(f"binary operator {sym} not modelled")

        def getitem(I2, obj, idx):
            if isinstance(obj, PObj) and obj.cls == "ndarray":
                if obj.tag in ("inside_points", "hits"):
                    return arr(obj.tag + "[0]")
                if isinstance(idx, PObj) and idx.tag == "mask":
                    return arr("inside_points", size=n_inside * 3)
                return arr(obj.tag + "[...]")
            raise Exception("getitem not modelled")

        reg.unary_fallback = lambda I2, nm, v: v if isinstance(v, PObj) and v.cls == "ndarray" else NotImplemented
        reg.binop_fallback = binop
        reg.getitem_fallback = getitem
        # math.log with a base: uninterpreted
        import math

        mm = I.modules["math"]
        mm.attrs["log"] = BuiltinFn("log", lambda x, base=None: (events.append(("math.log", x, base)), SV(logb(toz3(x, want_real=True), toz3(base, want_real=True)), True))[1])
        env.vars.update(mesh=mesh, num_samples=None, _events=events, _p=p, _com_inside=com_inside, _n_inside=n_inside)

    def post(I, env, outcome):
        eng = I.eng
        name = "utils.findMeshInteriorPoint"
        ev, p = env.vars["_events"], env.vars["_p"]
        if outcome[0] != "return":
            return
        glob = [e for e in ev if str(e[0]).startswith("GLOBAL")]
        priv = [e for e in ev if e[0] == "private draw"]
        rngs = [e for e in ev if e[0] == "default_rng"]
        if glob:
            # the user-visible stream may only be touched after the private candidates all missed ...
            eng.check(f"{name}#ensures.global_stream_only_after_all_private_candidates_missed", sv_and(len(priv) == 1, compare("==", env.vars["_n_inside"], 0), z3.Not(tobool(env.vars["_com_inside"]))))
        if priv:
            eng.check(f"{name}#ensures.private_generator_has_a_constant_seed", len(rngs) == 1 and isinstance(rngs[0][1], int))
            shape = priv[0][1]
            n = shape[0]
            # ... and enough of them are tried: N = ceil(min(1e6, max(1, log_{1-p} 0.01))) (1 when p > 0.99)
            logs = [e for e in ev if e[0] == "math.log"]
            if logs:
                x, base = logs[0][1], logs[0][2]
                eng.check(f"{name}#ensures.number_of_candidates_is_the_log_of_one_percent_to_the_base_of_the_miss_probability", sv_and(compare("==", x, 0.01), compare("==", base, 1 - p)))
                L = SV(logb(z3.RealVal("1/100"), toz3(1 - p, want_real=True)), True)
                want = z3.If(toz3(L) < 1, z3.RealVal(1), z3.If(toz3(L) > 1000000, z3.RealVal(1000000), toz3(L)))
                eng.check(f"{name}#ensures.candidate_count_is_ceil_of_the_clamped_log", z3.And(z3.ToReal(toz3(n)) >= want, z3.ToReal(toz3(n)) < want + 1) if isinstance(n, SV) else z3.BoolVal(False))
            else:
                eng.check(f"{name}#ensures.single_candidate_only_when_the_mesh_fills_its_box", sv_and(compare("==", n, 1), compare(">", p, 0.99)))
            eng.check(f"{name}#ensures.three_coordinates_per_candidate", shape[1] == 3)

    def replay(inputs, clause):
        """The real function on real two-body meshes whose bounding-box centre lies outside the solid, with
        numpy.random.default_rng wrapped to see which generator is used and how many candidates are drawn."""
        import math

        import numpy
        import trimesh

        import scenic.core.utils as RU

        for gap in (1.0, 3.0, 8.0, 30.0):
            a = trimesh.creation.box((1, 1, 1))
            b = trimesh.creation.box((1, 1, 1))
            b.apply_translation((0, 0, 1 + gap))
            mesh = trimesh.util.concatenate([a, b])
            p = mesh.volume / mesh.bounding_box.volume
            want = 1 if p > 0.99 else math.ceil(min(1e6, max(1, math.log(0.01) / math.log(1 - p))))
            seen = []
            real = numpy.random.default_rng

            def spy(*args, _real=real, **kw):
                g = _real(*args, **kw)

                class G:
                    def random(self, size=None, *a, **k):
                        seen.append(("private", size))
                        return g.random(size, *a, **k)

                    def __getattr__(self, n):
                        return getattr(g, n)

                return G()

            numpy.random.default_rng = spy
            state = numpy.random.get_state()[1].copy()
            try:
                pt = RU.findMeshInteriorPoint(mesh)
            finally:
                numpy.random.default_rng = real
            if "global" in clause or "generator" in clause:
                if not numpy.array_equal(state, numpy.random.get_state()[1]) and mesh.contains([pt])[0] and seen:
                    return f"findMeshInteriorPoint drew from NumPy's global generator although a candidate from the private generator was inside (two unit cubes {gap} apart)"
            if not seen:
                return f"findMeshInteriorPoint did not draw its candidates from a private generator (two unit cubes {gap} apart)"
            n = seen[0][1][0] if isinstance(seen[0][1], tuple) else seen[0][1]
            if "candidate" in clause and n != want:
                return f"two unit cubes {gap} apart (solid fraction of the bounding box p = {p:.4f}): {n} candidate points drawn, but 99% confidence of hitting the solid needs ceil(log(0.01) / log(1 - p)) = {want}"
        return None

    reg.add(
        C.Contract(
            f"{U}:findMeshInteriorPoint",
            params=dict(mesh=C.Const(None), num_samples=C.Const(None)),
            setup=setup,
            post=post,
            replay=replay,
            properties=("C15",),
        )
    )
    reg.trust("trimesh/numpy (findMeshInteriorPoint)", "mesh.sample draws from NumPy's global generator; numpy.random.default_rng(seed) is a private generator; math.log(x, base) is the logarithm to that base (abstract)")
