"""Sidecar contracts for property C13: interrupts pre-empt and resume as documented; guards are checked
when promised.

Oracle: the property statement and docs/reference/statements.rst (try-interrupt): "at every step the running block
is pre-empted by the enabled handler whose clause comes latest (outer statements taking precedence over inner ones),
a pre-empted block later resumes exactly where it stopped, abort/break/continue/return inside handlers have their
documented effect [...].  Preconditions are checked when a behavior or scenario starts and invariants also every time
it resumes after an action or a finished sub-behaviour".

* `runTryInterrupt` (the runtime scheduler) is driven as a coroutine: the body, the handlers and the conditions are
  scripted objects whose every possible behaviour is explored (each resumption of a block either yields or concludes
  with FINISHED or another conclusion; each evaluation of a condition is true or false).  The ghost event trace is
  judged by `tryinterrupt_rules` below -- the SAME function judges the trace of the real generator in the replay driver.
* `visit_TryInterrupt` (the compiler): the tuples of conditions and handlers handed to the runtime are the REVERSE of
  the clause order and aligned pairwise, so that "first enabled in the tuple" means "latest clause".
* guards: `InterruptBlock.isEnabled` evaluates the condition inside `executeInGuard` and restores the flag on every
  exit; `Invocable._checkAllPreconditions` = preconditions, then invariants; `Behavior._start` creates the generator,
  then checks the guards, and does not step the generator."""
import ast

import z3

from pyvc import builtins_model as bm
from pyvc import contracts as C
from pyvc import extract
from pyvc import models_dyn as MD
from pyvc.interp import BuiltinFn, ClassVal, FuncVal, SymRaise
from pyvc.values import Opaque, PDict, PExc, PList, PObj, PSet, PyvcError, SV, compare, sv_and, sv_not, tobool

from .common import repo_class

IV = "scenic.core.dynamics.invocables"
BH = "scenic.core.dynamics.behaviors"
GD = "scenic.core.dynamics.guards"
V = "scenic.syntax.veneer"
CP = "scenic.syntax.compiler"

N_HANDLERS = 2
MAX_SENDS = 3  # bound on the total number of resumptions of blocks explored per path
CONCLUSIONS = ("FINISHED", "ABORT")  # ABORT stands for every conclusion other than FINISHED (BREAK, CONTINUE, RETURN are treated alike by the scheduler)
MAX_EVENTS = 16  # after that many trace events the script makes every condition false and every newly called block abort


# ----------------------------------------------------------------------------------------------------
# the oracle: rules on an event trace (model trace and real trace use the same vocabulary)
#   ("query", k, inside_guard)   condition k evaluated
#   ("call", blk)                block function called (blk = "body" | k)  -> creates iterator `it` or concludes at once
#   ("send", blk, it)            iterator `it` of block blk resumed
#   ("yield", blk)               that resumption suspended with an action (the statement yields it to the simulator)
#   ("conclude", blk, c)         that resumption (or call) ended the block with conclusion c
#   ("yielded",)                 the try-interrupt statement yielded to its caller
#   ("invariants",)              behavior.checkInvariants called
#   ("result", c)                the statement ended with conclusion c


def tryinterrupt_rules(ev, n=N_HANDLERS):
    """Returns {rule: None | description of the first violation}."""
    out = dict.fromkeys(
        [
            "first_enabled_or_running_handler_in_tuple_order_else_the_body",
            "conditions_evaluated_inside_a_guard",
            "a_pre_empted_block_resumes_through_the_same_iterator",
            "a_finished_handler_returns_control_to_the_selection",
            "any_other_conclusion_ends_the_statement_with_it",
            "invariants_checked_after_every_yield_before_the_next_selection",
            "exactly_one_block_advances_per_time_step",
        ]
    )

    def fail(rule, text):
        if out[rule] is None:
            out[rule] = text

    running = {}  # blk -> iterator
    i = 0
    ended = False
    while i < len(ev):
        e = ev[i]
        if ended:
            fail("any_other_conclusion_ends_the_statement_with_it", f"event {e} after the statement ended")
            break
        # ---- a selection round: queries, then one block is stepped
        queried = []
        while i < len(ev) and ev[i][0] == "query":
            queried.append(ev[i])
            if not ev[i][2]:
                fail("conditions_evaluated_inside_a_guard", f"condition {ev[i][1]} evaluated outside executeInGuard")
            i += 1
        if i >= len(ev):
            break
        e = ev[i]
        if e[0] == "result":
            # legal results are consumed where a block concludes (below); here the statement ended although no block did
            fail("any_other_conclusion_ends_the_statement_with_it", f"the statement ended with {e[1]} although no block had just concluded (conditions asked: {[(q[1], q[3]) for q in queried]}, suspended blocks: {sorted(map(str, running))})")
            break
        if e[0] not in ("call", "send"):
            fail("exactly_one_block_advances_per_time_step", f"unexpected event {e} at a selection point")
            break
        blk = e[1]
        # expected choice: first k (tuple order) with condition true or handler running; conditions asked in order up to it
        expect, asked = "body", []
        for k in range(n):
            asked.append(k)
            res = [q for q in queried if q[1] == k]
            true_now = bool(res) and res[0][3]
            if true_now or k in running:
                expect = k
                break
        if [q[1] for q in queried] != asked:
            fail("first_enabled_or_running_handler_in_tuple_order_else_the_body", f"conditions evaluated {[q[1] for q in queried]}, expected {asked} (in tuple order up to the first enabled/running handler)")
        if blk != expect:
            fail("first_enabled_or_running_handler_in_tuple_order_else_the_body", f"block {blk!r} was stepped, expected {expect!r} (running: {sorted(map(str, running))}, conditions: {[(q[1], q[3]) for q in queried]})")
        # ---- the step itself
        if e[0] == "call":
            if blk in running:
                fail("a_pre_empted_block_resumes_through_the_same_iterator", f"block {blk!r} was restarted from its beginning while it was suspended")
            i += 1
            if i < len(ev) and ev[i][0] == "conclude" and ev[i][1] == blk:
                outcome = ev[i]
                i += 1
            elif i < len(ev) and ev[i][0] == "send" and ev[i][1] == blk:
                running[blk] = ev[i][2]
                i += 1
                outcome = ev[i] if i < len(ev) else None
                i += 1
            else:
                fail("exactly_one_block_advances_per_time_step", f"block {blk!r} called but not stepped")
                break
        else:
            if blk not in running:
                fail("a_pre_empted_block_resumes_through_the_same_iterator", f"block {blk!r} resumed without having been started")
            elif running[blk] != e[2]:
                fail("a_pre_empted_block_resumes_through_the_same_iterator", f"block {blk!r} resumed through iterator {e[2]}, it was suspended in iterator {running[blk]}")
            i += 1
            outcome = ev[i] if i < len(ev) else None
            i += 1
        if outcome is None:
            break
        if outcome[0] == "yield":
            if not (i < len(ev) and ev[i][0] == "yielded"):
                fail("exactly_one_block_advances_per_time_step", f"after block {blk!r} took an action the statement did not yield but continued with {ev[i] if i < len(ev) else 'nothing'}")
                break
            i += 1
            if i < len(ev):
                if ev[i][0] != "invariants":
                    fail("invariants_checked_after_every_yield_before_the_next_selection", f"after resuming, {ev[i]} happened before the invariants were checked")
                else:
                    i += 1
        elif outcome[0] == "conclude":
            running.pop(blk, None)
            c = outcome[2]
            nxt = ev[i] if i < len(ev) else None
            if c == "FINISHED" and blk != "body":
                if nxt is not None and nxt[0] in ("result", "yielded"):
                    fail("a_finished_handler_returns_control_to_the_selection", f"after handler {blk} finished the statement did {nxt} instead of selecting the next block in the same step")
            else:
                if nxt is None or nxt[0] != "result" or nxt[1] != c:
                    fail("any_other_conclusion_ends_the_statement_with_it", f"block {blk!r} concluded {c}, then {nxt}")
                else:
                    i += 1
                    ended = True
        else:
            fail("exactly_one_block_advances_per_time_step", f"unexpected {outcome}")
            break
    return out


def register(reg):
    MD.install_veneer_state(reg)
    MD.install_iterators(reg)
    MD.install_fstrings(reg)
    MD.install_next(reg)
    from pyvc import models_spec

    models_spec.install(reg)

    def conclusion(I, name):
        return I.get_attr(repo_class(f"{IV}:BlockConclusion"), name)

    def conclusion_name(I, v):
        for nm in ("FINISHED", "ABORT", "RETURN", "BREAK", "CONTINUE"):
            if v is conclusion(I, nm):
                return nm
        return repr(v)

    # =============================================================================== runTryInterrupt
    def setup_rti(I, env):
        eng = I.eng
        st = MD.current_state(I)
        log = eng.events
        budget = {"sends": 0, "iters": 0}
        kind = {}  # a block function either is a generator function or is not

        def exhausted():
            return len(log) > MAX_EVENTS

        def make_block(blk):
            def fn(behavior, agent):
                log.append(("call", blk))
                if exhausted():
                    log.append(("conclude", blk, "ABORT"))
                    return conclusion(I, "ABORT")
                if blk not in kind:
                    kind[blk] = MD.pick(I, 2, f"block {blk}: contains take/wait/do (generator) or not")
                if kind[blk] == 1:
                    c = CONCLUSIONS[MD.pick(I, len(CONCLUSIONS), f"block {blk} concludes at once with")]
                    log.append(("conclude", blk, c))
                    return conclusion(I, c)
                budget["iters"] += 1
                it_id = budget["iters"]

                def step(k):
                    log.append(("send", blk, it_id))
                    budget["sends"] += 1
                    if budget["sends"] > MAX_SENDS:
                        what = 1 + MD.pick(I, len(CONCLUSIONS), f"block {blk} (bound reached) concludes with")
                    else:
                        what = MD.pick(I, 1 + len(CONCLUSIONS), f"block {blk} resumed: takes an action / concludes with ...")
                    if what == 0:
                        log.append(("yield", blk))
                        return ("yield", (f"action of block {blk}",))
                    c = CONCLUSIONS[what - 1]
                    log.append(("conclude", blk, c))
                    return ("return", conclusion(I, c))

                return MD.ScriptedIterator(f"iterator {it_id} of block {blk}", step)

            return BuiltinFn(f"block {blk}", fn)

        def make_cond(k):
            def cond():
                r = False if exhausted() else MD.pick(I, 2, f"condition {k} holds?") == 1
                log.append(("query", k, st.get("evaluatingGuard") is True, r))
                return r

            return BuiltinFn(f"condition {k}", cond)

        beh = PObj("Behavior", tag="behavior")
        beh.fields.update(_args=("arg",), _kwargs=PDict([("kw", 1)]))

        def check_inv(agent, *a, **k):
            log.append(("invariants",))
            ok = agent is None and a == ("arg",) and k == {"kw": 1}
            if not ok:
                log.append(("bad invariants call", agent, a, k))

        beh.fields["checkInvariants"] = BuiltinFn("checkInvariants", check_inv)
        env.vars.update(behavior=beh, agent=PObj("Agent", tag="agent"), body=make_block("body"), conditions=tuple(make_cond(k) for k in range(N_HANDLERS)), handlers=tuple(make_block(k) for k in range(N_HANDLERS)))

    def post_rti(I, env, outcome):
        eng = I.eng
        name = "invocables.runTryInterrupt"
        if outcome[0] != "return":
            eng.check(f"{name}#ensures.generator_created", False)
            return
        gen = outcome[1]
        log = eng.events

        def on_yield(I_, v):
            log.append(("yielded",))
            return None

        prev = I.registry.yield_hook
        I.registry.yield_hook = on_yield
        escaped = None
        try:
            I.iterate(gen)
        except SymRaise as sr:
            escaped = sr.exc
        finally:
            I.registry.yield_hook = prev
        eng.check(f"{name}#ensures.no_exception_of_its_own", escaped is None, detail=repr(escaped))
        if escaped is not None:
            return
        log.append(("result", conclusion_name(I, gen.result)))
        ev = [e for e in log if e[0] != "bad invariants call"]
        eng.input_syms.append(("script", C.Const(None), repr([(n[1], n[2]) for n in eng.path_notes if isinstance(n, tuple) and len(n) == 3 and n[0] == "choice"])))
        rules = tryinterrupt_rules(ev)
        for rule, bad in rules.items():
            eng.check(f"{name}#ensures.{rule}", bad is None, detail=f"{bad}; trace: {ev}")
        eng.check(f"{name}#ensures.invariants_checked_with_no_agent_and_the_behavior_arguments", not any(e[0] == "bad invariants call" for e in log))
        eng.check(f"{name}#ensures.guard_flag_clear_whenever_a_block_runs_and_at_the_end", MD.current_state(I).get("evaluatingGuard") is False)

    reg.add(
        C.Contract(
            f"{IV}:runTryInterrupt",
            params=dict(behavior=C.Const(None), agent=C.Const(None), body=C.Const(None), conditions=C.Const(None), handlers=C.Const(None)),
            setup=setup_rti,
            post=post_rti,
            inline=["InterruptBlock.__init__", "InterruptBlock.step", "InterruptBlock.isEnabled", "InterruptBlock.isRunning"],
            replay=replay_run_try_interrupt,
            bounded=True,
            note=f"bounded: {N_HANDLERS} handlers, at most {MAX_SENDS} resumptions of blocks per explored path (then every block concludes); every truth table of the conditions, every conclusion",
            properties=("C13",),
        )
    )

    # =============================================================================== InterruptBlock.isEnabled
    def setup_enabled(I, env):
        eng = I.eng
        st = MD.current_state(I)
        seen = []
        what = MD.pick(I, 5, "condition: true / false / truthy object / not yet evaluable (DelayedArgument) / raises")
        env.vars["_what"] = what

        def cond():
            seen.append(st.get("evaluatingGuard"))
            if what == 0:
                return True
            if what == 1:
                return False
            if what == 2:
                return eng.fresh_int("truthy")
            if what == 3:
                return PObj(repo_class("scenic.core.lazy_eval:DelayedArgument"), tag="delayed")
            raise SymRaise(PExc(bm.AnyException, ("raised by the interrupt condition",)))

        blk = PObj(repo_class(f"{IV}:InterruptBlock"), tag="interrupt")
        blk.fields.update(condition=BuiltinFn("condition", cond), body=None, runningIterator=None)
        env.vars["self"], env.vars["_seen"] = blk, seen

    def post_enabled(I, env, outcome):
        eng = I.eng
        name = "invocables.InterruptBlock.isEnabled"
        what, seen = env.vars["_what"], env.vars["_seen"]
        eng.check(f"{name}#ensures.condition_evaluated_once_inside_a_guard", seen == [True])
        eng.check(f"{name}#ensures.guard_flag_restored_on_every_exit", MD.current_state(I).get("evaluatingGuard") is False)
        if outcome[0] == "raise":
            eng.check(f"{name}#raises.only_what_the_condition_raises", what == 4)
            return
        r = outcome[1]
        want = {0: True, 1: False, 3: False}.get(what)
        if what == 2:
            eng.check(f"{name}#ensures.result_is_the_truth_value_of_the_condition", isinstance(r, (bool, SV)))
        else:
            eng.check(f"{name}#ensures.result_is_the_truth_value_of_the_condition", r is want and what != 4)

    reg.add(C.Contract(f"{IV}:InterruptBlock.isEnabled", params=dict(self=C.Const(None)), setup=setup_enabled, post=post_enabled, raises=[C.Raises("Exception", mode="may")], replay=replay_is_enabled, properties=("C13",)))

    # =============================================================================== Invocable._checkAllPreconditions / Behavior._start
    def guards_object(I, cls, log, fail_at):
        o = PObj(repo_class(cls), tag="behavior")
        o.fields.update(_args=("arg",), _kwargs=PDict([("kw", 1)]), _agent=PObj("Agent", tag="agent"), _isRunning=False, _runningIterator=None)

        def mk(kind):
            def chk(agent, *a, **k):
                log.append((kind, agent, a, dict(k), o.fields.get("_runningIterator")))
                if fail_at == kind:
                    cls_ = repo_class(f"{GD}:PreconditionViolation" if kind == "preconditions" else f"{GD}:InvariantViolation")
                    raise SymRaise(PExc(cls_, (o, 1)))

            return BuiltinFn("check" + kind.capitalize(), chk)

        o.fields["checkPreconditions"] = mk("preconditions")
        o.fields["checkInvariants"] = mk("invariants")
        return o

    def setup_cap(I, env):
        fail_at = [None, "preconditions", "invariants"][MD.pick(I, 3, "guards: all hold / a precondition fails / an invariant fails")]
        env.vars["_fail"] = fail_at
        env.vars["self"] = guards_object(I, f"{IV}:Invocable", I.eng.events, fail_at)

    def post_cap(I, env, outcome):
        eng = I.eng
        name = "invocables.Invocable._checkAllPreconditions"
        ev, fail_at, self = list(eng.events), env.vars["_fail"], env.vars["self"]
        ks = [e[0] for e in ev]
        want = ["preconditions"] if fail_at == "preconditions" else ["preconditions", "invariants"]
        eng.check(f"{name}#ensures.preconditions_then_invariants", ks == want)
        eng.check(f"{name}#ensures.guards_receive_the_agent_and_the_arguments", all(e[1] is self.fields["_agent"] and e[2] == ("arg",) and e[3] == {"kw": 1} for e in ev))
        eng.check(f"{name}#raises.violation_propagates_iff_a_guard_fails", (outcome[0] == "raise") == (fail_at is not None))

    reg.add(C.Contract(f"{IV}:Invocable._checkAllPreconditions", params=dict(self=C.Const(None)), setup=setup_cap, post=post_cap, raises=[C.Raises("Exception", mode="may")], replay=replay_guard_order, properties=("C13",)))

    def setup_bstart(I, env):
        fail_at = [None, "preconditions", "invariants"][MD.pick(I, 3, "guards: all hold / a precondition fails / an invariant fails")]
        env.vars["_fail"] = fail_at
        self = guards_object(I, f"{BH}:Behavior", I.eng.events, fail_at)
        self.fields["_agent"] = None
        gens = []

        def make_generator(agent, *a, **k):
            it = MD.ScriptedIterator("behavior generator", lambda n: I.eng.events.append(("generator stepped",)) or ("yield", ()))
            gens.append((it, agent, a, dict(k)))
            I.eng.events.append(("generator created",))
            return it

        self.fields["makeGenerator"] = BuiltinFn("makeGenerator", make_generator)
        env.vars["self"], env.vars["agent"], env.vars["_gens"] = self, PObj("Agent", tag="the agent"), gens

    def post_bstart(I, env, outcome):
        eng = I.eng
        name = "behaviors.Behavior._start"
        ev, fail_at, self, gens = list(eng.events), env.vars["_fail"], env.vars["self"], env.vars["_gens"]
        ks = [e[0] for e in ev]
        want = ["generator created", "preconditions"] + ([] if fail_at == "preconditions" else ["invariants"])
        eng.check(f"{name}#ensures.generator_created_then_preconditions_then_invariants", ks == want)
        eng.check(f"{name}#ensures.generator_not_stepped_before_the_guards_are_checked", "generator stepped" not in ks)
        ok = len(gens) == 1 and gens[0][1] is env.vars["agent"] and gens[0][2] == ("arg",) and gens[0][3] == {"kw": 1}
        eng.check(f"{name}#ensures.generator_created_for_the_agent_with_the_behavior_arguments", ok)
        guards = [e for e in ev if e[0] in ("preconditions", "invariants")]
        eng.check(f"{name}#ensures.guards_see_the_agent_and_the_created_generator", all(e[1] is env.vars["agent"] and e[4] is gens[0][0] for e in guards) if ok else False)
        eng.check(f"{name}#raises.violation_propagates_iff_a_guard_fails", (outcome[0] == "raise") == (fail_at is not None))
        if outcome[0] == "return":
            eng.check(f"{name}#ensures.behavior_running_and_assigned", self.fields["_isRunning"] is True and self.fields["_agent"] is env.vars["agent"])

    reg.add(
        C.Contract(
            f"{BH}:Behavior._start",
            params=dict(self=C.Const(None), agent=C.Const(None)),
            setup=setup_bstart,
            post=post_bstart,
            inline=["Invocable._start", "Invocable._finalizeArguments", "Invocable._checkAllPreconditions"],
            raises=[C.Raises("Exception", mode="may")],
            replay=replay_behavior_start,
            properties=("C13",),
        )
    )

    # =============================================================================== compiler: visit_TryInterrupt
    reg.models[f"{CP}:LocalFinder.findIn"] = lambda I, block: PSet()
    reg.trust("LocalFinder.findIn", "stub: the clause bodies used here assign no local variables")

    def setup_vti(I, env):
        n = 1 + MD.pick(I, 3, "number of interrupt clauses (1-3)")
        env.vars["_n"] = n
        handlers = []
        for k in range(n):
            h = PObj("InterruptWhenHandler", tag=f"clause {k}")
            h.fields.update(cond=ast.Name(f"cond{k}", ast.Load()), body=PList([ast.Expr(ast.Name(f"handler_body{k}", ast.Load()))]))
            handlers.append(h)
        node = PObj("TryInterrupt", tag="try-interrupt")
        node.fields.update(body=PList([ast.Expr(ast.Name("try_body", ast.Load()))]), interrupt_when_handlers=PList(handlers), except_handlers=PList(), orelse=PList(), finalbody=PList())
        self = PObj(repo_class(f"{CP}:ScenicToPythonTransformer"), tag="transformer")
        self.fields.update(inTryInterrupt=False, inInterruptBlock=False, inLoop=True, usedBreak=False, usedContinue=False, inGuard=False)
        guard_seen = []

        def visit(x):
            if isinstance(x, PList):
                return PList(list(x.items))
            if isinstance(x, ast.Name) and x.id.startswith("cond"):
                guard_seen.append((x.id, self.fields["inGuard"]))
            return x

        self.fields["visit"] = BuiltinFn("visit", visit)
        env.vars.update(self=self, node=node)
        env.vars["_guard_seen"] = guard_seen

    def post_vti(I, env, outcome):
        eng = I.eng
        name = "compiler.ScenicToPythonTransformer.visit_TryInterrupt"
        if outcome[0] != "return":
            return
        n = env.vars["_n"]
        L = lambda x: list(x.items) if isinstance(x, PList) else list(x)  # noqa: E731
        stmts = I.iterate(outcome[1])
        defs = {s.name: s for s in stmts if isinstance(s, ast.FunctionDef)}
        assigns = {L(s.targets)[0].id: s for s in stmts if isinstance(s, ast.Assign) and isinstance(L(s.targets)[0], ast.Name)}
        calls = [s for s in stmts if isinstance(s, ast.Assign) and isinstance(s.value, ast.YieldFrom)]
        eng.check(f"{name}#ensures.one_call_of_the_runtime_scheduler", len(calls) == 1 and isinstance(calls[0].value.value, ast.Call) and calls[0].value.value.func.id == "runTryInterrupt")
        if len(calls) != 1:
            return
        args = L(calls[0].value.value.args)
        items = lambda a: L(a.elts)  # noqa: E731
        conds, hands = [x.id for x in items(args[3])], [x.id for x in items(args[4])]

        def clause_of_handler(fname):
            body = defs[fname].body
            body = body.items if isinstance(body, PList) else body
            names = [b.value.id for b in body if isinstance(b, ast.Expr) and isinstance(b.value, ast.Name)]
            return int(names[0][len("handler_body") :]) if names and names[0].startswith("handler_body") else None

        def clause_of_condition(cname):
            lam = assigns[cname].value
            return int(lam.body.id[len("cond") :]) if isinstance(lam, ast.Lambda) and isinstance(lam.body, ast.Name) else None

        ok_names = all(c in assigns for c in conds) and all(h in defs for h in hands) and len(conds) == n and len(hands) == n
        eng.check(f"{name}#ensures.every_clause_has_one_condition_and_one_handler_function", ok_names)
        if not ok_names:
            return
        cond_clauses = [clause_of_condition(c) for c in conds]
        hand_clauses = [clause_of_handler(h) for h in hands]
        # "the enabled handler whose clause comes latest": with the runtime's first-match rule the tuples must list the clauses latest first
        eng.check(f"{name}#ensures.conditions_listed_from_the_latest_clause_to_the_first", cond_clauses == list(range(n - 1, -1, -1)), detail=repr(cond_clauses))
        eng.check(f"{name}#ensures.handlers_listed_from_the_latest_clause_to_the_first", hand_clauses == list(range(n - 1, -1, -1)), detail=repr(hand_clauses))
        eng.check(f"{name}#ensures.conditions_and_handlers_aligned_pairwise", cond_clauses == hand_clauses)
        body_fn = args[2].id
        bb = defs[body_fn].body
        bb = bb.items if isinstance(bb, PList) else bb
        eng.check(f"{name}#ensures.body_function_is_the_try_body", any(isinstance(b, ast.Expr) and getattr(b.value, "id", None) == "try_body" for b in bb))
        # every block function ends by reporting FINISHED; conditions are compiled as guards
        ends = all(isinstance((d.body.items if isinstance(d.body, PList) else d.body)[-1], ast.Return) for d in defs.values())
        eng.check(f"{name}#ensures.every_block_function_ends_with_return_FINISHED", ends)
        eng.check(f"{name}#ensures.conditions_compiled_as_guards_and_flag_cleared", all(g for _, g in env.vars["_guard_seen"]) and len(env.vars["_guard_seen"]) == n and env.vars["self"].fields["inGuard"] is False)
        eng.check(f"{name}#ensures.translator_state_restored", env.vars["self"].fields["inTryInterrupt"] is False and env.vars["self"].fields["inInterruptBlock"] is False and env.vars["self"].fields["inLoop"] is True)

    reg.add(
        C.Contract(
            f"{CP}:ScenicToPythonTransformer.visit_TryInterrupt",
            params=dict(self=C.Const(None), node=C.Const(None)),
            setup=setup_vti,
            post=post_vti,
            replay=replay_clause_priority,
            bounded=True,
            note="bounded: 1-3 interrupt clauses; `visit` is the identity on the clause bodies/conditions used; no except/finally clauses",
            properties=("C13",),
        )
    )


def register_nested(reg):
    """visit_TryInterrupt for a try-interrupt statement NESTED in a block of another one.

    Documentation (statements.rst, try-interrupt): `break`, `continue` and `return` inside a block of a try-interrupt
    statement act on the loop / behavior that CONTAINS the statement, however deeply the block is nested.  Since every
    block is compiled into its own function, an inner statement that sits inside a block function must hand such a
    conclusion to the enclosing statement (it cannot execute a Python break/continue there, and a plain `return value`
    would look like normal completion of the enclosing block)."""

    def setup(I, env):
        K = ["return", "break", "continue"][MD.pick(I, 3, "the inner handler executes return 42 / break / continue")]
        in_loop_of_block = MD.pick(I, 2, "inner statement directly in the outer body block / inside a `while` of that block") == 1
        outer_in_loop = MD.pick(I, 2, "outer statement inside a loop of the behavior?") == 1
        env.vars["_case"] = (K, in_loop_of_block, outer_in_loop)
        I.eng.input_syms.append(("case", C.Const(None), repr((K, in_loop_of_block, outer_in_loop))))
        ctl = {"return": ast.Return(ast.Constant(42)), "break": ast.Break(), "continue": ast.Continue()}[K]

        def clause(tag, body):
            h = PObj("InterruptWhenHandler", tag=tag)
            h.fields.update(cond=ast.Name(f"cond_{tag}", ast.Load()), body=PList(body))
            return h

        def try_interrupt(tag, body, handlers):
            n = PObj("TryInterrupt", tag=tag)
            n.fields.update(body=PList(body), interrupt_when_handlers=PList(handlers), except_handlers=PList(), orelse=PList(), finalbody=PList())
            return n

        marker = lambda nm: ast.Expr(ast.Name(nm, ast.Load()))  # noqa: E731
        inner = try_interrupt("inner", [marker("inner_body")], [clause("inner", [ctl])])
        placed = ast.While(test=ast.Constant(True), body=PList([inner]), orelse=PList()) if in_loop_of_block else inner
        outer = try_interrupt("outer", [placed, marker("after_inner")], [clause("outer", [marker("outer_handler")])])
        self = PObj(repo_class(f"{CP}:ScenicToPythonTransformer"), tag="transformer")
        self.fields.update(inTryInterrupt=False, inInterruptBlock=False, inLoop=outer_in_loop, usedBreak=False, usedContinue=False, inGuard=False)
        cls = repo_class(f"{CP}:ScenicToPythonTransformer")

        def real(name, node):
            return I.run_function(I.find_method(cls, name), [self, node], {}, None)

        def visit(x):
            if isinstance(x, PList):
                out = []
                for stmt in x.items:
                    r = visit(stmt)
                    out.extend(r.items if isinstance(r, PList) else [r])
                return PList(out)
            if isinstance(x, PObj) and x.cls == "TryInterrupt":
                return real("visit_TryInterrupt", x)
            for ty, m in ((ast.Break, "visit_Break"), (ast.Continue, "visit_Continue"), (ast.Return, "visit_Return"), (ast.While, "visit_While")):
                if isinstance(x, ty):
                    return real(m, x)
            return x

        def generic_visit(node):
            if isinstance(node, ast.While):
                node.body = visit(node.body)
            return node

        self.fields["visit"] = BuiltinFn("visit", visit)
        self.fields["generic_visit"] = BuiltinFn("generic_visit", generic_visit)
        env.vars.update(self=self, node=outer)

    def L(x):
        return list(x.items) if isinstance(x, PList) else list(x)

    def bare_loop_control(stmts):
        """break/continue statements of a function body that are not inside a loop of that function."""
        bad = []
        for st in L(stmts):
            if isinstance(st, (ast.Break, ast.Continue)):
                bad.append(type(st).__name__.lower())
            elif isinstance(st, ast.If):
                bad += bare_loop_control(st.body) + bare_loop_control(st.orelse)
        return bad

    def all_functions(stmts):
        out = []
        for st in L(stmts):
            if isinstance(st, ast.FunctionDef):
                out.append(st)
                out += all_functions(st.body)
            elif isinstance(st, (ast.If, ast.While)):
                out += all_functions(st.body) + all_functions(st.orelse)
        return out

    def checks(stmts):
        """{conclusion name: the `if <result> is BlockConclusion.X:` statement} among the given statements."""
        out = {}
        for st in L(stmts):
            if isinstance(st, ast.If) and isinstance(st.test, ast.Compare) and isinstance(st.test.left, ast.Name):
                comp = L(st.test.comparators)
                if comp and isinstance(comp[0], ast.Attribute) and getattr(comp[0].value, "id", None) == "BlockConclusion":
                    out[comp[0].attr] = st
        return out

    def returned(ifstmt):
        b = L(ifstmt.body)
        return b[0] if b else None

    def post(I, env, outcome):
        eng = I.eng
        name = "compiler.ScenicToPythonTransformer.visit_TryInterrupt[nested]"
        K, in_loop_of_block, outer_in_loop = env.vars["_case"]
        if outcome[0] != "return":
            eng.check(f"{name}#ensures.compiles_without_error", False, detail=repr(outcome[1]))
            return
        top = L(I.iterate(outcome[1]))
        fns = {f.name: f for f in top if isinstance(f, ast.FunctionDef)}
        body_fn = [f for nm, f in fns.items() if nm.endswith("_body")]
        eng.check(f"{name}#ensures.outer_body_compiled_into_a_block_function", len(body_fn) == 1)
        if len(body_fn) != 1:
            return
        block = L(body_fn[0].body)
        inner_stmts = block
        if in_loop_of_block:
            loops = [st for st in block if isinstance(st, ast.While)]
            inner_stmts = L(loops[0].body) if loops else []
        detail = f"inner handler: {K}; inner statement {'inside a while of' if in_loop_of_block else 'directly in'} the outer body block"
        # (1) every block is a function of its own: no Python break/continue may be left outside a loop of that function
        bad = [(f.name, bare_loop_control(f.body)) for f in all_functions(top) if bare_loop_control(f.body)]
        eng.check(f"{name}#ensures.no_bare_break_or_continue_outside_a_loop_inside_a_block_function", not bad, detail=f"{detail}; found {bad}")
        inner = checks(inner_stmts)
        outer = checks(top)
        tmp = I.resolve_global(extract.get_module(CP), "temporaryName")
        # (2) RETURN from a block of the inner statement reaches the enclosing statement unchanged (value included)
        r = returned(inner["RETURN"]) if "RETURN" in inner else None
        ok = isinstance(r, ast.Return) and isinstance(r.value, ast.Name) and r.value.id == tmp
        eng.check(f"{name}#ensures.inner_statement_passes_a_RETURN_conclusion_on_unchanged_with_its_value", ok, detail=f"{detail}; the inner epilogue returns {ast.dump(r.value) if isinstance(r, ast.Return) and isinstance(r.value, ast.AST) else r!r}")
        # (3) BREAK / CONTINUE from a block of the inner statement
        for kind, cname, node_ty in (("break", "BREAK", ast.Break), ("continue", "CONTINUE", ast.Continue)):
            if K != kind:
                continue
            st = returned(inner[cname]) if cname in inner else None
            if in_loop_of_block:
                # the loop is in the same function as the inner statement: it is left / continued right there
                eng.check(f"{name}#ensures.{kind}_acts_on_the_loop_of_the_block_that_contains_the_inner_statement", isinstance(st, node_ty), detail=detail)
            else:
                ok = isinstance(st, ast.Return) and isinstance(st.value, ast.Attribute) and st.value.attr == cname
                eng.check(f"{name}#ensures.inner_statement_passes_{cname}_on_as_the_conclusion_of_the_enclosing_block", ok, detail=detail)
        # (4) the enclosing statement treats what it receives exactly as if its own block had concluded that way
        for kind, cname, node_ty in (("break", "BREAK", ast.Break), ("continue", "CONTINUE", ast.Continue)):
            needed = K == kind and not in_loop_of_block
            have = cname in outer
            eng.check(f"{name}#ensures.enclosing_statement_handles_{cname}_iff_one_of_its_blocks_can_conclude_so", have == needed, detail=f"{detail}; epilogue of the enclosing statement {'has' if have else 'lacks'} the {cname} check")
            if have and needed:
                eng.check(f"{name}#ensures.enclosing_statement_executes_the_{kind}_itself", isinstance(returned(outer[cname]), node_ty))
        r = returned(outer["RETURN"]) if "RETURN" in outer else None
        ok = isinstance(r, ast.Return) and isinstance(r.value, ast.Attribute) and r.value.attr == "return_value"
        eng.check(f"{name}#ensures.enclosing_statement_returns_the_value_of_a_RETURN_conclusion_from_the_behavior", ok)
        self = env.vars["self"]
        eng.check(f"{name}#ensures.translator_flags_of_the_enclosing_context_restored", self.fields["inInterruptBlock"] is False and self.fields["inLoop"] is outer_in_loop and self.fields["usedBreak"] is False and self.fields["usedContinue"] is False and self.fields["inTryInterrupt"] is False)

    reg.add(
        C.Contract(
            f"{CP}:ScenicToPythonTransformer.visit_TryInterrupt",
            params=dict(self=C.Const(None), node=C.Const(None)),
            setup=setup,
            post=post,
            inline=["ScenicToPythonTransformer.visit_TryInterrupt", "ScenicToPythonTransformer.visit_Break", "ScenicToPythonTransformer.visit_Continue", "ScenicToPythonTransformer.visit_Return", "ScenicToPythonTransformer.visit_While"],
            replay=replay_nested_control,
            bounded=True,
            note="bounded: one try-interrupt nested in the body block of another (directly or inside a `while` of that block), inner handler = return 42 / break / continue; "
            "`visit` dispatches to the REAL visit_TryInterrupt / visit_Break / visit_Continue / visit_Return / visit_While and is the identity elsewhere",
            properties=("C13",),
        ),
        key=f"{CP}:ScenicToPythonTransformer.visit_TryInterrupt[nested]",
    )


def register_loops(reg):
    """visit_While / visit_For / visit_Break / visit_Continue inside a block of a try-interrupt statement.

    Documentation: inside a block, `break` / `continue` that are lexically inside a loop OF THAT BLOCK are ordinary loop
    control; only those not enclosed by a loop of the block act on the loop around the try-interrupt statement."""

    cls_name = f"{CP}:ScenicToPythonTransformer"

    def build(I, env, outer_kind):
        nested = ["none", "while", "for"][MD.pick(I, 3, "statement before the break/continue in the loop body: nothing / a nested while / a nested for")]
        ctl_kind = ["break", "continue"][MD.pick(I, 2, "break / continue")]
        entry_in_loop = MD.pick(I, 2, "the loop itself is inside another loop of the block?") == 1
        env.vars["_case"] = (outer_kind, nested, ctl_kind, entry_in_loop)
        I.eng.input_syms.append(("case", C.Const(None), repr((outer_kind, nested, ctl_kind, entry_in_loop))))
        marker = lambda nm: ast.Expr(ast.Name(nm, ast.Load()))  # noqa: E731

        def loop(kind, body):
            if kind == "while":
                return ast.While(test=ast.Constant(True), body=PList(body), orelse=PList())
            return ast.For(target=ast.Name("i", ast.Store()), iter=ast.Name("items", ast.Load()), body=PList(body), orelse=PList())

        inner_ctl = ast.Break() if ctl_kind == "break" else ast.Continue()
        ctl = ast.Break() if ctl_kind == "break" else ast.Continue()
        body = []
        if nested != "none":
            body.append(loop(nested, [marker("inner_loop_body"), inner_ctl]))
        body += [marker("between"), ctl]
        node = loop(outer_kind, body)
        self = PObj(repo_class(cls_name), tag="transformer")
        self.fields.update(inTryInterrupt=True, inInterruptBlock=True, inLoop=entry_in_loop, usedBreak=False, usedContinue=False, inGuard=False)
        cls = repo_class(cls_name)

        def real(name, n):
            return I.run_function(I.find_method(cls, name), [self, n], {}, None)

        def visit(x):
            if isinstance(x, PList):
                out = []
                for stmt in x.items:
                    r = visit(stmt)
                    out.extend(r.items if isinstance(r, PList) else [r])
                return PList(out)
            for ty, m in ((ast.Break, "visit_Break"), (ast.Continue, "visit_Continue"), (ast.While, "visit_While"), (ast.For, "visit_For")):
                if isinstance(x, ty):
                    return real(m, x)
            return x

        def generic_visit(n):
            if isinstance(n, (ast.While, ast.For)):
                n.body = visit(n.body)
            return n

        self.fields["visit"] = BuiltinFn("visit", visit)
        self.fields["generic_visit"] = BuiltinFn("generic_visit", generic_visit)
        env.vars.update(self=self, node=node)
        env.vars["_ctl"] = (ctl, inner_ctl)

    def post_for(kind):
        def post(I, env, outcome):
            eng = I.eng
            name = f"compiler.ScenicToPythonTransformer.visit_{'While' if kind == 'while' else 'For'}"
            outer_kind, nested, ctl_kind, entry_in_loop = env.vars["_case"]
            self = env.vars["self"]
            detail = f"`{ctl_kind}` in a `{outer_kind}` loop of a block, preceded by {'nothing' if nested == 'none' else 'a nested `' + nested + '` loop'}"
            if outcome[0] != "return":
                eng.check(f"{name}#ensures.compiles_without_error", False, detail=repr(outcome[1]))
                return
            new = outcome[1]
            body = list(new.body.items) if isinstance(new.body, PList) else list(new.body)
            want = ast.Break if ctl_kind == "break" else ast.Continue
            # frame on the translator state
            eng.check(f"{name}#ensures.inLoop_flag_has_its_entry_value_after_the_loop", self.fields["inLoop"] is entry_in_loop, detail=detail)
            # loop control lexically inside this loop stays ordinary loop control, whatever precedes it
            eng.check(f"{name}#ensures.loop_control_inside_a_loop_of_the_block_stays_plain_python_whatever_precedes_it", isinstance(body[-1], want), detail=f"{detail}; compiled to {ast.dump(body[-1]) if isinstance(body[-1], ast.AST) else body[-1]!r}")
            if nested != "none":
                ib = body[0].body
                ib = list(ib.items) if isinstance(ib, PList) else list(ib)
                eng.check(f"{name}#ensures.loop_control_inside_the_nested_loop_stays_plain_python", isinstance(ib[-1], want), detail=detail)
            eng.check(f"{name}#ensures.no_block_conclusion_recorded_for_loop_control_inside_a_loop", self.fields["usedBreak"] is False and self.fields["usedContinue"] is False, detail=detail)

        return post

    for kind, meth in (("while", "visit_While"), ("for", "visit_For")):
        reg.add(
            C.Contract(
                f"{cls_name}.{meth}",
                params=dict(self=C.Const(None), node=C.Const(None)),
                setup=(lambda k: lambda I, env: build(I, env, k))(kind),
                post=post_for(kind),
                inline=[f"ScenicToPythonTransformer.{m}" for m in ("visit_While", "visit_For", "visit_Break", "visit_Continue")],
                replay=replay_loop_control,
                bounded=True,
                note="bounded: a loop inside a block of a try-interrupt statement whose body is [optional nested while/for ending in break/continue, a statement, break/continue]; "
                "`visit`/`generic_visit` dispatch to the REAL visit_While / visit_For / visit_Break / visit_Continue",
                properties=("C13",),
            )
        )


def register_invoke_inner(reg):
    """Behavior._invokeInner: "sub-behaviours started under a block that is abandoned are stopped".

    The generator can end in three ways: the sub-behaviour finishes, the sub-behaviour raises, or the generator is
    CLOSED while it is suspended in `yield from` (the block it runs under is abandoned by abort/break/continue/return of
    a handler, or the behavior is stopped).  Closing is modelled at the suspension point: the delegated iterator is
    closed and `GeneratorExit` -- a BaseException that `except Exception` does not catch -- is raised at the `yield from`."""

    REJECT = "scenic.core.dynamics.utils:RejectSimulationException"

    def setup(I, env):
        eng = I.eng
        st = MD.current_state(I)
        log = eng.events
        n_yields = MD.pick(I, 3, "actions taken by the sub-behaviour before the generator ends (0-2)")
        how = ["finishes", "raises an error", "rejects the simulation", "closed while suspended"][MD.pick(I, 4, "how the generator ends: sub-behaviour finishes / raises / rejects / generator closed while suspended")]
        env.vars["_case"] = (n_yields, how)
        eng.input_syms.append(("case", C.Const(None), repr((n_yields, how))))
        sub = PObj(repo_class(f"{BH}:Behavior"), tag="sub-behaviour")
        sub.fields.update(_isRunning=False, _agent=None, _runningIterator=None)

        def step(k):
            log.append(("sub resumed", st.get("currentBehavior")))
            if k < n_yields:
                return ("yield", (f"action {k}",))
            if how == "finishes":
                return ("return", None)
            if how == "raises an error":
                return ("raise", PExc(bm.AnyException, ("raised by the sub-behaviour",)))
            if how == "rejects the simulation":
                return ("raise", PExc(repo_class(REJECT), ("rejected",)))
            return ("close", None)

        def start(agent):
            log.append(("start", agent))
            sub.fields.update(_isRunning=True, _agent=agent, _runningIterator=MD.ScriptedIterator("sub-behaviour generator", step))

        def stop(reason=None):
            log.append(("stop", sub.fields["_isRunning"]))
            sub.fields.update(_isRunning=False, _agent=None, _runningIterator=None)

        sub.fields["_start"], sub.fields["_stop"] = BuiltinFn("_start", start), BuiltinFn("_stop", stop)
        outer = PObj(repo_class(f"{BH}:Behavior"), tag="invoking behavior")
        st.set("currentBehavior", outer)
        env.vars.update(self=outer, agent=PObj("Agent", tag="agent"), subs=(sub,))
        env.vars["_sub"] = sub

    def post(I, env, outcome):
        eng = I.eng
        name = "behaviors.Behavior._invokeInner"
        n_yields, how = env.vars["_case"]
        sub = env.vars["_sub"]
        if outcome[0] != "return":
            eng.check(f"{name}#ensures.generator_created", False)
            return
        gen = outcome[1]
        ended = ("return", None)
        try:
            items = I.iterate(gen)
        except SymRaise as sr:
            ended = ("raise", sr.exc)
            items = list(gen.frame.yielded or [])
        ev = list(eng.events)
        starts = [e for e in ev if e[0] == "start"]
        stops = [e for e in ev if e[0] == "stop"]
        detail = f"the sub-behaviour takes {n_yields} action(s), then: {how}"
        eng.check(f"{name}#ensures.sub_behaviour_started_once_for_the_agent", len(starts) == 1 and starts[0][1] is env.vars["agent"])
        eng.check(f"{name}#ensures.every_started_sub_behaviour_stopped_exactly_once_however_the_generator_ends", len(stops) == 1 and stops[0][1] is True and sub.fields["_isRunning"] is False, detail=detail + f"; _stop called {len(stops)} time(s), _isRunning = {sub.fields['_isRunning']}")
        eng.check(f"{name}#ensures.sub_behaviour_runs_as_the_current_behavior_and_the_invoker_is_current_again_afterwards", all(e[1] is sub for e in ev if e[0] == "sub resumed") and MD.current_state(I).get("currentBehavior") is env.vars["self"], detail=detail)
        eng.check(f"{name}#ensures.sub_behaviour_resumed_once_per_action_and_once_more_to_end", len([e for e in ev if e[0] == "sub resumed"]) == n_yields + 1)
        if how == "finishes":
            eng.check(f"{name}#ensures.normal_completion_when_the_sub_behaviour_finishes", ended[0] == "return")
            eng.check(f"{name}#ensures.actions_of_the_sub_behaviour_are_passed_through", len(items) == n_yields)
        elif how == "closed while suspended":
            eng.check(f"{name}#ensures.close_is_not_swallowed", ended[0] == "raise" and ended[1].cls is GeneratorExit)
        else:
            eng.check(f"{name}#ensures.exceptions_of_the_sub_behaviour_propagate", ended[0] == "raise" and ended[1].cls is not GeneratorExit)

    reg.add(
        C.Contract(
            f"{BH}:Behavior._invokeInner",
            params=dict(self=C.Const(None), agent=C.Const(None), subs=C.Const(None)),
            setup=setup,
            post=post,
            replay=replay_invoke_inner,
            bounded=True,
            note="bounded: the sub-behaviour takes 0-2 actions before the generator ends; generator close() modelled at the suspension point "
            "(GeneratorExit raised at the `yield from`); finalisation by the garbage collector itself (WHEN an abandoned generator is closed) stays outside the encoding",
            properties=("C13",),
        )
    )


_register_flat = register


def register(reg):  # noqa: F811
    _register_flat(reg)
    register_nested(reg)
    register_loops(reg)
    register_invoke_inner(reg)


# ----------------------------------------------------------------------------------------------------
# replay drivers (REAL code)


def replay_run_try_interrupt(inputs, clause):
    """The REAL runTryInterrupt generator driven with real generator functions that follow the script of the
    counter-model; its trace is judged by the same rules."""
    import ast as _ast

    import scenic  # noqa: F401
    import scenic.syntax.veneer as veneer
    from scenic.core.dynamics.invocables import BlockConclusion, runTryInterrupt

    script = _ast.literal_eval(inputs["script"]) if isinstance(inputs, dict) and inputs.get("script") else []
    queues = {}
    for label, k in script:
        queues.setdefault(label, []).append(k)

    def nxt(label, default=0):
        q = queues.get(label)
        return q.pop(0) if q else default

    log = []
    counter = {"iters": 0, "sends": 0}
    kind = {}

    def make_block(blk):
        def as_generator(it_id):
            while True:
                log.append(("send", blk, it_id))
                counter["sends"] += 1
                if counter["sends"] > MAX_SENDS:
                    what = 1 + nxt(f"block {blk} (bound reached) concludes with")
                else:
                    what = nxt(f"block {blk} resumed: takes an action / concludes with ...", 1)
                if what == 0:
                    log.append(("yield", blk))
                    yield (f"action of block {blk}",)
                else:
                    log.append(("conclude", blk, CONCLUSIONS[what - 1]))
                    return getattr(BlockConclusion, CONCLUSIONS[what - 1])

        def fn(behavior, agent):
            log.append(("call", blk))
            if len(log) > MAX_EVENTS:
                log.append(("conclude", blk, "ABORT"))
                return BlockConclusion.ABORT
            if blk not in kind:
                kind[blk] = nxt(f"block {blk}: contains take/wait/do (generator) or not")
            if kind[blk] == 1:
                c = CONCLUSIONS[nxt(f"block {blk} concludes at once with")]
                log.append(("conclude", blk, c))
                return getattr(BlockConclusion, c)
            counter["iters"] += 1
            return as_generator(counter["iters"])

        return fn

    def make_cond(k):
        def cond():
            r = False if len(log) > MAX_EVENTS else nxt(f"condition {k} holds?") == 1
            log.append(("query", k, veneer.evaluatingGuard is True, r))
            return r

        return cond

    class Beh:
        _args, _kwargs = ("arg",), {"kw": 1}

        def checkInvariants(self, agent, *a, **k):
            log.append(("invariants",))

    gen = runTryInterrupt(Beh(), object(), make_block("body"), tuple(make_cond(k) for k in range(N_HANDLERS)), tuple(make_block(k) for k in range(N_HANDLERS)))
    result = None
    for _ in range(4 * MAX_SENDS + 8):
        try:
            gen.send(None)
            log.append(("yielded",))
        except StopIteration as e:
            result = e.value
            break
    else:
        return f"the statement did not end within {4 * MAX_SENDS + 8} time steps although every block concludes; trace: {log}"
    log.append(("result", result.name if isinstance(result, BlockConclusion) else repr(result)))
    rules = tryinterrupt_rules(log)
    want = clause.split("#ensures.")[-1] if "#ensures." in clause else None
    for rule, bad in rules.items():
        if bad is not None and (want in (None, rule) or want not in rules):
            return f"{rule}: {bad}; trace of the real generator: {log}"
    if veneer.evaluatingGuard:
        return "veneer.evaluatingGuard is still set after the statement ended"
    return None


def replay_clause_priority(inputs, clause):
    """Real programs: when several interrupt conditions hold, the handler of the LATEST clause runs; each handler
    belongs to the condition of its own clause."""
    import scenic
    from scenic.core.simulators import DummySimulator

    def actions(src, steps):
        sc = scenic.scenarioFromString(src)
        scene, _ = sc.generate()
        sim = DummySimulator().simulate(scene, maxSteps=steps)
        ego = scene.objects[0]
        return [a[ego][0] for a in sim.result.actions]

    for n in (2, 3):
        clauses = "".join(f"    interrupt when simulation().currentTime >= 1:\n        take {k + 1}\n" for k in range(n))
        acts = actions("behavior B():\n    try:\n        while True:\n            take 0\n" + clauses + "ego = new Object with behavior B\n", 3)
        if acts[1] != n:
            return f"{n} interrupt clauses whose conditions all hold from step 1 on: the agent's actions are {acts}; documented: the handler of the latest clause (take {n}) pre-empts at step 1"
    clauses = "".join(f"    interrupt when simulation().currentTime == {k + 1}:\n        take {k + 1}\n" for k in range(3))
    acts = actions("behavior B():\n    try:\n        while True:\n            take 0\n" + clauses + "ego = new Object with behavior B\n", 5)
    if acts != [0, 1, 2, 3, 0]:
        return f"three clauses `interrupt when currentTime == k: take k` (k = 1, 2, 3): the agent's actions are {acts}; documented: [0, 1, 2, 3, 0] (each handler runs when ITS condition holds)"
    return None


def replay_is_enabled(inputs, clause):
    """The REAL InterruptBlock.isEnabled with conditions that look at the guard flag."""
    import scenic  # noqa: F401
    import scenic.syntax.veneer as veneer
    from scenic.core.dynamics.invocables import InterruptBlock

    for kind in ("true", "false", "raises"):
        seen = []

        def cond(kind=kind):
            seen.append(veneer.evaluatingGuard)
            if kind == "raises":
                raise KeyError("raised by the condition")
            return kind == "true"

        blk = InterruptBlock(cond, None)
        try:
            r = blk.isEnabled
        except KeyError:
            r = "raised"
        if seen != [True]:
            return f"the interrupt condition was evaluated {len(seen)} time(s) with veneer.evaluatingGuard = {seen}"
        if veneer.evaluatingGuard:
            veneer.evaluatingGuard = False
            return f"veneer.evaluatingGuard is still set after isEnabled ({kind} condition)"
        if kind != "raises" and r is not (kind == "true"):
            return f"isEnabled returned {r!r} for a {kind} condition"
    return None


def replay_guard_order(inputs, clause):
    """The REAL Invocable._checkAllPreconditions on an object whose guard checkers log."""
    import scenic  # noqa: F401
    from scenic.core.dynamics.invocables import Invocable

    log = []

    class Inv(Invocable):
        def checkPreconditions(self, agent, *a, **k):
            log.append(("preconditions", agent, a, k))

        def checkInvariants(self, agent, *a, **k):
            log.append(("invariants", agent, a, k))

    inv = Inv("arg", kw=1)
    inv._agent = "agent"
    inv._checkAllPreconditions()
    if [e[0] for e in log] != ["preconditions", "invariants"]:
        return f"guards checked in the order {[e[0] for e in log]}; documented: preconditions, then invariants"
    if any(e[1:] != ("agent", ("arg",), {"kw": 1}) for e in log):
        return f"guards called with {log}"
    return None


def replay_behavior_start(inputs, clause):
    """A real behavior whose guards and body log: guards are checked when the behavior starts, before its body runs."""
    import builtins

    import scenic
    from scenic.core.simulators import DummySimulator

    log = []
    builtins._pyvc_log = log
    src = (
        "import builtins\nlog = builtins._pyvc_log\n"
        "behavior B(x):\n    precondition: log.append(('pre', x, self is not None)) or True\n    invariant: log.append(('inv', x, self is not None)) or True\n"
        "    log.append(('body', x))\n    take 1\n    log.append(('resumed', x))\n    take 2\n"
        "ego = new Object with behavior B(5)\n"
    )
    sc = scenic.scenarioFromString(src)
    scene, _ = sc.generate()
    del log[:]
    DummySimulator().simulate(scene, maxSteps=2)
    ks = [e[0] for e in log]
    if ks[:3] != ["pre", "inv", "body"]:
        return f"events when the behavior starts: {ks}; documented: preconditions, then invariants, then (at the first step) the body"
    if any(e[1:] != (5, True) for e in log if e[0] in ("pre", "inv")):
        return f"guards evaluated with {log}"
    return None




NESTED_RETURN = """
behavior B():
    try:
        try:
            take 1
            take 2
        interrupt when simulation().currentTime == 1:
            return
        take 3
    interrupt when False:
        wait
    take 4
    take 5
ego = new Object with behavior B
"""

NESTED_BREAK = """
behavior B():
    while True:
        try:
            try:
                take 1
                take 2
            interrupt when simulation().currentTime == 1:
                break
            take 3
        interrupt when False:
            wait
        take 4
    take 5
    take 6
ego = new Object with behavior B
"""

NESTED_CONTINUE = """
behavior B():
    x = 0
    while x < 2:
        x += 1
        try:
            try:
                take 10
                take 11
            interrupt when simulation().currentTime in (1, 3):
                continue
            take 12
        interrupt when False:
            wait
        take 13
    take 14
ego = new Object with behavior B
"""

NESTED_LOOP_IN_BLOCK = """
behavior B():
    try:
        while True:
            try:
                take 1
                take 2
            interrupt when simulation().currentTime == 1:
                break
        take 3
    interrupt when False:
        wait
    take 4
ego = new Object with behavior B
"""


def replay_nested_control(inputs, clause):
    """The demo programs through the real front end and the DummySimulator."""
    import scenic
    from scenic.core.simulators import DummySimulator

    cases = [
        ("`return` in a handler of a try-interrupt nested in the body of another one", NESTED_RETURN, 6, [1]),
        ("`break` in a handler of a nested try-interrupt inside `while True`", NESTED_BREAK, 6, [1, 5, 6]),
        ("`continue` in a handler of a nested try-interrupt inside a while loop", NESTED_CONTINUE, 7, [10, 14]),
        ("`break` in a handler of a try-interrupt inside a `while` of the body block of another one", NESTED_LOOP_IN_BLOCK, 5, [1, 3, 4]),
    ]
    # the program matching the case of the counter-model first
    import ast as _ast

    try:
        K, in_loop, _outer = _ast.literal_eval(inputs["case"])
        first = 0 if K == "return" else 3 if in_loop else 1 if K == "break" else 2
        cases = [cases[first]] + [c for i, c in enumerate(cases) if i != first]
    except Exception:  # noqa
        pass
    for what, src, steps, want in cases:
        try:
            sc = scenic.scenarioFromString(src)
            scene, _ = sc.generate()
            sim = DummySimulator().simulate(scene, maxSteps=steps)
        except Exception as e:  # noqa
            return f"{what}: the program is refused with {type(e).__name__}: {e}"
        ego = scene.objects[0]
        acts = [a[ego][0] for a in sim.result.actions if a[ego]]
        if acts != want:
            return f"{what}: the agent's actions are {acts}; documented: {want}"
    return None


def replay_loop_control(inputs, clause):
    """Real programs: break/continue after a nested loop inside a loop of a handler act on the handler's loop."""
    import ast as _ast

    import scenic
    from scenic.core.simulators import DummySimulator

    T = "simulation().currentTime"
    progs = {}
    for outer in ("while", "for"):
        for nested in ("while", "for"):
            head = "for i in range(1, 4):" if outer == "for" else "i = 0\n        while i < 3:\n            i += 1"
            inner = "j = 0\n            while j < 2:\n                take 10*i + j\n                j += 1" if nested == "while" else "for j in range(2):\n                take 10*i + j"
            for ctl, want in (("break", (100, 1, 10, 11, 20, 21, 5, 1, 1)), ("continue", (100, 1, 10, 11, 7, 20, 21, 30, 31, 7, 5, 1))):
                tail = "if i == 2:\n                break" if ctl == "break" else "if i == 2:\n                continue\n            take 7"
                src = (
                    "behavior Foo():\n    while True:\n        take 100\n        try:\n            while True:\n                take 1\n"
                    f"        interrupt when {T} == 2:\n            PLACEHOLDER\n            take 5\nego = new Object with behavior Foo\n"
                )
                block = f"{head}\n            {inner}\n            {tail}"
                # re-indent the handler block (12 spaces)
                lines = block.split("\n")
                base = [lines[0]] + [l[8:] if l.startswith("        ") else l for l in lines[1:]]
                src = src.replace("PLACEHOLDER", "\n            ".join(base))
                progs[(outer, nested, ctl)] = (src, want)
    order = list(progs)
    try:
        outer, nested, ctl, _ = _ast.literal_eval(inputs["case"])
        key = (outer, nested if nested != "none" else "while", ctl)
        order = [key] + [k for k in order if k != key]
    except Exception:  # noqa
        pass
    for key in order:
        src, want = progs[key]
        what = f"`{key[2]}` after a nested `{key[1]}` loop inside a `{key[0]}` loop of an interrupt handler"
        try:
            sc = scenic.scenarioFromString(src)
            scene, _ = sc.generate()
            sim = DummySimulator().simulate(scene, maxSteps=len(want))
        except Exception as e:  # noqa
            return f"{what}: the program is refused with {type(e).__name__}: {e}"
        ego = scene.objects[0]
        acts = tuple(a[ego][0] if a[ego] else None for a in sim.result.actions)
        if acts != want:
            return f"{what}: the agent's actions are {acts}; documented: {want} (the {key[2]} acts on the handler's own loop)"
    return None


INVOKE_PROGRAM = """
behavior Leaf():
    while True:
        take 1
behavior Once():
    take 1
behavior Boom():
    take 1
    raise KeyError("boom")
behavior Top():
    take 0
ego = new Object with behavior Top
"""


def replay_invoke_inner(inputs, clause):
    """The REAL Behavior._invokeInner generator with real behavior objects, run natively: it is advanced to each
    suspension point and then closed / exhausted / made to raise; afterwards the sub-behaviour must be stopped."""
    import scenic

    sc = scenic.scenarioFromString(INVOKE_PROGRAM)
    scene, _ = sc.generate()
    ns = sc.dynamicScenario._dummyNamespace
    agent = scene.objects[0]
    for cls_name, how in (("Leaf", "close"), ("Once", "finish"), ("Boom", "raise")):
        for n in (1, 2) if how == "close" else (1,):
            top, sub = ns["Top"](), ns[cls_name]()
            gen = top._invokeInner(agent, (sub,))
            try:
                for _ in range(n):
                    next(gen)
                if how == "close":
                    gen.close()
                else:
                    for _ in range(3):
                        next(gen)
            except (StopIteration, KeyError):
                pass
            if sub._isRunning or sub._agent is not None:
                what = {"close": f"closed while suspended after {n} action(s) of the sub-behaviour (the block it runs under is abandoned)", "finish": "exhausted (the sub-behaviour finished)", "raise": "ended by an exception of the sub-behaviour"}[how]
                again = ""
                try:
                    g2 = top._invokeInner(agent, (sub,))
                    next(g2)
                    g2.close()
                except AssertionError:
                    again = "; invoking the same behavior object again with `do` fails with AssertionError (assert not self._isRunning)"
                return f"Behavior._invokeInner generator {what}: the sub-behaviour is still marked running (_isRunning = {sub._isRunning}, _agent set: {sub._agent is not None}){again}"
    return None
