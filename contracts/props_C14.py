"""Property fragment for C14 (see contracts/veneer_state.py)."""

PROPERTIES = {
    "C14": dict(
        modules=["veneer_state"],
        level="proof",
        claim="reset contracts over the mechanically extracted veneer state vector (deactivate, endSimulation, every context manager, "
        "start/endScenario, instantiateSimulator); override bookkeeping and revert on scenario stop; Simulation.__init__ reaches its "
        "whole clean-up from every exceptional exit of its try body; dynamic proxy isolation; the compiled scenario object reads the same after "
        "beginSimulation ; endSimulation (REAL __init__ / _bindTo, every attribute); a start of the top-level scenario that fails half-way is wound down by the quiet "
        "_stop without raising (recorders that never began recording) and the veneer is reset whatever that _stop does; a sub-behaviour whose start fails is not left running",
        note="simulator back ends, user code and scenario/behavior objects are modelled objects whose methods log events and may raise",
        assumptions=[
            "veneer module state = names declared `global` in functions of the module + module-level mutable displays + assigned attributes of scenic.core.object_types (mechanical extraction)",
            "@contextmanager functions executed structurally at call sites; as carriers they are driven through their generator body (yield hook)",
        ],
        not_reached=["translator._scenarioFromStream / purgeModulesUnsafeToCache (module import caching)", "namespace / closure-cell rebinding in requirement closures: under contract for C01 (PendingRequirement.compile.closure, restoration frame), not repeated here"],
    )
}
