"""Sidecar contracts for the discrete sampling sites of scenic.core.distributions (C01, C19).

Form: "the function draws exactly these RNG primitives with exactly these arguments, and its result is this
function of the draws" (rng-trace contracts).  With A3 (laws of the library primitives) this is the
probability law of the site."""
import z3

from pyvc import contracts as C
from pyvc.values import PDict, PList, PObj, SV, compare, sv_and, tobool, tonum

from .common import repo_class

D = "scenic.core.distributions"


def identity_map(I, pairs=()):
    """A real DefaultIdentityDict (interpreted from scenic.core.utils) filled with the given pairs."""
    cls = repo_class("scenic.core.utils:DefaultIdentityDict")
    m = PObj(cls, tag="sample")
    from pyvc.builtins_model import IdToken

    m.fields["storage"] = PDict([(IdToken(k), v) for k, v in pairs])
    return m


def register(reg):
    register_options(reg)
    # ------------------------------------------------------------- DiscreteRange.sampleGiven, unweighted
    def setup_dr(I, env):
        eng = I.eng
        lo_key, hi_key = PObj("RandomBound", tag="lowDist"), PObj("RandomBound", tag="highDist")
        lo, hi = eng.fresh_real("low"), eng.fresh_real("high")
        form = eng.choose(2, "bounds random?")
        self = env.vars["self"]
        if form == 0:
            self.fields.update(low=lo_key, high=hi_key)
            env.vars["value"] = identity_map(I, [(lo_key, lo), (hi_key, hi)])
        else:  # constant bounds: the sample map is the identity on them
            self.fields.update(low=lo, high=hi)
            env.vars["value"] = identity_map(I)
        env.vars["_lo"], env.vars["_hi"] = lo, hi
        eng.input_syms.append(("low", C.Real(), lo))
        eng.input_syms.append(("high", C.Real(), hi))

    def post_dr(I, env, outcome):
        eng = I.eng
        name = "distributions.DiscreteRange.sampleGiven[unweighted]"
        lo, hi = env.vars["_lo"], env.vars["_hi"]
        ceil_lo = SV(-z3.ToInt(-lo.e))
        floor_hi = SV(z3.ToInt(hi.e))
        empty = compare("<", floor_hi, ceil_lo)
        if outcome[0] == "raise":
            eng.check(f"{name}#raises.RejectionException.only_if_no_integer_in_range", sv_and(getattr(outcome[1].cls, "name", "") == "RejectionException", empty))
            eng.check(f"{name}#rng.no_draw_when_rejecting", len(eng.rng_trace) == 0)
            return
        eng.check(f"{name}#raises.RejectionException.must_if_no_integer_in_range", z3.Not(tobool(empty)))
        tr = eng.rng_trace
        ok = len(tr) == 1 and tr[0][0] == "randint"
        eng.check(f"{name}#rng.exactly_one_randint", ok)
        if ok:
            a, b = tr[0][1]
            eng.check(f"{name}#rng.randint_bounds_are_ceil_low_floor_high", sv_and(compare("==", a, ceil_lo), compare("==", b, floor_hi)))
            eng.check(f"{name}#ensures.result_is_the_draw", compare("==", outcome[1], tr[0][2]))

    reg.add(
        C.Contract(
            f"{D}:DiscreteRange.sampleGiven",
            params=dict(self=C.Obj(f"{D}:DiscreteRange", weights=C.Const(None), emptyMessage=C.Const("empty")), value=C.Const(None)),
            setup=setup_dr,
            post=post_dr,
            raises=[C.Raises("RejectionException", mode="may")],
            inline=["DefaultIdentityDict.__getitem__"],
            replay=replay_discrete_range,
            properties=("C01", "C19"),
        ),
        key=f"{D}:DiscreteRange.sampleGiven[unweighted]",
    )

    # ------------------------------------------------------------- DiscreteRange.sampleGiven, weighted
    N = 3

    def setup_drw(I, env):
        eng = I.eng
        # weights may be given as floats or as integers (the code may not treat the two kinds differently)
        ints = eng.choose(2, "weights: real numbers / integers") == 1
        ws = [(eng.fresh_int if ints else eng.fresh_real)(f"w{i}") for i in range(N)]
        for w in ws:
            eng.assume(compare(">=", w, 0))
        eng.assume(compare(">", ws[0] + ws[1] + ws[2], 0))
        cum = (ws[0], ws[0] + ws[1], ws[0] + ws[1] + ws[2])
        eng.input_syms.append(("weights_are_integers", C.Const(None), ints))
        lo = eng.fresh_int("low")
        self = env.vars["self"]
        self.fields.update(low=lo, high=lo + (N - 1), weights=tuple(ws), cumulativeWeights=cum, options=tuple(lo + i for i in range(N)))
        env.vars["value"] = identity_map(I)
        env.vars["_ws"], env.vars["_lo"] = ws, lo
        for i, w in enumerate(ws):
            eng.input_syms.append((f"w{i}", C.Int() if ints else C.Real(), w))

    def post_drw(I, env, outcome):
        eng = I.eng
        name = "distributions.DiscreteRange.sampleGiven[weighted]"
        if outcome[0] != "return":
            return
        ws, lo = env.vars["_ws"], env.vars["_lo"]
        tr = eng.rng_trace
        ok = len(tr) == 1 and tr[0][0] == "choices"
        eng.check(f"{name}#rng.exactly_one_choices", ok)
        if ok:
            pop, cum = tr[0][1]
            idx = tr[0][2]
            eng.check(f"{name}#rng.population_is_low_to_high", sv_and(len(pop) == N, *[compare("==", pop[i], lo + i) for i in range(min(N, len(pop)))]))
            pref = [ws[0], ws[0] + ws[1], ws[0] + ws[1] + ws[2]]
            eng.check(f"{name}#rng.cumulative_weights_are_prefix_sums", sv_and(len(cum) == N, *[compare("==", cum[i], pref[i]) for i in range(min(N, len(cum)))]))
            eng.check(f"{name}#ensures.result_is_low_plus_drawn_index", compare("==", outcome[1], lo + idx))

    def replay_drw(inputs, clause):
        """Runs the real DiscreteRange.sampleGiven with the weights of the counter-model and records the library RNG calls."""
        import random
        from fractions import Fraction

        import scenic.core.distributions as RD

        ints = bool(inputs.get("weights_are_integers"))
        try:
            ws = [float(Fraction(str(inputs[f"w{i}"]))) for i in range(3)]
        except Exception:
            ws = [1.0, 2.0, 1.0]
        if ints:
            ws = [int(w) for w in ws]
        if sum(ws) <= 0:
            ws = [1, 2, 1] if ints else [1.0, 2.0, 1.0]
        lo = int(inputs.get("low", 0))
        d = RD.DiscreteRange(lo, lo + 2, weights=tuple(ws))
        calls = []
        saved = {}
        for fn in ("choices", "randrange", "randint", "random", "uniform", "choice"):
            saved[fn] = getattr(random, fn)

            def wrap(*a, _fn=fn, **k):
                r = saved[_fn](*a, **k)
                calls.append((_fn, a, k, r))
                return r

            setattr(random, fn, wrap)
        try:
            random.seed(0)
            got = d.sampleGiven({})
        finally:
            for fn, f in saved.items():
                setattr(random, fn, f)
        top = [c for c in calls if c[0] != "random" or len(calls) == 1]  # random.choices itself calls random()
        names = [c[0] for c in calls]
        if "choices" not in names or any(n in ("randrange", "randint", "uniform", "choice") for n in names):
            return f"DiscreteRange({lo}, {lo + 2}, weights={tuple(ws)}).sampleGiven drew with {names} instead of one random.choices over the options with the cumulative weights (result {got})"
        c = [c for c in calls if c[0] == "choices"]
        if len(c) != 1:
            return f"DiscreteRange weighted sampleGiven called random.choices {len(c)} times"
        pop = list(c[0][1][0]) if c[0][1] else list(c[0][2].get("population", []))
        cum = list(c[0][2].get("cum_weights") or [])
        if pop != [lo, lo + 1, lo + 2] or cum != [ws[0], ws[0] + ws[1], ws[0] + ws[1] + ws[2]]:
            return f"DiscreteRange({lo}, {lo + 2}, weights={tuple(ws)}): random.choices called with population {pop} and cum_weights {cum}"
        if got != c[0][3][0]:
            return f"DiscreteRange weighted sampleGiven returned {got} but random.choices drew {c[0][3][0]}"
        return None

    reg.add(
        C.Contract(
            f"{D}:DiscreteRange.sampleGiven",
            params=dict(self=C.Obj(f"{D}:DiscreteRange", emptyMessage=C.Const("empty")), value=C.Const(None)),
            setup=setup_drw,
            post=post_drw,
            replay=replay_drw,
            bounded=True,
            note="bounded: 3 weights (symbolic values)",
            properties=("C01", "C19"),
        ),
        key=f"{D}:DiscreteRange.sampleGiven[weighted]",
    )


def register_options(reg):
    from .common import install_distribution_stubs

    install_distribution_stubs(reg)
    N = 3

    # ------------------------------------------------------------- Options.__init__
    def setup_opts(I, env):
        eng = I.eng
        items = [PObj("Item", tag=f"item{i}") for i in range(N)]
        form = eng.choose(2, "dict form?")
        env.vars["_items"], env.vars["_form"] = items, form
        if form == 0:
            ints = eng.choose(2, "weights: real numbers / integers") == 1
            ws = [(eng.fresh_int if ints else eng.fresh_real)(f"w{i}") for i in range(N)]
            env.vars["_ws"] = ws
            env.vars["opts"] = PDict(list(zip(items, ws)))
            for i, w in enumerate(ws):
                eng.input_syms.append((f"w{i}", C.Int() if ints else C.Real(), w))
        else:
            n = eng.choose(N + 1, "how many options?")
            env.vars["_items"] = items[:n]
            env.vars["opts"] = tuple(items[:n])

    def post_opts(I, env, outcome):
        eng = I.eng
        name = "distributions.Options.__init__"
        items, form = env.vars["_items"], env.vars["_form"]
        self = env.vars["self"]
        if form == 0:
            ws = env.vars["_ws"]
            anyneg = z3.Or(*[tobool(compare("<", w, 0)) for w in ws])
            nopos = z3.And(*[tobool(compare("<=", w, 0)) for w in ws])
            if outcome[0] == "raise":
                cn = getattr(outcome[1].cls, "__name__", getattr(outcome[1].cls, "name", "?"))
                if cn == "ValueError":
                    eng.check(f"{name}#raises.ValueError.only_if_negative_weight", anyneg)
                elif cn == "RejectionException":
                    eng.check(f"{name}#raises.RejectionException.only_if_no_positive_weight", nopos)
                else:
                    eng.check(f"{name}#raises.nothing_else[{cn}]", False)
                return
            eng.check(f"{name}#raises.must_reject_negative_or_empty", z3.And(z3.Not(anyneg), z3.Not(nopos)))
            got = self.fields.get("options")
            idx = self.fields.get("index")
            keep = [i for i in range(N) if eng.feasible(tobool(compare(">", ws[i], 0)))]  # path-sensitive below
            # on this path every weight comparison has been decided: compute the expected lists
            exp_items = []
            for i in range(N):
                pos = tobool(compare(">", ws[i], 0))
                if not eng.feasible(z3.Not(pos)):
                    exp_items.append(i)
                elif eng.feasible(pos):
                    eng.check(f"{name}#engine.weight_sign_decided_on_path", False)
            ok = isinstance(got, tuple) and len(got) == len(exp_items) and all(g is items[i] for g, i in zip(got, exp_items))
            eng.check(f"{name}#ensures.options_are_exactly_the_positive_weight_items_in_order", ok)
            okw = isinstance(idx, PObj) and idx.fields.get("weights") is not None and len(idx.fields["weights"]) == len(exp_items)
            eng.check(f"{name}#ensures.selector_has_aligned_weights", okw)
            if okw:
                eng.check(f"{name}#ensures.selector_weights_equal_item_weights", sv_and(*[compare("==", idx.fields["weights"][j], ws[i]) for j, i in enumerate(exp_items)]))
                eng.check(f"{name}#ensures.selector_range_is_0_to_k_minus_1", sv_and(compare("==", idx.fields["low"], 0), compare("==", idx.fields["high"], len(exp_items) - 1)))
        else:
            if outcome[0] == "raise":
                cn = getattr(outcome[1].cls, "__name__", getattr(outcome[1].cls, "name", "?"))
                eng.check(f"{name}#raises.RejectionException.only_if_empty", cn == "RejectionException" and len(items) == 0)
                return
            got, idx = self.fields.get("options"), self.fields.get("index")
            eng.check(f"{name}#ensures.uniform_options_kept_in_order", isinstance(got, tuple) and len(got) == len(items) and len(items) > 0 and all(a is b for a, b in zip(got, items)))
            eng.check(f"{name}#ensures.uniform_selector_is_unweighted_0_to_n_minus_1", isinstance(idx, PObj) and idx.fields.get("weights") is None and idx.fields.get("low") == 0 and idx.fields.get("high") == len(items) - 1)

    reg.add(
        C.Contract(
            f"{D}:Options.__init__",
            params=dict(self=C.Obj(f"{D}:Options"), opts=C.Const(None)),
            setup=setup_opts,
            post=post_opts,
            raises=[C.Raises("ValueError", mode="may"), C.Raises("RejectionException", mode="may"), C.Raises("TypeError", mode="may")],
            inline_all=True,
            bounded=True,
            note="bounded: 3 options (symbolic weights)",
            properties=("C01", "C19"),
        )
    )

    # ------------------------------------------------------------- MultiplexerDistribution.sampleGiven
    def setup_mux(I, env):
        eng = I.eng
        opts = [PObj("Item", tag=f"opt{i}") for i in range(N)]
        vals = [PObj("Value", tag=f"val{i}") for i in range(N)]
        index = PObj("Selector", tag="index")
        i = eng.fresh_int("drawn")
        eng.assume(sv_and(compare(">=", i, 0), compare("<", i, N)))  # requires: the selector's range (DiscreteRange contract)
        env.vars["self"].fields.update(index=index, options=tuple(opts))
        env.vars["value"] = identity_map(I, [(index, i)] + list(zip(opts, vals)))
        env.vars["_i"], env.vars["_vals"] = i, vals

    def post_mux(I, env, outcome):
        eng = I.eng
        name = "distributions.MultiplexerDistribution.sampleGiven"
        if outcome[0] != "return":
            return
        i, vals = env.vars["_i"], env.vars["_vals"]
        hit = [k for k in range(N) if outcome[1] is vals[k]]
        eng.check(f"{name}#ensures.result_is_value_of_the_selected_option", len(hit) == 1 and compare("==", i, hit[0]))
        eng.check(f"{name}#rng.no_draw", len(eng.rng_trace) == 0)

    reg.add(
        C.Contract(
            f"{D}:MultiplexerDistribution.sampleGiven",
            params=dict(self=C.Obj(f"{D}:MultiplexerDistribution"), value=C.Const(None)),
            setup=setup_mux,
            post=post_mux,
            assert_mode="prove",
            inline=["DefaultIdentityDict.__getitem__"],
            bounded=True,
            note="bounded: 3 options",
            properties=("C01", "C19"),
        )
    )


def replay_discrete_range(inputs, clause):
    import math
    import random

    from scenic.core.distributions import DiscreteRange, RejectionException

    lo, hi = inputs["low"], inputs["high"]
    d = DiscreteRange(lo, hi)
    want = list(range(math.ceil(lo), math.floor(hi) + 1))
    seen = set()
    for seed in range(200):
        random.seed(seed)
        try:
            v = d.sampleGiven({d.low: lo, d.high: hi} if False else __import__("scenic.core.utils", fromlist=["x"]).DefaultIdentityDict())
        except RejectionException:
            if want:
                return f"DiscreteRange({lo}, {hi}) rejected although {want} are possible"
            return None
        if v not in want:
            return f"DiscreteRange({lo}, {hi}) produced {v}, outside {want}"
        seen.add(v)
    if not want:
        return f"DiscreteRange({lo}, {hi}) produced {sorted(seen)} although the range holds no integer"
    if len(want) <= 20 and seen != set(want):
        return f"DiscreteRange({lo}, {hi}) never produced {sorted(set(want) - seen)} in 200 draws"
    return None
