"""Property fragment for C07 (contracts/geometry_ops.py, library model pyvc/models_geom.py)."""

PROPERTIES = {
    "C07": dict(
        modules=["relations", "geometry_ops"],
        level="proof",
        claim="built-in specifiers and operators have their documented geometric meaning: proved for all inputs relative to the rotation-group axioms (L-rot.*) and the trigonometric identities (A2.*) listed in the evidence",
        note="rotations are abstract group elements, sin/cos/atan2/asin uninterpreted; floats as reals",
        assumptions=[
            "L-rot: scipy Rotation is a group acting on R^3 (inverse, product, identity, Euler ZXY round trip, yaw = planar CCW rotation about +Z)",
            "A2: trigonometric identities named A2.* (sin^2+cos^2=1, axis values / quadrants / range of atan2, polar form, quarter-turn shifts)",
        ],
        not_reached=["numeric conditioning of Euler-angle extraction near gimbal lock (A1)"],
    )
}
