"""Property fragment for C07 (contracts/geometry_ops.py, library model pyvc/models_geom.py)."""

PROPERTIES = {
    "C07": dict(
        modules=["relations", "geometry_ops"],
        level="proof",
        claim=(
            "built-in specifiers and operators have their documented geometric meaning: Vector algebra (sign conventions: heading 0 = +Y, "
            "counter-clockwise positive), the six directional specifiers (gap between the bounding boxes along X's local axis = D, or half the "
            "contact tolerance), the facing family (global orientation / line of sight in the parent frame), beyond / offset by / offset along / "
            "relative to, the scalar operators, sides and corners of objects, Orientation composition / inversion / Euler conversion -- proved "
            "for all inputs relative to the rotation-group axioms (L-rot.*) and the trigonometric identities (A2.*) listed in the evidence"
        ),
        note="rotations are abstract group elements; sin/cos/atan2/asin/hypot uninterpreted with named axioms; floats as reals; coercion helpers and Specifier/DelayedArgument records are trusted stubs",
        assumptions=[
            "L-rot: scipy Rotation is a group acting on R^3 (inverse, product, identity, Euler ZXY round trip, from_euler('ZXY',[yaw,pitch,0]) = Rz(yaw) Rx(pitch), from_rotvec([0,0,h]) = Rz(h))",
            "A2: trigonometric identities named A2.* (sin^2+cos^2=1, axis values / quadrants / range / oddness of atan2, polar form, quarter-turn shift, periodicity, azimuth of a rotated vector)",
            "A1: hypot is the non-negative root of the sum of squares (A1.hypot_*), quotient * divisor = dividend",
            "type_support coercions (isA/canCoerce/coerce/toTypes), Specifier and DelayedArgument constructors, valueInContext, Constructible._with, Orientation.__eq__ are stubs for concrete values (listed under trusted_base)",
            "apparently facing: the parent orientation ranges over planar (yaw-only) rotations; facing toward/away: the yaw is characterised in the parent frame",
        ],
        not_reached=[
            "numeric conditioning of Euler-angle extraction near gimbal lock (A1)",
            "projection onto regions used by `on <region>` (abstract call here: C03/C16); `relative to` with fields of different value types (TypeError arm)",
            "random (distribution-valued) arguments of the operators: lifting is C05",
        ],
    )
}
