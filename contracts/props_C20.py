"""Property fragment for C20 (road networks: cache and lookups)."""

PROPERTIES = {
    "C20": dict(
        modules=["roads", "xodr"],
        level="other",
        claim="proof part: Network.fromPickle accepts a cache only for the current format version and the expected map / options digests (else UnpicklingError / "
        "DigestMismatchError), dumpPickle writes exactly that header, fromFile uses the cache only when enabled, present and accepted for the digests of the current file "
        "and options and otherwise re-parses (and re-writes the cache with the current digests); deterministicHash feeds the separator encoding of the options sorted by key "
        "and the encoding is injective on NUL-free value texts; findPointIn / _findPointInAll two-pass lookup with priority order; the *At wrappers and the priority lists. "
        "Link building of xodr_parser (Road.toScenicRoad, RoadMap.toScenicNetwork for roads joined by road links, Network.__attrs_post_init__ bookkeeping) is interpreted on a bounded catalogue of road "
        "layouts with abstract geometry (contracts/xodr.py, bounded checks, never counted as proved): reciprocal section / lane-section / lane / group / road links, lane sections listed in travel order, "
        "ownership back-pointers, adjacency per lane section following the OpenDRIVE numbering and symmetric, element registry keyed by uid and covering all lists. "
        "Consistency of the networks produced by xodr_parser for every map is NOT proved (bounded stand-in).",
        note="shapely, gzip, pickle, pathlib abstract; blake2b collision-freeness trusted",
        assumptions=[
            "blake2b collision-freeness; digest is a function of the bytes hashed",
            "STRtree.query(g, predicate='intersects') returns exactly the indices of intersecting geometries; Point.buffer(d) contains the point",
            "option values are int/float/bool or NUL-free str, one type per option; str() injective on each of these types",
            "deterministicHash stream shape checked for mappings of up to 3 options (loop unrolled), all insertion orders and value types",
            "attrs-generated constructors of the element classes (pyvc/models_xodr.py): one keyword per annotated attribute, defaults from the class body, then the real __attrs_post_init__; enum.auto() distinct per member",
            "road geometry abstract in contracts/xodr.py: polygons / regions are tokens, containsRegion / overlaps answer as the construction-time assertions expect",
            "roads whose lanes of one direction are absent from the first lane section in travel direction / merging lanes with constant widths make xodr_parser raise IndexError / AssertionError: "
            "no network is built, outside C20's statement; candidate repairs in notes/candidate_fixes (decided from the layout in contracts/xodr.py: excused_exceptions; every other layout keeps no_exception)",
            "xodr layouts: lane links inside a road declared on both sides (a one-sided map link cannot be reciprocal: KNOWN finding CulDeSac.xodr)",
        ],
        not_reached=[
            "reciprocity / containment / coverage / tangency of the networks built by xodr_parser for every map",
            "xodr_parser.Road.calc_geometry_for_type / calculate_geometry (shapely + numeric geometry): its pairing of lane-section polygons into lane polygons enters the toScenicRoad contract as a stated frame only",
            "RoadMap.toScenicNetwork: junctions / connecting roads / maneuvers / cyclicOrder (Vector arithmetic), remappedStartLanes, elided roads; RoadMap.parse and calculate_geometry (gap / intersection filling)",
            "toScenicRoad: sidewalk / shoulder lanes (combineSections uses numpy), signals; symbolic numbers of lanes / sections (the carrier indexes dictionaries by lane id and follows link chains in while-loops)",
        ],
        bounded=[
            "standins/road_networks.py: C20's clauses as run-time contracts on real Network objects: quick tier 5 smallest non-empty maps under assets/maps + LGSVL/cubetown.xodr (intersections) x 60 random points, "
            "cache-vs-parse field-by-field and cache invalidation on changed options / changed map; thorough tier every non-empty map <= 1 MB x 3 option combinations x 400 points",
        ],
    )
}
