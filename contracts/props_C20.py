"""Property fragment for C20 (road networks: cache and lookups)."""

PROPERTIES = {
    "C20": dict(
        modules=["roads"],
        level="other",
        claim="proof part: Network.fromPickle accepts a cache only for the current format version and the expected map / options digests (else UnpicklingError / "
        "DigestMismatchError), dumpPickle writes exactly that header, fromFile uses the cache only when enabled, present and accepted for the digests of the current file "
        "and options and otherwise re-parses (and re-writes the cache with the current digests); deterministicHash feeds the separator encoding of the options sorted by key "
        "and the encoding is injective on NUL-free value texts; findPointIn / _findPointInAll two-pass lookup with priority order; the *At wrappers and the priority lists. "
        "Consistency of the networks produced by xodr_parser is NOT proved (bounded stand-in).",
        note="shapely, gzip, pickle, pathlib abstract; blake2b collision-freeness trusted",
        assumptions=[
            "blake2b collision-freeness; digest is a function of the bytes hashed",
            "STRtree.query(g, predicate='intersects') returns exactly the indices of intersecting geometries; Point.buffer(d) contains the point",
            "option values are int/float/bool or NUL-free str, one type per option; str() injective on each of these types",
            "deterministicHash stream shape checked for mappings of up to 3 options (loop unrolled), all insertion orders and value types",
        ],
        not_reached=["reciprocity / containment / coverage / tangency of the networks built by xodr_parser for every map"],
        bounded=[
            "standins/road_networks.py: C20's clauses as run-time contracts on real Network objects: quick tier 5 smallest non-empty maps under assets/maps + LGSVL/cubetown.xodr (intersections) x 60 random points, "
            "cache-vs-parse field-by-field and cache invalidation on changed options / changed map; thorough tier every non-empty map <= 1 MB x 3 option combinations x 400 points",
        ],
    )
}
