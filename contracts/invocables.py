"""Sidecar contracts for scenic.core.dynamics.invocables (C19: do choose / do shuffle; C13 parts later).

Oracle (property C19): `do choose` runs exactly one of the listed items whose preconditions currently hold,
picked with probability proportional to its weight among those; `do shuffle` runs every listed item exactly
once, each time picking among the not-yet-run enabled items; no eligible item => the simulation is rejected."""
import z3

from pyvc import contracts as C
from pyvc.builtins_model import OneShot
from pyvc.interp import BuiltinFn
from pyvc.values import PDict, PList, PObj, SV, compare, sv_and, sv_not, sv_or, tobool

from .common import repo_class

M = "scenic.core.dynamics.invocables"
N = 3


def make_subs(I, n=N, step_dependent=False):
    """n sub-behaviours with symbolic enabledness (evaluated when asked: a fresh flag per query if
    step_dependent, i.e. preconditions may change between picks)."""
    eng = I.eng
    subs = []
    for k in range(n):
        s = PObj("SubBehavior", tag=f"sub{k}")
        s.k = k
        s.fields["_isRunning"] = False
        s.queries = []

        def isEnabled(agent, s=s):
            flag = eng.fresh_bool(f"enabled{s.k}")
            s.queries.append((agent, flag))
            eng.events.append(("isEnabled", s.k, agent))
            return flag

        s.fields["_isEnabledForAgent"] = BuiltinFn("_isEnabledForAgent", isEnabled)
        subs.append(s)
    return subs


def options_hook(I, cls, args, kwargs):
    """Options(enabled) evaluated during a simulation: Distribution.__new__ samples it at once, so the
    expression yields one of the options (contract of Distribution.__new__ + Options, distributions.py);
    the call is recorded so that the postcondition can inspect support and weights."""
    call = PObj("OptionsCall", tag="Options(...)")
    d = args[0]
    call.fields["keys"] = tuple(d.keys) if isinstance(d, PDict) else tuple(I.iterate(d))
    call.fields["weights"] = tuple(d.vals) if isinstance(d, PDict) else None
    k = I.eng.choose(len(call.fields["keys"]), "drawn option")
    call.fields["drawn"] = call.fields["keys"][k]
    I.eng.events.append(("Options", call))
    return call.fields["drawn"]


def register(reg):
    reg.constructors["scenic.core.distributions:Options"] = options_hook

    # ---------------------------------------------------------------- pickEnabledInvocable
    def setup_pick(I, env):
        eng = I.eng
        subs = make_subs(I)
        form = eng.choose(2, "dict form?")
        env.vars["_subs"], env.vars["_form"] = subs, form
        if form == 0:
            ws = [eng.fresh_real(f"weight{k}") for k in range(N)]
            env.vars["_ws"] = ws
            env.vars["opts"] = PDict(list(zip(subs, ws)))
        else:
            env.vars["_ws"] = [1] * N
            env.vars["opts"] = tuple(subs)

    def closure_pick(I):
        agent = PObj("Agent", tag="agent")
        I._agent = agent
        return {"agent": agent}

    def post_pick(I, env, outcome):
        eng = I.eng
        name = "invocables.pickEnabledInvocable"
        subs, ws = env.vars["_subs"], env.vars["_ws"]
        for s in subs:
            eng.check(f"{name}#ensures.each_item_asked_once_for_this_agent", len(s.queries) == 1 and s.queries[0][0] is I._agent)
        flags = [s.queries[0][1] if s.queries else False for s in subs]
        none = sv_and(*[sv_not(f) for f in flags])
        if outcome[0] == "raise":
            cn = getattr(outcome[1].cls, "name", getattr(outcome[1].cls, "__name__", "?"))
            eng.check(f"{name}#raises.RejectSimulationException.only_if_nothing_enabled", sv_and(cn == "RejectSimulationException", none))
            return
        eng.check(f"{name}#raises.RejectSimulationException.must_if_nothing_enabled", sv_not(none))
        res = outcome[1]
        # on this path each flag has been decided by the branch `if sub._isEnabledForAgent(agent)`
        enabled = [k for k in range(N) if not eng.feasible(z3.Not(tobool(flags[k])))]
        undecided = [k for k in range(N) if eng.feasible(tobool(flags[k])) and eng.feasible(z3.Not(tobool(flags[k])))]
        eng.check(f"{name}#engine.enabledness_decided_on_path", not undecided)
        if len(enabled) == 1:
            eng.check(f"{name}#ensures.single_enabled_item_returned_directly", res is subs[enabled[0]])
            eng.check(f"{name}#rng.no_distribution_when_one_item", not any(e[0] == "Options" for e in eng.events))
        else:
            calls = [e[1] for e in eng.events if e[0] == "Options"]
            ok = len(calls) == 1 and res is calls[0].fields["drawn"]
            eng.check(f"{name}#ensures.result_is_drawn_from_one_discrete_distribution", ok)
            if ok:
                keys, weights = calls[0].fields["keys"], calls[0].fields["weights"]
                eng.check(f"{name}#ensures.support_is_exactly_the_enabled_items_in_order", len(keys) == len(enabled) and all(a is subs[k] for a, k in zip(keys, enabled)))
                eng.check(f"{name}#ensures.weights_are_the_given_weights_else_1", weights is not None and len(weights) == len(enabled) and sv_and(*[compare("==", w, ws[k]) for w, k in zip(weights, enabled)]))

    def replay_pick(inputs, clause):
        """The real nested function, reached through the real Invocable._invokeSubBehavior(schedule="choose") with stub
        sub-behaviors; every enabledness pattern of 3 items, dict form (distinct weights) and list form."""
        import itertools

        from scenic.core.distributions import Options
        from scenic.core.dynamics.invocables import Invocable
        from scenic.core.simulators import RejectSimulationException

        class Sub:
            def __init__(self, k, enabled):
                self.k, self.enabled, self.asked = k, enabled, []

            def _isEnabledForAgent(self, agent):
                self.asked.append(agent)
                return self.enabled

            def __repr__(self):
                return f"item{self.k}({'enabled' if self.enabled else 'disabled'})"

        class Host:
            def _invokeInner(self, agent, subs):
                self.got = subs
                return
                yield

        agent = object()
        given = [2.0, 3.0, 5.0]
        for dict_form in (True, False):
            for flags in itertools.product((False, True), repeat=3):
                subs = [Sub(k, f) for k, f in enumerate(flags)]
                opts = dict(zip(subs, given)) if dict_form else list(subs)
                host = Host()
                desc = f"do choose {opts}" if dict_form else f"do choose {', '.join(map(repr, subs))}"
                try:
                    for _ in Invocable._invokeSubBehavior(host, agent, (opts,) if dict_form else tuple(opts), schedule="choose"):
                        pass
                except RejectSimulationException:
                    if any(flags):
                        return f"{desc}: deadlock reported although an item is enabled"
                    continue
                if not any(flags):
                    return f"{desc}: no deadlock reported although nothing is enabled"
                (choice,) = host.got
                want = {sub: (w if dict_form else 1) for sub, w, f in zip(subs, given, flags) if f}
                if len(want) == 1:
                    if choice is not list(want)[0]:
                        return f"{desc}: the single enabled item is not returned directly (got {choice!r})"
                    continue
                if not isinstance(choice, Options):
                    return f"{desc}: expected a discrete distribution over the enabled items, got {choice!r}"
                got = dict(choice.optWeights) if choice.optWeights is not None else {o: 1 for o in choice.options}
                if list(got) != list(want) or any(abs(float(got[k]) - float(want[k])) > 1e-12 for k in want):
                    return f"{desc}: the choice is drawn with weights {got}, expected {want} (each enabled item keeps its own weight)"
        return None

    reg.add(
        C.Contract(
            f"{M}:Invocable._invokeSubBehavior.pickEnabledInvocable",
            params=dict(opts=C.Const(None)),
            setup=setup_pick,
            closure_env=closure_pick,
            post=post_pick,
            replay=replay_pick,
            raises=[C.Raises("RejectSimulationException", mode="may")],
            bounded=True,
            note="bounded: 3 listed items (symbolic weights and enabledness)",
            properties=("C19",),
        )
    )

    # ---------------------------------------------------------------- _isEnabledForAgent
    def setup_enabled(I, env):
        eng = I.eng
        self = env.vars["self"]
        outcome = eng.choose(3, "guards?")  # 0: hold, 1: GuardViolation, 2: something else is raised
        env.vars["_guard_outcome"] = outcome
        seen = []

        def check(*a, **k):
            seen.append(self.fields.get("_agent"))
            if outcome == 1:
                from pyvc.interp import SymRaise
                from pyvc.values import PExc

                raise SymRaise(PExc(repo_class("scenic.core.dynamics.guards:GuardViolation"), ("violated",)))
            if outcome == 2:
                from pyvc.builtins_model import AnyException
                from pyvc.interp import SymRaise
                from pyvc.values import PExc

                raise SymRaise(PExc(AnyException, ("user error",)))

        env.vars["_seen"] = seen
        self.fields["_checkAllPreconditions"] = BuiltinFn("_checkAllPreconditions", check)

    def post_enabled(I, env, outcome):
        eng = I.eng
        name = "invocables.Invocable._isEnabledForAgent"
        self, go, seen = env.vars["self"], env.vars["_guard_outcome"], env.vars["_seen"]
        eng.check(f"{name}#ensures.agent_reset_on_every_exit", self.fields.get("_agent") is None)
        eng.check(f"{name}#ensures.guards_evaluated_once_with_agent_set", len(seen) == 1 and seen[0] is env.vars["agent"])
        if outcome[0] == "return":
            eng.check(f"{name}#ensures.true_iff_no_guard_violation", (outcome[1] is True and go == 0) or (outcome[1] is False and go == 1))
        else:
            eng.check(f"{name}#raises.only_foreign_exceptions_propagate", go == 2)

    reg.add(
        C.Contract(
            f"{M}:Invocable._isEnabledForAgent",
            params=dict(self=C.Obj(f"{M}:Invocable", _isRunning=C.Const(False), _agent=C.Const(None)), agent=C.Const(PObj("Agent", tag="agent"))),
            setup=setup_enabled,
            post=post_enabled,
            raises=[C.Raises("Exception", mode="may")],
            properties=("C19", "C13"),
        )
    )

    # ---------------------------------------------------------------- _invokeSubBehavior (choose / shuffle)
    def setup_invoke(I, env):
        eng = I.eng
        subs = make_subs(I)
        sched = ["choose", "shuffle"][eng.choose(2, "schedule?")]
        form = eng.choose(2, "dict form?")
        env.vars["_subs"], env.vars["schedule"], env.vars["modifier"] = subs, sched, None
        ws = [eng.fresh_real(f"weight{k}") for k in range(N)]
        env.vars["subs"] = (PDict(list(zip(subs, ws))),) if form == 0 else tuple(subs)
        self = env.vars["self"]
        ran = []

        def invokeInner(agent, these):
            items = I.iterate(these)
            ran.append(tuple(items))
            eng.events.append(("invokeInner", tuple(items)))
            return OneShot([("step",)])

        env.vars["_ran"] = ran
        self.fields["_invokeInner"] = BuiltinFn("_invokeInner", invokeInner)

    def post_invoke(I, env, outcome):
        eng = I.eng
        subs, sched, ran = env.vars["_subs"], env.vars["schedule"], env.vars["_ran"]
        name = f"invocables.Invocable._invokeSubBehavior[{sched}]"
        if outcome[0] == "raise":
            cn = getattr(outcome[1].cls, "name", getattr(outcome[1].cls, "__name__", "?"))
            # rejection only when the last enabledness query of every remaining item was negative
            remaining = [s for s in subs if not any(s in r for r in ran)]
            none = sv_and(*[sv_not(s.queries[-1][1]) for s in remaining if s.queries]) if remaining else False
            eng.check(f"{name}#raises.rejected_only_when_no_remaining_item_is_enabled", sv_and(cn == "RejectSimulationException", none))
            return
        gen = outcome[1]
        try:
            I.iterate(gen)
        except Exception as e:
            from pyvc.interp import SymRaise

            if isinstance(e, SymRaise):
                return post_invoke(I, env, ("raise", e.exc))
            raise
        picked = []
        for r in ran:
            eng.check(f"{name}#ensures.one_item_started_at_a_time", len(r) == 1)
            picked.append(r[0])
        if sched == "choose":
            eng.check(f"{name}#ensures.exactly_one_item_runs", len(ran) == 1)
        else:
            eng.check(f"{name}#ensures.every_item_runs_exactly_once", len(ran) == N)
            # each pick is one of the not-yet-run items (or a distribution over not-yet-run enabled items)
            done = []
            ok = True
            for p in picked:
                ok = ok and p not in done and p in subs
                done.append(p)
            eng.check(f"{name}#ensures.picks_are_among_not_yet_run_items", ok)
            # every distribution built along the way ranges over not-yet-run items only
            calls = [e[1] for e in eng.events if e[0] == "Options"]
            order = [e for e in eng.events if e[0] in ("Options", "invokeInner")]
            seen_run, ok2 = [], True
            for e in order:
                if e[0] == "invokeInner":
                    seen_run.extend(e[1])
                else:
                    ok2 = ok2 and not any(k in seen_run for k in e[1].fields["keys"])
            eng.check(f"{name}#ensures.each_distribution_ranges_over_not_yet_run_items", ok2)

    def subs_pop_model(I):
        return {}

    reg.add(
        C.Contract(
            f"{M}:Invocable._invokeSubBehavior",
            params=dict(self=C.Obj(f"{M}:Invocable"), agent=C.Const(PObj("Agent", tag="agent")), subs=C.Const(None), modifier=C.Const(None), schedule=C.Const(None)),
            setup=setup_invoke,
            post=post_invoke,
            raises=[C.Raises("RejectSimulationException", mode="may")],
            bounded=True,
            note="bounded: 3 listed items",
            properties=("C19",),
        )
    )
