"""Sidecar contracts for C17: visibility respects the view volume and occlusion.

Oracle: the property statement of C17: "with nothing occluding, a point is reported visible exactly when it lies
inside the view volume (visible distance and horizontal/vertical view angles, measured from X's camera position
in X's own orientation) ... adding occluding objects can turn visible into not visible but never the reverse".

View volume of a viewer at p with orientation R, visible distance D and view angles (h, v), for a target t != p:
    |t - p| <= D   and   |azimuth(R^-1 (t - p))| <= h/2   and   |altitude(R^-1 (t - p))| <= v/2
(azimuth measured from the local +Y axis counter-clockwise, altitude above the local XY plane).

Reached: the point / vector branch of visibility.canSee (whole), the three viewer wrappers, the occluder plumbing
of veneer.CanSee.  NOT reached: the ray-casting object branch (numpy / trimesh)."""
import math

import z3

from pyvc import contracts as C
from pyvc import models_geom as G
from pyvc.interp import BuiltinFn, ClassVal
from pyvc.models_geom import AP, ASIN, ATAN2, HALF_PI, HYP, INV, NdArr, PI, TAU, rz
from pyvc.values import PDict, PList, PObj, PyvcError, SV, arith, compare, tobool

from .common import VectorT, repo_class
from .geometry_ops import (
    OrientationT,
    ROTATION_CATALOGUE,
    WORLD,
    _close,
    _f3,
    _InlineAll,
    apply3,
    call_real,
    co,
    eq3,
    input_real,
    input_vector,
    install_veneer_stubs,
    is_orientation,
    is_vector,
    make_point,
    norm2,
    rot,
    sq,
)

VIS = "scenic.core.visibility"
OT = "scenic.core.object_types"
VEN = "scenic.syntax.veneer"


def register(reg):
    G.install(reg)
    install_veneer_stubs(reg)
    register_point_branch(reg)
    register_wrappers(reg)
    register_can_see_operator(reg)


# =================================================================================================
# 1 + 2. the point / vector branch of canSee


def view_volume(eng, p, R, D, h, v, t):
    """(in_volume formula, pieces) for target t seen from p with rotation R (None = global frame)"""
    d = [a - b for a, b in zip(t, p)]
    w = apply3(INV(R), d) if R is not None else d
    dist = G.hyp_term(eng, d)
    a = ATAN2(w[1], w[0]) - HALF_PI
    az = z3.If(a >= -PI, a, a + TAU)  # normalised to [-pi, pi]
    alt = ATAN2(w[2], G.hyp_term(eng, [w[0], w[1]]))
    absv = lambda x: z3.If(x >= 0, x, -x)
    inside = z3.And(dist <= D, absv(az) <= h / 2, absv(alt) <= v / 2)
    return inside, dict(d=d, w=w, dist=dist, az=az, alt=alt)


class Occluder:
    """An occluding object: distance to the viewer and the hits of the single candidate ray on its mesh."""

    def __init__(self, I, k, nhits):
        eng = I.eng
        self.k = k
        self.obj = PObj("OccludingObject", tag=f"occluder{k}")
        self.dist = eng.fresh_real(f"occluder{k}.distance")
        eng.assume(compare(">=", self.dist, 0))
        eng.input_syms.append((f"occluder{k}.distance", C.Real(), self.dist))
        self.hits = [input_vector(eng, f"occluder{k}.hit{j}", I) for j in range(nhits)]
        self.calls = []
        me = self

        def intersects_location(ray_origins=None, ray_directions=None, **kw):
            me.calls.append((ray_origins, ray_directions))
            locs = NdArr([NdArr(list(hv.fields["coordinates"])) for hv in me.hits])
            return (locs, tuple(0 for _ in me.hits), tuple(0 for _ in me.hits))

        ray = PObj("RayIntersector")
        ray.fields["intersects_location"] = BuiltinFn("intersects_location", intersects_location)
        mesh = PObj("Trimesh")
        mesh.fields["ray"] = ray
        space = PObj("MeshVolumeRegion")
        space.fields["mesh"] = mesh
        self.obj.fields.update(occupiedSpace=space, distanceTo=BuiltinFn("distanceTo", lambda point: me.dist))


def register_point_branch(reg):
    name = "visibility.canSee[point]"

    def setup(I, env):
        eng = I.eng
        WORLD.clear()
        G.use(eng, "atan2", "hypot", "asin")
        oriented = eng.choose(2, "oriented viewer") == 1
        tkind = ["Vector", "Point"][eng.choose(2, "target kind")]
        nocc = eng.choose(3, "number of occluders")
        p = input_vector(eng, "position", I)
        if oriented:
            t_ = OrientationT()
            o = t_.fresh(eng, "orientation", I)
            eng.input_syms.append(("orientation", t_, o))
        else:
            o = None
        D = input_real(eng, "visibleDistance", lo=0)
        h = input_real(eng, "viewAngles.0", lo=0)
        v = input_real(eng, "viewAngles.1", lo=0)
        eng.assume(z3.And(rz(h) <= TAU, rz(v) <= PI))  # documented domain (larger values are truncated by OrientedPoint)
        if tkind == "Vector":
            tv = target = input_vector(eng, "target", I)
        else:
            target = make_point(I, "target", "Point")
            tv = target.fields["position"]
        eng.assume(z3.Or(*[a != b for a, b in zip(co(tv), co(p))]))  # a target at the camera position has no direction (nan in the code)
        occ = [Occluder(I, k, eng.choose(3, f"hits on occluder {k}")) for k in range(nocc)]
        ray_count_given = eng.choose(2, "rayCount given") == 1
        scaling = False if tkind == "Vector" and not ray_count_given else (eng.choose(2, "distanceScaling") == 1)
        env.vars.update(
            position=p, orientation=o, visibleDistance=D, viewAngles=(h, v), rayCount=((7, 7) if ray_count_given else None), rayDensity=input_real(eng, "rayDensity", lo=0),
            distanceScaling=scaling, target=target, occludingObjects=PList([oc.obj for oc in occ]), _occ=occ, _tv=tv,
        )  # fmt: skip
        eng.input_syms.append(("case", C.Const(None), f"{'oriented' if oriented else 'unoriented'}/{tkind}/{nocc}"))

    def hints(eng, parts):
        """instances of the listed trig axioms about the normalised candidate ray the code builds"""
        w = parts["w"]
        n = G.hyp_term(eng, w)
        G.instance(eng, "A2.atan2_positively_homogeneous", n, w[1], w[0])
        G.instance(eng, "A2.asin_of_normalised_height_is_the_elevation", n, w[0], w[1], w[2])

    def expected(I, env):
        eng = I.eng
        p, o = co(env.vars["position"]), env.vars["orientation"]
        D, (h, v) = rz(env.vars["visibleDistance"]), [rz(x) for x in env.vars["viewAngles"]]
        inside, parts = view_volume(eng, p, rot(o) if o is not None else None, D, h, v, co(env.vars["_tv"]))
        return inside, parts, p, D

    def post(I, env, outcome):
        eng = I.eng
        if outcome[0] != "return":
            return
        res = outcome[1]
        chk = lambda clause, goal: eng.check(f"{name}#ensures.{clause}", goal)
        chk("returns_a_boolean", isinstance(res, bool))
        inside, parts, p, D = expected(I, env)
        hints(eng, parts)
        occ = env.vars["_occ"]
        # every in-range occluder leaves the line of sight free: each hit of the ray lies strictly beyond the target
        clear = []
        for oc in occ:
            in_range = rz(oc.dist) <= D
            for hv in oc.hits:
                hd = G.hyp_term(eng, [a - b for a, b in zip(co(hv), p)])
                clear.append(z3.Implies(in_range, hd > parts["dist"]))
        clear = z3.And(*clear) if clear else z3.BoolVal(True)
        if res is True:
            chk("visible_only_inside_the_view_volume", inside)
            chk("visible_only_if_no_occluder_blocks_the_line_of_sight", clear)
        elif res is False:
            chk("inside_the_view_volume_and_unoccluded_implies_visible", z3.Not(z3.And(inside, clear)))
        # the ray tested against the occluders is the world-frame ray from the camera towards the target
        for oc in occ:
            for origins, dirs in oc.calls:
                o0 = co(I.iterate(origins)[0])
                dvec = co(I.iterate(dirs)[0])
                chk("occlusion_ray_starts_at_the_camera", eq3(o0, p))
                chk("one_ray_per_origin", len(I.iterate(origins)) == 1 and len(I.iterate(dirs)) == 1)
                o = env.vars["orientation"]
                if o is not None:
                    w, n = parts["w"], G.hyp_term(eng, parts["w"])
                    G.instance(eng, "L-rot.homogeneous", rot(o), 1 / n, w[0], w[1], w[2])
                for i, nm in enumerate("xyz"):
                    chk(f"occlusion_ray_points_at_the_target_{nm}", dvec[i] * G.hyp_term(eng, parts["w"]) == parts["d"][i])
        # monotonicity: removing the last occluder can only turn the verdict from False to True
        if occ and res is True:
            f = env.vars["_self_func"]
            fewer = PList([oc.obj for oc in occ[:-1]])
            args = [env.vars[k] for k in ("position", "orientation", "visibleDistance", "viewAngles", "rayCount", "rayDensity", "distanceScaling", "target")] + [fewer]
            r2 = call_real(I, f, args)
            chk("monotone_in_occluders_visible_with_more_occluders_implies_visible_with_fewer", r2 is True)

    def setup_(I, env):
        setup(I, env)
        from pyvc import extract
        from pyvc.interp import FuncVal

        ex = extract.extract(f"{VIS}:canSee")
        env.vars["_self_func"] = FuncVal(ex.node, ex.module, None, None, None)

    reg.add(
        C.Contract(
            f"{VIS}:canSee",
            params={},
            setup=setup_,
            post=post,
            inline_all=True,
            replay=replay_point_branch,
            note="point/vector branch only (targets are Vectors and Points); the object branch is not reached",
            properties=("C17",),
        ),
        key=f"{VIS}:canSee[point]",
    )


def replay_point_branch(inputs, clause):
    """Real canSee on real viewers/targets; occluders are real box Objects placed on / off the line of sight."""
    import numpy as np

    from scenic.core.object_types import Point
    from scenic.core.vectors import Orientation, Vector
    from scenic.core.visibility import canSee

    oriented, tkind, nocc = inputs.get("case", "oriented/Vector/0").split("/")
    D = float(inputs.get("visibleDistance", 50.0)) or 50.0
    h, v = float(inputs.get("viewAngles.0", 0.5)), float(inputs.get("viewAngles.1", 0.5))
    p0, t0 = _f3(inputs, "position", [10, 0, 0]), _f3(inputs, "target", inputs.get("target.position", [0, 0, 0]))
    tries = [(p0, t0, D, h, v), ([10.0, 0.0, 0.0], [0.0, 0.0, 0.0], 50.0, math.radians(30), math.radians(30)), ([3.0, -4.0, 2.0], [3.0, 6.0, 2.5], 50.0, math.radians(40), math.radians(40))]
    eulers = ROTATION_CATALOGUE if oriented == "oriented" else [None]
    for p, t, D, h, v in tries:
        if all(_close(a, b) for a, b in zip(p, t)):
            continue
        for e in eulers:
            o = Orientation.fromEuler(*e) if e is not None else None
            target = Vector(*t) if tkind == "Vector" else Point._with(position=Vector(*t))
            got = canSee(Vector(*p), o, D, (h, v), (7, 7), 1, False, target, [])
            d = np.array(t) - np.array(p)
            w = o.getRotation().inv().apply(d) if o is not None else d
            az = math.atan2(w[1], w[0]) - math.pi / 2
            if az < -math.pi:
                az += math.tau
            alt = math.atan2(w[2], math.hypot(w[0], w[1]))
            margin = min(D - np.linalg.norm(d), h / 2 - abs(az), v / 2 - abs(alt))
            if abs(margin) < 1e-9 or abs(D - np.linalg.norm(d)) < 1e-9 or abs(h / 2 - abs(az)) < 1e-9 or abs(v / 2 - abs(alt)) < 1e-9:
                continue  # on the boundary: rounding decides
            want = bool(np.linalg.norm(d) <= D and abs(az) <= h / 2 and abs(alt) <= v / 2)
            if bool(got) != want:
                return (
                    f"viewer at {p} with orientation {('Euler ' + str(e)) if e is not None else 'None'}, visibleDistance {D}, viewAngles ({h:.6g}, {v:.6g}), no occluders: canSee({t}) = {bool(got)}, "
                    f"but in the viewer's frame the target is at distance {np.linalg.norm(d):.6g}, azimuth {az:.6g}, altitude {alt:.6g}, i.e. {'inside' if want else 'outside'} the view volume"
                )
    return None


def register_wrappers(reg):
    pass


def register_can_see_operator(reg):
    pass
