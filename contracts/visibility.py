"""Sidecar contracts for C17: visibility respects the view volume and occlusion.

Oracle: the property statement of C17: "with nothing occluding, a point is reported visible exactly when it lies
inside the view volume (visible distance and horizontal/vertical view angles, measured from X's camera position
in X's own orientation) ... adding occluding objects can turn visible into not visible but never the reverse".

View volume of a viewer at p with orientation R, visible distance D and view angles (h, v), for a target t != p:
    |t - p| <= D   and   |azimuth(R^-1 (t - p))| <= h/2   and   |altitude(R^-1 (t - p))| <= v/2
(azimuth measured from the local +Y axis counter-clockwise, altitude above the local XY plane).

Reached: the point / vector branch of visibility.canSee (whole), the three viewer wrappers, the occluder plumbing
of veneer.CanSee.  NOT reached: the ray-casting object branch (numpy / trimesh)."""
import math

import z3

from pyvc import contracts as C
from pyvc import models_geom as G
from pyvc.interp import BuiltinFn
from pyvc.models_geom import ATAN2, HALF_PI, INV, NdArr, PI, TAU, rz
from pyvc.values import PList, PObj, SV, compare, tobool

from .common import VectorT, repo_class
from .geometry_ops import (
    OrientationT,
    ROTATION_CATALOGUE,
    WORLD,
    _clamp,
    _close,
    _f3,
    apply3,
    call_real,
    co,
    eq3,
    input_real,
    input_vector,
    install_veneer_stubs,
    is_orientation,
    make_point,
    rot,
)

VIS = "scenic.core.visibility"
OT = "scenic.core.object_types"
VEN = "scenic.syntax.veneer"

CANSEE_ARGS = ("position", "orientation", "visibleDistance", "viewAngles", "rayCount", "rayDensity", "distanceScaling", "target", "occludingObjects")


def vector_truediv(I, self, other):
    """Vector.__truediv__ at call sites inside canSee: its contract, proved under C07
    (vectors.Vector.__truediv__#ensures.divides_every_coordinate, #raises.ZeroDivisionError): every coordinate is the
    quotient by `other`; ZeroDivisionError exactly when other == 0.  The quotient by a symbolic divisor is kept as an
    uninterpreted term so that the view-volume obligations stay linear."""
    from .common import make_vector

    if I.decide(compare("==", other, 0)):
        I.raise_("ZeroDivisionError", "float division by zero")
    if isinstance(other, SV) and not z3.is_rational_value(z3.simplify(rz(other))):
        return make_vector(*[G.quotient(I.eng, c, other) for c in self.fields["coordinates"]])
    from pyvc.values import arith

    return make_vector(*[arith("/", c, other) for c in self.fields["coordinates"]])


FAILED = {}  # obligation name -> number of failing instances seen in this process


def limited(eng, name, goal, limit=1):
    """eng.check, except that an obligation already refuted on `limit` earlier paths is not refuted over and over again
    (each refutation costs the full solver budget; the verdict of the obligation is already 'failed')."""
    if FAILED.get(name, 0) >= limit:
        return False
    ok = eng.check(name, goal)
    if not ok:
        FAILED[name] = FAILED.get(name, 0) + 1
    return ok


def register(reg):
    G.install(reg)
    install_veneer_stubs(reg)
    reg.models["scenic.core.vectors:Vector.__truediv__"] = vector_truediv
    reg.trust("Vector.__truediv__ at call sites (visibility.py)", "its C07 contract (every coordinate divided, ZeroDivisionError iff the divisor is 0); quotients by symbolic divisors are uninterpreted terms with A1.quotient_times_divisor")
    register_point_branch(reg)
    register_wrappers(reg)
    register_can_see_operator(reg)
    register_view_regions(reg)
    # BOUNDED stand-in for the object (ray-casting) branch: the real Object.canSee over a catalogue
    from standins import view_volume

    view_volume.register(reg)


# =================================================================================================
# 1 + 2. the point / vector branch of canSee


def view_volume(eng, p, R, D, h, v, t):
    """(in_volume formula, pieces) for target t seen from p with rotation R (None = global frame)"""
    d = [z3.simplify(a - b) for a, b in zip(t, p)]
    w = apply3(INV(R), d) if R is not None else d
    dist = G.hyp_term(eng, d)
    a = ATAN2(w[1], w[0]) - HALF_PI
    az = z3.If(a >= -PI, a, a + TAU)  # normalised to [-pi, pi]
    alt = ATAN2(w[2], G.hyp_term(eng, [w[0], w[1]]))
    absv = lambda x: z3.If(x >= 0, x, -x)
    inside = z3.And(dist <= D, absv(az) <= h / 2, absv(alt) <= v / 2)
    return inside, dict(d=d, w=w, dist=dist, az=az, alt=alt)


class Occluder:
    """An occluding object: its distance to the viewer and the hits of the candidate ray on its mesh
    (trimesh `ray.intersects_location` = an arbitrary finite list of hit locations)."""

    def __init__(self, I, k, nhits):
        eng = I.eng
        self.k = k
        self.obj = PObj("OccludingObject", tag=f"occluder{k}")
        self.dist = eng.fresh_real(f"occluder{k}.distance")
        eng.assume(compare(">=", self.dist, 0))
        eng.input_syms.append((f"occluder{k}.distance", C.Real(), self.dist))
        self.hits = [input_vector(eng, f"occluder{k}.hit{j}", I) for j in range(nhits)]
        self.calls = []
        me = self

        def intersects_location(ray_origins=None, ray_directions=None, **kw):
            me.calls.append((ray_origins, ray_directions))
            locs = NdArr([NdArr(list(hv.fields["coordinates"])) for hv in me.hits])
            return (locs, tuple(0 for _ in me.hits), tuple(0 for _ in me.hits))

        ray = PObj("RayIntersector")
        ray.fields["intersects_location"] = BuiltinFn("intersects_location", intersects_location)
        mesh = PObj("Trimesh")
        mesh.fields["ray"] = ray
        space = PObj("MeshVolumeRegion")
        space.fields["mesh"] = mesh
        self.obj.fields.update(occupiedSpace=space, distanceTo=BuiltinFn("distanceTo", lambda point: me.dist))


def viewer_inputs(I, env, oriented, tkind, ray_count=(7, 7), scaling=False, rot_axioms=()):
    eng = I.eng
    G.use(eng, "atan2", "hypot", "asin")
    p = input_vector(eng, "position", I)
    o = None
    if oriented:
        t_ = OrientationT(axioms=rot_axioms)  # code and specification apply the same inverse rotation: no group law is needed
        o = t_.fresh(eng, "orientation", I)
        eng.input_syms.append(("orientation", t_, o))
    D = input_real(eng, "visibleDistance", lo=0)
    h = input_real(eng, "viewAngles.0", lo=0)
    v = input_real(eng, "viewAngles.1", lo=0)
    eng.assume(z3.And(rz(h) <= TAU, rz(v) <= PI))  # documented domain (larger values are truncated by OrientedPoint)
    if tkind == "Vector":
        tv = target = input_vector(eng, "target", I)
    else:
        target = make_point(I, "target", "Point")
        tv = target.fields["position"]
    # a target exactly at the camera position has no direction (the code divides by a zero norm: nan)
    eng.assume(z3.Or(*[a != b for a, b in zip(co(tv), co(p))]))
    if oriented:
        # t != p  =>  R^-1 (t - p) != 0 : instances of the listed action laws (R (R^-1 v) = v, R 0 = 0)
        d = [z3.simplify(a - b) for a, b in zip(co(tv), co(p))]
        G.instance(eng, "L-rot.apply_undoes_inverse", rot(o), *d)
        G.instance(eng, "L-rot.zero_vector_fixed", rot(o))
    env.vars.update(position=p, orientation=o, visibleDistance=D, viewAngles=(h, v), rayCount=ray_count, rayDensity=input_real(eng, "rayDensity", lo=0), distanceScaling=scaling, target=target, occludingObjects=PList([]), _tv=tv)


def expected_volume(I, env):
    p, o = co(env.vars["position"]), env.vars["orientation"]
    D, (h, v) = rz(env.vars["visibleDistance"]), [rz(x) for x in env.vars["viewAngles"]]
    inside, parts = view_volume(I.eng, p, rot(o) if o is not None else None, D, h, v, co(env.vars["_tv"]))
    return inside, parts, p, D


def volume_hints(eng, parts):
    """instances of the listed trig axioms about the normalised candidate ray the code builds"""
    w = parts["w"]
    n = G.hyp_term(eng, w)
    G.instance(eng, "A2.atan2_positively_homogeneous_division", n, w[1], w[0])
    G.instance(eng, "A2.asin_of_normalised_height_is_the_elevation", w[0], w[1], w[2])
    G.use(eng, "hypot")


def cansee_func():
    from pyvc import extract
    from pyvc.interp import FuncVal

    ex = extract.extract(f"{VIS}:canSee")
    return FuncVal(ex.node, ex.module, None, None, None)


def register_point_branch(reg):
    # ---------------------------------------------------------------- A. no occluders: visible <=> inside the view volume
    nameA = "visibility.canSee[point,no-occluders]"

    def setup_a(I, env):
        eng = I.eng
        WORLD.clear()
        oriented, tkind = [(False, "Vector"), (False, "Point"), (True, "Vector")][eng.choose(3, "viewer / target kind")]
        viewer_inputs(I, env, oriented, tkind)
        eng.input_syms.append(("case", C.Const(None), f"{'oriented' if oriented else 'unoriented'}/{tkind}"))

    def post_a(I, env, outcome):
        eng = I.eng
        if outcome[0] != "return":
            return
        res = outcome[1]
        chk = lambda clause, goal: limited(eng, f"{nameA}#ensures.{clause}", goal)
        chk("returns_a_boolean", isinstance(res, bool))
        inside, parts, p, D = expected_volume(I, env)
        volume_hints(eng, parts)
        if res is True:
            chk("visible_only_inside_the_view_volume", inside)
        elif res is False:
            chk("inside_the_view_volume_implies_visible", z3.Not(inside))

    reg.add(
        C.Contract(f"{VIS}:canSee", params={}, setup=setup_a, post=post_a, inline_all=True, replay=replay_point_branch, note="point/vector branch only; the object branch is not reached", properties=("C17",)),
        key=f"{VIS}:canSee[point,no-occluders]",
    )

    # ---------------------------------------------------------------- A2. default ray counts (rayCount None): same verdict, total
    nameA2 = "visibility.canSee[point,default-ray-count]"

    def setup_a2(I, env):
        eng = I.eng
        WORLD.clear()
        tkind = ["Vector", "Point"][eng.choose(2, "target kind")]
        scaling = eng.choose(2, "distanceScaling") == 1
        viewer_inputs(I, env, False, tkind, ray_count=None, scaling=scaling)
        eng.input_syms.append(("case", C.Const(None), f"unoriented/{tkind}/scaling={scaling}"))

    def post_a2(I, env, outcome):
        eng = I.eng
        if outcome[0] != "return":
            return
        res = outcome[1]
        chk = lambda clause, goal: limited(eng, f"{nameA2}#ensures.{clause}", goal)
        inside, parts, p, D = expected_volume(I, env)
        volume_hints(eng, parts)
        if res is True:
            chk("visible_only_inside_the_view_volume", inside)
        elif res is False:
            chk("inside_the_view_volume_implies_visible", z3.Not(inside))

    reg.add(
        C.Contract(f"{VIS}:canSee", params={}, setup=setup_a2, post=post_a2, inline_all=True, replay=replay_default_ray_count, properties=("C17",)),
        key=f"{VIS}:canSee[point,default-ray-count]",
    )

    # ---------------------------------------------------------------- B. occluders only ever subtract: exact characterisation + monotonicity
    nameB = "visibility.canSee[point,occluders]"
    SHAPES = [(0,), (1,), (2,), (1, 1)]  # hits of the candidate ray on each occluder

    def setup_b(I, env):
        eng = I.eng
        WORLD.clear()
        oriented = eng.choose(2, "oriented viewer") == 1
        shape = SHAPES[eng.choose(len(SHAPES), "occluders x hits")]
        viewer_inputs(I, env, oriented, "Vector")
        occ = [Occluder(I, k, n) for k, n in enumerate(shape)]
        env.vars.update(occludingObjects=PList([oc.obj for oc in occ]), _occ=occ)
        eng.input_syms.append(("case", C.Const(None), f"{'oriented' if oriented else 'unoriented'}/hits={shape}"))

    def run_with(I, env, objs):
        args = [env.vars[k] for k in CANSEE_ARGS[:-1]] + [PList(objs)]
        return call_real(I, cansee_func(), args)

    def post_b(I, env, outcome):
        eng = I.eng
        if outcome[0] != "return":
            return
        res = outcome[1]
        chk = lambda clause, goal: limited(eng, f"{nameB}#ensures.{clause}", goal)
        occ = env.vars["_occ"]
        p, D = co(env.vars["position"]), rz(env.vars["visibleDistance"])
        tdist = G.hyp_term(eng, [a - b for a, b in zip(co(env.vars["_tv"]), p)])
        # an in-range occluder leaves the line of sight free iff every hit of the ray lies strictly beyond the target
        clear = []
        for oc in occ:
            for hv in oc.hits:
                hd = G.hyp_term(eng, [a - b for a, b in zip(co(hv), p)])
                clear.append(z3.Implies(rz(oc.dist) <= D, hd > tdist))
        clear = z3.And(*clear) if clear else z3.BoolVal(True)
        unoccluded = run_with(I, env, [])  # verdict of the REAL code with nothing occluding (same inputs)
        if res is True:
            chk("visible_with_occluders_implies_visible_without", unoccluded is True)
            chk("visible_only_if_no_hit_lies_between_camera_and_target", clear)
        elif unoccluded is True:
            chk("an_occluder_hides_the_target_only_by_a_hit_between_camera_and_target", z3.Not(clear))
        if len(occ) >= 1:
            fewer = run_with(I, env, [oc.obj for oc in occ[:-1]])
            if res is True:
                chk("monotone_adding_an_occluder_never_turns_invisible_into_visible", fewer is True)

    reg.add(
        C.Contract(f"{VIS}:canSee", params={}, setup=setup_b, post=post_b, inline_all=True, replay=replay_occluders, properties=("C17",)),
        key=f"{VIS}:canSee[point,occluders]",
    )

    # ---------------------------------------------------------------- C. the ray tested against occluders is camera -> target
    nameC = "visibility.canSee[point,occlusion-ray]"

    def setup_c(I, env):
        eng = I.eng
        WORLD.clear()
        oriented = eng.choose(2, "oriented viewer") == 1
        viewer_inputs(I, env, oriented, "Vector", rot_axioms=("rot",))
        occ = [Occluder(I, 0, 1)]
        env.vars.update(occludingObjects=PList([oc.obj for oc in occ]), _occ=occ)
        eng.input_syms.append(("case", C.Const(None), f"{'oriented' if oriented else 'unoriented'}"))

    def post_c(I, env, outcome):
        eng = I.eng
        if outcome[0] != "return":
            return
        chk = lambda clause, goal: limited(eng, f"{nameC}#ensures.{clause}", goal)
        inside, parts, p, D = expected_volume(I, env)
        o = env.vars["orientation"]
        for oc in env.vars["_occ"]:
            for origins, dirs in oc.calls:
                chk("one_ray", len(I.iterate(origins)) == 1 and len(I.iterate(dirs)) == 1)
                chk("occlusion_ray_starts_at_the_camera", eq3(co(I.iterate(origins)[0]), p))
                dvec = co(I.iterate(dirs)[0])
                w = parts["w"]
                n = G.hyp_term(eng, w)
                if o is not None:
                    # R (w / n) = (R w) / n : instance of linearity of the rotation
                    G.instance(eng, "L-rot.homogeneous_division", rot(o), n, w[0], w[1], w[2])
                G.use(eng, "quotient")
                chk("occlusion_ray_points_from_the_camera_at_the_target", z3.And(*[dvec[i] * n == parts["d"][i] for i in range(3)]))

    reg.add(
        C.Contract(f"{VIS}:canSee", params={}, setup=setup_c, post=post_c, inline_all=True, replay=replay_occlusion_ray, properties=("C17",)),
        key=f"{VIS}:canSee[point,occlusion-ray]",
    )


# ---------------------------------------------------------------- replay drivers (REAL code)


def _volume_f(p, o, D, h, v, t):
    import numpy as np

    d = np.array(t) - np.array(p)
    w = o.getRotation().inv().apply(d) if o is not None else d
    az = math.atan2(w[1], w[0]) - math.pi / 2
    if az < -math.pi:
        az += math.tau
    alt = math.atan2(w[2], math.hypot(w[0], w[1]))
    dist = float(np.linalg.norm(d))
    margins = (D - dist, h / 2 - abs(az), v / 2 - abs(alt))
    return all(m >= 0 for m in margins), min(abs(m) for m in margins), dist, az, alt


def _viewer_tries(inputs):
    D = _clamp(float(inputs.get("visibleDistance", 50.0)) or 50.0, 1e-3, 1e5)
    h, v = _clamp(inputs.get("viewAngles.0", 0.5), 0, math.tau), _clamp(inputs.get("viewAngles.1", 0.5), 0, math.pi)
    p0, t0 = _f3(inputs, "position", [10, 0, 0]), _f3(inputs, "target", inputs.get("target.position", [0, 0, 0]))
    return [(p0, t0, D, h, v), ([10.0, 0.0, 0.0], [0.0, 0.0, 0.0], 50.0, math.radians(30), math.radians(30)), ([3.0, -4.0, 2.0], [3.0, 6.0, 2.5], 50.0, math.radians(40), math.radians(40))]


def replay_point_branch(inputs, clause):
    from scenic.core.object_types import Point
    from scenic.core.vectors import Orientation, Vector
    from scenic.core.visibility import canSee

    oriented, tkind = (inputs.get("case", "oriented/Vector").split("/") + ["Vector"])[:2]
    eulers = ROTATION_CATALOGUE if oriented == "oriented" else [None]
    for p, t, D, h, v in _viewer_tries(inputs):
        if all(_close(a, b) for a, b in zip(p, t)):
            continue
        for e in eulers:
            o = Orientation.fromEuler(*e) if e is not None else None
            target = Vector(*t) if tkind == "Vector" else Point._with(position=Vector(*t))
            got = canSee(Vector(*p), o, D, (h, v), (7, 7), 1, False, target, [])
            want, margin, dist, az, alt = _volume_f(p, o, D, h, v, t)
            if margin < 1e-9:
                continue  # on the boundary: rounding decides
            if bool(got) != want:
                return (
                    f"viewer at {p} with orientation {('Euler ' + str(e)) if e is not None else 'None'}, visibleDistance {D}, viewAngles ({h:.6g}, {v:.6g}), no occluders: canSee({t}) = {bool(got)}, "
                    f"but in the viewer's frame the target is at distance {dist:.6g}, azimuth {az:.6g}, altitude {alt:.6g}, i.e. {'inside' if want else 'outside'} the view volume"
                )
    return None


def replay_default_ray_count(inputs, clause):
    from scenic.core.object_types import Point
    from scenic.core.vectors import Vector
    from scenic.core.visibility import canSee

    parts = inputs.get("case", "unoriented/Vector/scaling=False").split("/")
    tkind, scaling = parts[1], parts[2].endswith("True")
    for p, t, D, h, v in _viewer_tries(inputs):
        if all(_close(a, b) for a, b in zip(p, t)):
            continue
        target = Vector(*t) if tkind == "Vector" else Point._with(position=Vector(*t))
        got = canSee(Vector(*p), None, D, (h, v), None, 5, scaling, target, [])  # an exception here is reported by the harness
        want, margin, dist, az, alt = _volume_f(p, None, D, h, v, t)
        if margin >= 1e-9 and bool(got) != want:
            return f"viewer at {p}, rayCount None, distanceScaling {scaling}: canSee({t}) = {bool(got)}, view volume says {want}"
    return None


def _box_occluder(center, size=1.0):
    from scenic.core.object_types import Object
    from scenic.core.vectors import Vector

    return Object._with(position=Vector(*center), width=size, length=size, height=size)


def replay_occluders(inputs, clause):
    """Real boxes on / beside / beyond the line of sight: adding one may only turn True into False."""
    import numpy as np

    from scenic.core.vectors import Orientation, Vector
    from scenic.core.visibility import canSee

    oriented = inputs.get("case", "oriented").startswith("oriented")
    for e in (ROTATION_CATALOGUE if oriented else [None]):
        o = Orientation.fromEuler(*e) if e is not None else None
        p, t = np.array([10.0, 0.0, 0.0]), np.array([0.0, 0.0, 0.0])
        between, beside, beyond = _box_occluder(list((p + t) / 2)), _box_occluder([5.0, 20.0, 0.0]), _box_occluder(list(t + (t - p) * 0.5))
        args = (Vector(*p), o, 100.0, (math.tau, math.pi), (7, 7), 1, False, Vector(*t))
        base = canSee(*args, [])
        for occ in ([between], [beside], [beyond], [beside, between], [beyond, beside]):
            r = canSee(*args, occ)
            r_fewer = canSee(*args, occ[:-1])
            if r and not r_fewer:
                return f"viewer at {list(p)} orientation {e}: visible with occluders at {[list(x.position) for x in occ]} but not with the subset {[list(x.position) for x in occ[:-1]]}"
            if r and not base:
                return f"viewer at {list(p)} orientation {e}: visible with occluders but not visible with none"
            blocked = any(x is between for x in occ)
            if base and bool(r) != (not blocked):
                return f"viewer at {list(p)} orientation {e}, full-sphere view, target {list(t)}: occluders at {[list(x.position) for x in occ]} give canSee = {bool(r)}, expected {not blocked} (only the box on the segment blocks)"
    return None


def replay_occlusion_ray(inputs, clause):
    """A box sitting on the segment camera -> target must hide the target; a box elsewhere must not."""
    import numpy as np

    from scenic.core.vectors import Orientation, Vector
    from scenic.core.visibility import canSee

    oriented = inputs.get("case", "oriented").startswith("oriented")
    for e in (ROTATION_CATALOGUE if oriented else [None]):
        o = Orientation.fromEuler(*e) if e is not None else None
        for p, t in ((np.array([10.0, 0.0, 0.0]), np.array([0.0, 0.0, 0.0])), (np.array([3.0, -4.0, 2.0]), np.array([3.0, 6.0, 2.5]))):
            args = (Vector(*p), o, 100.0, (math.tau, math.pi), (7, 7), 1, False, Vector(*t))
            if not canSee(*args, []):
                return f"viewer at {list(p)} orientation {e} with a full-sphere view does not see {list(t)} even without occluders"
            on_segment = _box_occluder(list((p + t) / 2))
            if canSee(*args, [on_segment]):
                return f"viewer at {list(p)} orientation {e}: a box centred on the segment to the target {list(t)} (at {list((p + t) / 2)}) does not hide it: the occlusion ray does not point at the target"
    return None


# =================================================================================================
# 3. viewer wrappers: Point / OrientedPoint / Object .canSee


def register_wrappers(reg):
    CALLS = []

    def cansee_model(I, *args, **kwargs):
        rec = dict(zip(CANSEE_ARGS, args))
        rec.update(kwargs)
        verdict = I.eng.fresh_bool("canSee.verdict")
        CALLS.append((rec, verdict))
        return verdict

    reg.models[f"{VIS}:canSee"] = cansee_model
    reg.trust("visibility.canSee at call sites (visibility.py)", "stub used only when verifying the wrappers: records the arguments and returns an arbitrary verdict (the function itself is under contract above)")

    def make(kind):
        name = f"object_types.{kind}.canSee"

        def setup(I, env):
            eng = I.eng
            WORLD.clear()
            del CALLS[:]
            me = make_point(I, "self", kind, dims=False)
            D = input_real(eng, "self.visibleDistance", lo=0)
            me.fields.update(visibleDistance=D, viewRayCount=(7, 9), viewRayDensity=eng.fresh_real("self.viewRayDensity"), viewRayDistanceScaling=eng.fresh_bool("self.viewRayDistanceScaling"))
            if kind != "Point":
                me.fields["viewAngles"] = (input_real(eng, "self.viewAngles.0", lo=0), input_real(eng, "self.viewAngles.1", lo=0))
                me.fields["heading"] = input_real(eng, "self.heading")  # the yaw of the (3-D) orientation
            if kind == "Object":
                me.fields["cameraOffset"] = input_vector(eng, "self.cameraOffset", I)
            other = PObj("Target", tag="other")
            occl = PList([PObj("Occluder", tag="occluder0"), PObj("Occluder", tag="occluder1")])
            env.vars.update(self=me, other=other, occludingObjects=occl)

        def post(I, env, outcome):
            eng = I.eng
            if outcome[0] != "return":
                return
            chk = lambda clause, goal: eng.check(f"{name}#ensures.{clause}", goal)
            me = env.vars["self"]
            chk("delegates_to_canSee_exactly_once", len(CALLS) == 1)
            if len(CALLS) != 1:
                return
            rec, verdict = CALLS[0]
            chk("returns_the_verdict_of_canSee", outcome[1] is verdict)
            P = co(me.fields["position"])
            if kind == "Object":
                want = [a + b for a, b in zip(P, apply3(rot(me.fields["orientation"]), co(me.fields["cameraOffset"])))]
                chk("camera_position_is_position_plus_rotated_camera_offset", eq3(co(rec["position"]), want))
            else:
                chk("camera_position_is_the_position", eq3(co(rec["position"]), P))
            if kind == "Point":
                chk("a_point_looks_in_every_direction", rec["orientation"] is None and rz(rec["viewAngles"][0]) == TAU and rz(rec["viewAngles"][1]) == PI)
            else:
                chk("views_in_its_own_orientation", rec["orientation"] is me.fields["orientation"])
                chk("view_angles_passed_unchanged", rec["viewAngles"][0] is me.fields["viewAngles"][0] and rec["viewAngles"][1] is me.fields["viewAngles"][1])
            chk("visible_distance_passed_unchanged", rec["visibleDistance"] is me.fields["visibleDistance"])
            chk("ray_parameters_passed_unchanged", rec["rayCount"] is me.fields["viewRayCount"] and rec["rayDensity"] is me.fields["viewRayDensity"] and rec["distanceScaling"] is me.fields["viewRayDistanceScaling"])
            chk("target_passed_unchanged", rec["target"] is env.vars["other"])
            chk("occluders_passed_unchanged", rec["occludingObjects"] is env.vars["occludingObjects"])

        reg.add(C.Contract(f"{OT}:{kind}.canSee", params={}, setup=setup, post=post, inline_all=True, replay=make_replay_wrapper(kind), properties=("C17",)))

    for kind in ("Point", "OrientedPoint", "Object"):
        make(kind)


def make_replay_wrapper(kind):
    def replay(inputs, clause):
        """Real wrapper with the real canSee replaced by a recorder (the wrapper's own arithmetic is what is replayed)."""
        import numpy as np

        import scenic.core.object_types as ot
        from scenic.core.vectors import Orientation, Vector

        seen = []
        saved = ot.canSee
        ot.canSee = lambda **kw: (seen.append(kw), True)[1]
        try:
            P = _f3(inputs, "self.position", [1, 2, 3])
            off = _f3(inputs, "self.cameraOffset", [0.5, 1.0, 0.25])
            for e in ROTATION_CATALOGUE:
                del seen[:]
                if kind == "Point":
                    me = ot.Point._with(position=Vector(*P))
                elif kind == "OrientedPoint":
                    me = ot.OrientedPoint._with(position=Vector(*P), parentOrientation=Orientation.fromEuler(*e))
                else:
                    me = ot.Object._with(position=Vector(*P), parentOrientation=Orientation.fromEuler(*e), cameraOffset=Vector(*off))
                occ = (object(),)  # cached_method: arguments must be hashable
                me.canSee(Vector(9, 9, 9), occludingObjects=occ)
                kw = seen[0]
                want = np.array(P) + (Orientation.fromEuler(*e).getRotation().apply(np.array(off)) if kind == "Object" else 0)
                if not all(_close(a, b) for a, b in zip(kw["position"], want)):
                    return f"{kind} at {P} facing {e} cameraOffset {off if kind == 'Object' else None}: canSee called with position {kw['position']}, expected {list(want)}"
                if kw["occludingObjects"] is not occ:
                    return f"{kind}.canSee does not pass the occluders through"
                if kind != "Point" and not kw["orientation"].approxEq(Orientation.fromEuler(*e)):
                    return f"{kind} facing {e}: canSee called with orientation {kw['orientation']}"
        finally:
            ot.canSee = saved
        return None

    return replay


# =================================================================================================
# 4. `X can see Y`: which objects are handed over as occluders


def register_can_see_operator(reg):
    name = "veneer.CanSee.canSeeHelper"

    def setup(I, env):
        eng = I.eng
        WORLD.clear()
        calls = []

        def scene_object(k):
            o = make_point(I, f"obj{k}", "Object", dims=False)
            o.fields["occluding"] = eng.fresh_bool(f"obj{k}.occluding")
            eng.input_syms.append((f"obj{k}.occluding", C.Bool(), o.fields["occluding"]))
            o.fields["canSee"] = BuiltinFn("canSee", lambda other, occludingObjects=(), o=o: (calls.append((o, other, occludingObjects)), eng.fresh_bool("verdict"))[1])
            return o

        objs = [scene_object(k) for k in range(3)]
        # the viewer is one of the scene objects or a separate point; the target is a scene object, a separate point or a vector
        xk = eng.choose(2, "viewer")
        X = objs[0] if xk == 0 else scene_object(7)
        yk = eng.choose(3, "target")
        Y = objs[1] if yk == 0 else (make_point(I, "Y", "Point") if yk == 1 else input_vector(eng, "Y", I))
        env.vars.update(X=X, Y=Y, objects=tuple(objs), _calls=calls, _objs=objs)
        eng.input_syms.append(("case", C.Const(None), f"viewer={'scene object' if xk == 0 else 'other'}/target={['scene object', 'point', 'vector'][yk]}"))

    def post(I, env, outcome):
        eng = I.eng
        if outcome[0] != "return":
            return
        chk = lambda clause, goal: eng.check(f"{name}#ensures.{clause}", goal)
        calls, objs, X, Y = env.vars["_calls"], env.vars["_objs"], env.vars["X"], env.vars["Y"]
        chk("asks_the_viewer_exactly_once", len(calls) == 1 and calls[0][0] is X)
        if len(calls) != 1:
            return
        _, other, occluders = calls[0]
        occluders = list(I.iterate(occluders))
        chk("target_passed_unchanged", other is Y)
        chk("returns_the_verdict_of_the_viewer", isinstance(outcome[1], SV))
        for k, o in enumerate(objs):
            listed = any(x is o for x in occluders)
            if o is X or o is Y:
                chk("viewer_and_target_never_occlude", not listed)
            else:
                # listed exactly when the object is occluding (the path condition records the decision taken on its flag)
                chk(f"every_other_occluding_object_is_an_occluder", tobool(o.fields["occluding"]) if listed else z3.Not(tobool(o.fields["occluding"])))
        chk("only_scene_objects_are_occluders", all(any(x is o for o in objs) for x in occluders))

    def closure_env(I):
        return {}

    reg.add(C.Contract(f"{VEN}:CanSee.canSeeHelper", params={}, setup=setup, post=post, inline_all=True, replay=replay_can_see_operator, closure_env=closure_env, properties=("C17",)))


def replay_can_see_operator(inputs, clause):
    """`ego can see b` inside a requirement, with an occluding wall between them and a non-occluding one."""
    import scenic

    text = (
        "ego = new Object at (0, 0, 0), with requireVisible False, with allowCollisions True\n"
        "wall = new Object at (0, 5, 0), with width 4, with length 0.2, with height 4, with occluding {occ}, with requireVisible False, with allowCollisions True\n"
        "b = new Object at (0, 10, 0), with requireVisible False, with allowCollisions True\n"
        "require {neg}(ego can see b)\n"
    )
    for tgt in ("b", "(0, 10, 0)"):
        for occ, visible in ((True, False), (False, True)):
            prog = text.format(occ=occ, neg="" if visible else "not ").replace("can see b", f"can see {tgt}")
            if tgt != "b":  # a bare point as target: no object sits there (it would legitimately occlude the point)
                prog = "\n".join(l for l in prog.splitlines() if not l.startswith("b = ")) + "\n"
            sc = scenic.scenarioFromString(prog, mode2D=False)
            try:
                sc.generate(maxIterations=3, verbosity=0)
            except Exception as ex:
                if type(ex).__name__ == "RejectionException":
                    return f"a wall with occluding={occ} between ego at (0,0,0) and the target at (0,10,0): `ego can see {tgt}` is {not visible}, expected {visible}"
                raise
    return None


# =================================================================================================
# 5. visible regions: the region built has the viewer's camera position, orientation, distance and angles


def register_view_regions(reg):
    R = "scenic.core.regions"
    BUILT = []

    def region_ctor(kind):
        def ctor(I, cls, args, kwargs):
            o = PObj(cls, tag=kind)
            o.kind, o.args, o.kwargs = kind, list(args), dict(kwargs)
            o.fields.update(mesh=("mesh of", o), containsPoint=BuiltinFn("containsPoint", lambda p: True))

            def intersect(other, **kw):
                r = PObj(repo_class(f"{R}:MeshVolumeRegion"), tag="intersection")
                r.kind, r.parts = "intersection", (o, other)
                r.fields.update(mesh=("mesh of", r), containsPoint=BuiltinFn("containsPoint", lambda p: True))
                return r

            o.fields["intersect"] = BuiltinFn("intersect", intersect)
            BUILT.append(o)
            return o

        return ctor

    for kind in ("SpheroidRegion", "CylinderSectionRegion", "ViewSectionRegion", "ViewRegion"):
        reg.constructors[f"{R}:{kind}"] = region_ctor(kind)
    SUPER = []
    reg.models[f"{R}:MeshVolumeRegion.__init__"] = lambda I, self, *a, **k: SUPER.append((self, a, k))
    reg.trust("region constructors (visibility.py)", "SpheroidRegion / CylinderSectionRegion / ViewSectionRegion / ViewRegion / MeshVolumeRegion.__init__ and `intersect` are recorders: only the parameters handed over and the case split are checked, not the mesh geometry (C16/C04)")

    def arg(o, name, pos):
        return o.kwargs[name] if name in o.kwargs else (o.args[pos] if len(o.args) > pos else None)

    # ---------------------------------------------------------------- Point / OrientedPoint / Object .visibleRegion
    def make(kind):
        name = f"object_types.{kind}.visibleRegion"

        def setup(I, env):
            eng = I.eng
            WORLD.clear()
            del BUILT[:]
            me = make_point(I, "self", kind, dims=False)
            me.fields["visibleDistance"] = input_real(eng, "self.visibleDistance", lo=0)
            if kind != "Point":
                me.fields["viewAngles"] = (input_real(eng, "self.viewAngles.0", lo=0), input_real(eng, "self.viewAngles.1", lo=0))
                me.fields["heading"] = input_real(eng, "self.heading")
            if kind == "Object":
                me.fields["cameraOffset"] = input_vector(eng, "self.cameraOffset", I)
            env.vars.update(self=me)

        def post(I, env, outcome):
            eng = I.eng
            if outcome[0] != "return":
                return
            chk = lambda clause, goal: eng.check(f"{name}#ensures.{clause}", goal)
            me, res = env.vars["self"], outcome[1]
            D, P = rz(me.fields["visibleDistance"]), co(me.fields["position"])
            if kind == "Point":
                chk("is_a_sphere", getattr(res, "kind", None) == "SpheroidRegion")
                if getattr(res, "kind", None) != "SpheroidRegion":
                    return
                chk("centred_at_the_position", eq3(co(arg(res, "position", 0)), P))
                dims = [rz(d) for d in I.iterate(arg(res, "dimensions", 1))]
                # "a sphere centered at its position with radius visibleDistance": every extent (diameter) is 2 * visibleDistance
                chk("radius_is_the_visible_distance", z3.And(len(dims) == 3, *[d == 2 * D for d in dims]))
                return
            chk("is_a_view_region", getattr(res, "kind", None) == "ViewRegion")
            if getattr(res, "kind", None) != "ViewRegion":
                return
            want = P if kind != "Object" else [a + b for a, b in zip(P, apply3(rot(me.fields["orientation"]), co(me.fields["cameraOffset"])))]
            chk("apex_is_the_camera_position", eq3(co(arg(res, "position", 3)), want))
            chk("oriented_like_the_viewer", arg(res, "rotation", 4) is me.fields["orientation"])
            chk("visible_distance_passed_unchanged", arg(res, "visibleDistance", 0) is me.fields["visibleDistance"])
            va = arg(res, "viewAngles", 1)
            chk("view_angles_passed_unchanged", va[0] is me.fields["viewAngles"][0] and va[1] is me.fields["viewAngles"][1])

        def replay(inputs, clause):
            import numpy as np

            import scenic.core.object_types as ot
            from scenic.core.vectors import Orientation, Vector

            P = _f3(inputs, "self.position", [1, 2, 3])
            off = [_clamp(c, -5, 5) for c in inputs.get("self.cameraOffset", [0.5, 1.0, 0.25])]
            D = _clamp(float(inputs.get("self.visibleDistance", 20.0)) or 20.0, 1.0, 200.0)
            if kind == "Point":
                me = ot.Point._with(position=Vector(*P), visibleDistance=D)
                for frac, want in ((0.75, True), (1.25, False)):
                    t = Vector(P[0], P[1] + frac * D, P[2])
                    if bool(me.visibleRegion.containsPoint(t)) != want:
                        return f"Point at {P} with visibleDistance {D}: the point {frac} * visibleDistance away is {'not ' if want else ''}in its visibleRegion (canSee says {bool(me.canSee(t))})"
                return None
            for e in ([ROTATION_CATALOGUE[1], ROTATION_CATALOGUE[5]] if clause == "*" else ROTATION_CATALOGUE):
                o = Orientation.fromEuler(*e)
                kw = dict(position=Vector(*P), parentOrientation=o, visibleDistance=D, viewAngles=(1.0, 0.8))
                me = ot.OrientedPoint._with(**kw) if kind == "OrientedPoint" else ot.Object._with(cameraOffset=Vector(*off), **kw)
                cam = np.array(P) + (o.getRotation().apply(np.array(off)) if kind == "Object" else 0)
                for local, want in (((0, 0.5 * D, 0), True), ((0, -0.5 * D, 0), False), ((0.5 * D * math.sin(0.3), 0.5 * D * math.cos(0.3), 0), True), ((0.5 * D * math.sin(0.8), 0.5 * D * math.cos(0.8), 0), False)):
                    t = Vector(*(cam + o.getRotation().apply(np.array(local))))
                    if bool(me.visibleRegion.containsPoint(t)) != want:
                        return f"{kind} at {P} facing {e} (cameraOffset {off if kind == 'Object' else None}, viewAngles (1.0, 0.8), visibleDistance {D}): the point at local offset {local} from the camera is {'not ' if want else ''}in its visibleRegion"
            return None

        reg.add(C.Contract(f"{OT}:{kind}.visibleRegion", params={}, setup=setup, post=post, inline_all=True, replay=replay, properties=("C17",)))

    for kind in ("Point", "OrientedPoint", "Object"):
        make(kind)

    # ---------------------------------------------------------------- ViewRegion.__init__: the documented case split
    nameV = "regions.ViewRegion.__init__"
    CUT = 0.017

    def setup_v(I, env):
        eng = I.eng
        WORLD.clear()
        del BUILT[:]
        del SUPER[:]
        me = PObj(repo_class(f"{R}:ViewRegion"), tag="self")
        D = input_real(eng, "visibleDistance", lo=0)
        h, v = input_real(eng, "viewAngles.0"), input_real(eng, "viewAngles.1")
        eng.assume(z3.And(rz(h) <= TAU, rz(v) <= PI))
        pos = input_vector(eng, "position", I)
        t_ = OrientationT(axioms=())
        o = t_.fresh(eng, "rotation", I)
        env.vars.update(self=me, visibleDistance=D, viewAngles=(h, v), name=None, position=pos, rotation=o)

    def post_v(I, env, outcome):
        eng = I.eng
        chk = lambda clause, goal: eng.check(f"{nameV}#ensures.{clause}", goal)
        h, v, D = rz(env.vars["viewAngles"][0]), rz(env.vars["viewAngles"][1]), rz(env.vars["visibleDistance"])
        cut = G._rat(CUT)
        if outcome[0] != "return":
            return
        chk("initialises_the_mesh_region_once", len(SUPER) == 1 and SUPER[0][0] is env.vars["self"])
        if len(SUPER) != 1:
            return
        kw = SUPER[0][2]
        chk("placed_at_the_given_position_with_the_given_rotation", kw.get("position") is env.vars["position"] and kw.get("rotation") is env.vars["rotation"] and kw.get("centerMesh") is False)
        shape = kw.get("mesh")[1] if isinstance(kw.get("mesh"), tuple) else None
        chk("mesh_is_the_mesh_of_a_constructed_shape", shape is not None)
        if shape is None:
            return
        sphere = shape if getattr(shape, "kind", None) == "SpheroidRegion" else (shape.parts[0] if getattr(shape, "kind", None) == "intersection" else None)
        chk("built_from_a_sphere", getattr(sphere, "kind", None) == "SpheroidRegion")
        if getattr(sphere, "kind", None) == "SpheroidRegion":
            dims = [rz(d) for d in I.iterate(arg(sphere, "dimensions", 1))]
            chk("sphere_radius_is_the_visible_distance", z3.And(len(dims) == 3, *[d == 2 * D for d in dims]))
        # documented cases (angles within `angleCutoff` of 360 / 180 degrees count as 360 / 180 degrees)
        full_h, full_v = h >= TAU - cut, v >= PI - cut
        eff_h = z3.If(full_h, TAU, z3.If(h >= cut, h, cut))
        eff_v = z3.If(full_v, PI, z3.If(v >= cut, v, cut))
        if shape is sphere:
            chk("whole_sphere_only_for_a_full_view", z3.And(full_h, full_v))
        else:
            other = shape.parts[1]
            if getattr(other, "kind", None) == "CylinderSectionRegion":
                chk("cylinder_section_only_for_full_vertical_but_partial_horizontal_view", z3.And(full_v, z3.Not(full_h)))
                chk("cylinder_section_has_the_distance_and_horizontal_angle", z3.And(rz(other.args[0]) == D, rz(other.args[1]) == eff_h))
            elif getattr(other, "kind", None) == "ViewSectionRegion":
                chk("pyramid_section_only_for_a_partial_vertical_view", z3.Not(full_v))
                va = other.args[1]
                chk("pyramid_section_has_the_distance_and_both_angles", z3.And(rz(other.args[0]) == D, rz(va[0]) == eff_h, rz(va[1]) == eff_v))
            else:
                chk("intersected_with_a_documented_section", False)

    def replay_v(inputs, clause):
        import numpy as np

        from scenic.core.regions import ViewRegion
        from scenic.core.vectors import Orientation, Vector

        D = _clamp(float(inputs.get("visibleDistance", 20.0)) or 20.0, 1.0, 200.0)
        h, v = _clamp(inputs.get("viewAngles.0", 1.0), 0.2, math.tau), _clamp(inputs.get("viewAngles.1", 0.8), 0.2, math.pi)
        P = _f3(inputs, "position", [1, 2, 3])
        for h, v in ((h, v), (math.tau, math.pi), (2.0, math.pi), (1.0, 0.8), (4.0, 1.0)):
            o = Orientation.fromEuler(*ROTATION_CATALOGUE[5])
            reg_ = ViewRegion(D, (h, v), position=Vector(*P), rotation=o)
            tests = [((0, 0.5 * D, 0), True), ((0, 1.3 * D, 0), False)]
            if h < math.tau - 0.2:
                a_in, a_out = h / 2 - 0.1, h / 2 + 0.1
                tests += [((-0.5 * D * math.sin(a_in), 0.5 * D * math.cos(a_in), 0), True), ((-0.5 * D * math.sin(a_out), 0.5 * D * math.cos(a_out), 0), False)]
            if v < math.pi - 0.2:
                b_in, b_out = v / 2 - 0.1, v / 2 + 0.1
                tests += [((0, 0.5 * D * math.cos(b_in), 0.5 * D * math.sin(b_in)), True), ((0, 0.5 * D * math.cos(b_out), 0.5 * D * math.sin(b_out)), False)]
            for local, want in tests:
                t = Vector(*(np.array(P) + o.getRotation().apply(np.array(local))))
                if bool(reg_.containsPoint(t)) != want:
                    return f"ViewRegion({D}, ({h:.4g}, {v:.4g})) at {P}: the point at local offset {tuple(round(c, 3) for c in local)} is {'not ' if want else ''}contained"
        return None

    reg.add(
        C.Contract(f"{R}:ViewRegion.__init__", params={}, setup=setup_v, post=post_v, inline_all=True, replay=replay_v, raises=[C.Raises("ValueError", when="min(viewAngles) <= 0", mode="iff")], properties=("C17",))
    )
