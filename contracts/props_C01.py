"""Property fragment for C01 (see pyvc/GUIDE.md)."""

PROPERTIES = {
    "C01": dict(
        modules=["sampling", "distributions", "scenarios"],
        # the conditional distribution is only as good as the acceptance test: the checker must test every active
        # requirement of the current sample, whatever it cached from earlier samples (contracts written for C02)
        borrow=dict(modules=["sample_checking"], match=["WeightedAcceptanceChecker"]),
        level="proof",
        claim="clauses (a)-(d) of the decomposition of C01: every sampling site draws exactly the stated RNG primitive with the stated "
        "arguments and returns the draw (rng-trace contracts: Range, Normal, DiscreteRange, Options/Multiplexer, UniformDistribution); "
        "Samplable.sampleAll/sample draw every node of the expression DAG exactly once per scene, dependencies first, conditioned proxies "
        "respected; Scenario._generateInner activates each soft requirement once with `u <= prob`, counts attempts exactly, raises "
        "RejectionException exactly when the budget is exhausted, checks exactly the sample of the current attempt, returns the scene of "
        "an accepted sample, and leaves both global generators as if the checker had drawn nothing; clone()/resample build a fresh node "
        "over the very same parameter objects; the closure of a compiled requirement evaluates its condition exactly once with every "
        "captured global name and closure cell holding the sampled value of the binding at the statement, and restores the namespace "
        "and the cells on exit",
        note="the step from these clauses to 'conditional distribution' is the textbook rejection-sampling lemma (DESIGN.md appendix), "
        "stated over the contracts, not proved mechanically",
        assumptions=[
            "A3: laws of the library RNG primitives (random, uniform, gauss, randint, choices)",
            "rejection-sampling lemma over the contracts (paper proof in DESIGN.md appendix)",
            "the requirement checker is a deterministic function of the sample and the active flags (C02 contracts)",
            "lifted operators evaluate as in Python (C05 contracts)",
        ],
        not_reached=[
            "external samplers (VerifAI) beyond the call protocol",
            "continuous region samplers (C03)",
            "PendingRequirement.__init__ / getNameBindings (which names and cells are captured: inspect.getclosurevars is trusted)",
            "TruncatedNormal.sampleGiven (erf / erfinv not modelled)",
        ],
        bounded=[
            "Samplable.sampleAll: DAGs of 4 nodes (all 64 dependency relations)",
            "Scenario._generateInner: maxIterations in [-1, 3], 2 soft requirements",
        ],
    ),
}
