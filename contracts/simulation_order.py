"""Sidecar contracts for property C12: simulation steps run in the documented order and stop at the
documented step.

Oracle: docs/reference/dynamic_scenarios.rst, "a single time step of a dynamic simulation is executed according to
the following procedure" (steps 1-10), and the property statement ("the trajectory has one state per step and the
action log one entry per executed step, and `terminate after`, `do ... for`, ... and the step limit take effect at
exactly the documented step, after which nothing else runs").

Technique: **call-order automata over a ghost event trace**.  The simulator, the scenarios, the agents' behaviors and
the monitors are modelled objects whose methods append an event to `eng.events` and return one of the documented
kinds of result (every kind is explored).  `Simulation._run` is cut at its `while True` by a loop invariant; the
invariant contains, besides the length relations between `trajectory`, `actionSequence` and `currentTime`, the clause
`iteration_trace_ok()`: the events of the iteration that just completed are exactly the documented sequence
(steps 1-9) -- on every path through the loop body.  At every `return` the trace of the last, partial iteration is
checked against the documented stopping points (step 4, step 5b) and nothing else has run.

Counting contracts are plain integer/real postconditions on `DynamicScenario._step` (`terminate after`),
`DynamicScenario._start` (seconds -> steps), `veneer.terminate_after`, and the condition built by
`Invocable._invokeSubBehavior` for `do ... for N steps/seconds`."""
import ast

import z3

from pyvc import builtins_model as bm
from pyvc import contracts as C
from pyvc import extract
from pyvc import models_dyn as MD
from pyvc.interp import BuiltinFn, ClassVal, FuncVal, SpecFn, SymRaise, assigned_names
from pyvc.values import Opaque, PDict, PExc, PList, PObj, PSet, PyvcError, SV, arith, compare, sv_and, sv_implies, sv_not, sv_or, tobool

from .common import repo_class

SIM = "scenic.core.simulators"
DS = "scenic.core.dynamics.scenarios"
BH = "scenic.core.dynamics.behaviors"
IV = "scenic.core.dynamics.invocables"
ACT = "scenic.core.dynamics.actions"
V = "scenic.syntax.veneer"
REJECT = "scenic.core.dynamics.utils:RejectSimulationException"


def events(I, kind=None):
    return [e for e in I.eng.events if kind is None or e[0] == kind]


def kinds(I):
    return [e[0] for e in I.eng.events]


def term_type(I, name):
    return I.get_attr(repo_class(f"{SIM}:TerminationType"), name)


def loop_locals(target):
    """Names (re)bound inside the first loop of the carrier (mechanical; for the loop contract's frame)."""
    ex = extract.extract(target)
    for n in ast.walk(ex.node):
        if isinstance(n, (ast.While, ast.For)):
            return sorted(assigned_names(n.body))
    raise PyvcError(f"{target} has no loop any more: contract needs updating")


def register(reg):
    MD.install_veneer_state(reg)
    MD.install_iterators(reg)
    MD.install_counted_lists(reg)
    from pyvc import models_spec

    models_spec.install(reg)
    reg.models["scenic.core.utils:alarm"] = lambda I, *a, **k: bm.ContextManagerVal(lambda I_: None, lambda I_, exc: False)
    reg.trust("utils.alarm", "stub: the watchdog timer context manager does nothing observable (the stuck-behavior warning is not part of C12)")
    reg.models[f"{V}:verbosePrint"] = lambda I, *a, **k: None
    reg.extra_modules = getattr(reg, "extra_modules", None) or {}
    B4 = bm.NativeModule("rv_ltl.B4", {"TRUE": "B4.TRUE", "FALSE": "B4.FALSE", "PRESUMABLY_TRUE": "B4.PRESUMABLY_TRUE", "PRESUMABLY_FALSE": "B4.PRESUMABLY_FALSE"})
    reg.extra_modules["rv_ltl"] = bm.NativeModule("rv_ltl", {"B4": B4})
    reg.trust("rv_ltl.B4", "the four truth values are modelled as four distinct tokens")

    # =============================================================================== Simulation._run
    RUN = f"{SIM}:Simulation._run"

    def make_world(I, env):
        eng = I.eng
        log = eng.events
        # ---- objects: a0 is already an agent, a1 has acquired a behavior since the last step, o2 never had one
        objs = []
        for k in range(3):
            o = PObj("Object", tag=f"object {k}")
            o.k = k
            o.fields.update(sensors=PDict(), lastActions=Opaque(f"stale lastActions of object {k}"), behavior=None)
            objs.append(o)
        top = PObj("DynamicScenario", tag="top-level scenario")
        sub = PObj("DynamicScenario", tag="sub-scenario")
        for sc in (top, sub):
            sc.fields["_isRunning"] = True

            def stop(reason, quiet=False, sc=sc):
                log.append(("scenario_stop", sc, reason))
                sc.fields["_isRunning"] = False
                return reason

            sc.fields["_stop"] = BuiltinFn("_stop", stop)

        def make_behavior(o):
            b = PObj("Behavior", tag=f"behavior of {o.tag}")

            def step():
                log.append(("behavior_step", o, tuple(x.fields["lastActions"] for x in objs)))
                k = MD.pick(I, 6, f"what the behavior of {o.tag} yields")
                if k == 0:
                    return (PObj("Action", tag=f"action of {o.tag}"),)
                if k == 1:
                    return ()
                if k == 2:
                    return ((PObj("Action", tag=f"action A of {o.tag}"), PObj("Action", tag=f"action B of {o.tag}")),)  # take a, b
                if k == 3:
                    a = PObj(repo_class(f"{ACT}:_EndSimulationAction"), tag="terminate simulation")
                    a.fields["line"] = 1
                    return a
                a = PObj(repo_class(f"{ACT}:_EndScenarioAction"), tag="terminate (top-level)" if k == 4 else "terminate (sub-scenario)")
                a.fields.update(scenario=top if k == 4 else sub, line=1)
                if k == 5 and MD.pick(I, 2, "sub-scenario already stopped?") == 1:
                    sub.fields["_isRunning"] = False
                return a

            b.fields["_step"] = BuiltinFn("_step", step)
            return b

        objs[0].fields["behavior"] = make_behavior(objs[0])
        objs[1].fields["behavior"] = make_behavior(objs[1])

        def scenario_step():
            log.append(("scenario_step",))
            return "finished compose block" if MD.pick(I, 2, "top-level scenario finishes in this step?") == 1 else None

        def run_monitors():
            log.append(("monitors",))
            if MD.pick(I, 2, "a monitor terminates the simulation?") == 1:
                a = PObj(repo_class(f"{ACT}:_EndSimulationAction"), tag="terminate simulation (monitor)")
                a.fields["line"] = 2
                return a
            return None

        def simterm():
            log.append(("simulation_termination_checks",))
            return PObj("Requirement", tag="terminate simulation when ...") if MD.pick(I, 2, "a `terminate simulation when` holds?") == 1 else None

        def recorded(ty, step):
            log.append(("record", ty, step))
            return PDict()

        top.fields["_step"] = BuiltinFn("_step", scenario_step)
        top.fields["_runMonitors"] = BuiltinFn("_runMonitors", run_monitors)
        top.fields["_checkSimulationTerminationConditions"] = BuiltinFn("_checkSimulationTerminationConditions", simterm)
        top.fields["_evaluateRecordedExprs"] = BuiltinFn("_evaluateRecordedExprs", recorded)

        self = PObj(repo_class(f"{SIM}:Simulation"), tag="simulation")
        scene = PObj("Scene", tag="scene")
        scene.fields["dynamicScenario"] = top
        already = MD.pick(I, 2, "object 1: has just acquired a behavior / is already an agent") == 1
        self.fields.update(scene=scene, objects=PList(objs), agents=PList([objs[0], objs[1]] if already else [objs[0]]), currentTime=0, verbosity=0, screen=None, records=models_spec.PDefaultDict(BuiltinFn("list", lambda: PList())))
        self.fields["trajectory"] = MD.CountedList(0, "trajectory")
        self.fields["actionSequence"] = MD.CountedList(0, "actionSequence")
        self.fields["currentState"] = BuiltinFn("currentState", lambda: ("state at", self.fields["currentTime"]))

        def schedule():
            agents = list(self.fields["agents"].items)
            form = MD.pick(I, 3, "schedule: creation order / reversed / not a permutation of the agents")
            result = self.fields["agents"] if form == 0 else PList(list(reversed(agents))) if form == 1 else PList(agents[:1])
            log.append(("schedule", tuple(agents), tuple(result.items)))
            return result

        self.fields["scheduleForAgents"] = BuiltinFn("scheduleForAgents", schedule)

        def compatible(agent, actions):
            log.append(("compatible?", agent, tuple(I.iterate(actions))))
            return MD.pick(I, 2, f"actions of {agent.tag} compatible?") == 0

        self.fields["actionsAreCompatible"] = BuiltinFn("actionsAreCompatible", compatible)

        def execute(allActions):
            pairs = [(a, tuple(I.iterate(v))) for a, v in zip(allActions.inner.keys, allActions.inner.vals)]
            log.append(("executeActions", tuple(pairs), self.fields["actionSequence"].length, tuple(x.fields["lastActions"] for x in objs)))

        self.fields["executeActions"] = BuiltinFn("executeActions", execute)
        self.fields["step"] = BuiltinFn("step", lambda: log.append(("simulator_step", self.fields["currentTime"])))
        self.fields["updateObjects"] = BuiltinFn("updateObjects", lambda: log.append(("updateObjects", self.fields["currentTime"])))
        return self, top, sub, objs

    def setup_run(I, env):
        eng = I.eng
        self, top, sub, objs = make_world(I, env)
        env.vars["self"], env.vars["dynamicScenario"] = self, top
        if MD.pick(I, 2, "step limit given?") == 1:
            ms = eng.fresh_int("maxSteps")
            eng.assume(compare(">", ms, 0))
            eng.input_syms.append(("maxSteps", C.Int(), ms))
        else:
            ms = None
        env.vars["maxSteps"] = ms
        env.vars["_world"] = (top, sub, objs)
        I._run_world = (self, top, sub, objs, ms)

    def full_iteration_ok(I):
        """The documented sequence of one complete (non-final) time step; returns (ok, why)."""
        self, top, sub, objs, ms = I._run_world
        ev = list(I.eng.events)
        if not ev:
            return True, "no event yet (loop entry)"
        t_end = self.fields["currentTime"]  # already incremented
        pos = 0

        def expect(kind):
            nonlocal pos
            if pos < len(ev) and ev[pos][0] == kind:
                pos += 1
                return ev[pos - 1]
            return None

        if expect("scenario_step") is None:
            return False, "step 1 (scenarios) is not first"
        rec = [e for e in ev if e[0] == "record"]
        while pos < len(ev) and ev[pos][0] == "record":
            pos += 1
        if not rec or rec[-1][1] != "record":
            return False, "step 2 (record) missing after the scenarios"
        if expect("monitors") is None:
            return False, "step 3 (monitors) does not follow recording"
        if expect("simulation_termination_checks") is None:
            return False, "step 4 (simulation termination checks) does not follow the monitors"
        sch = expect("schedule")
        if sch is None:
            return False, "the schedule is not requested after the termination checks"
        agents_then = list(self.fields["agents"].items)
        # agents: creation order kept, newly behaving objects appended at the end
        if agents_then != [objs[0], objs[1]] or list(sch[1]) != agents_then:
            return False, f"agent list is {agents_then}"
        stepped = []
        while pos < len(ev) and ev[pos][0] in ("behavior_step", "compatible?", "scenario_stop"):
            e = ev[pos]
            if e[0] == "behavior_step":
                if not stepped and any(x != () for x in e[2]):
                    return False, "lastActions of the previous step not cleared before the behaviors run"
                stepped.append(e[1])
            pos += 1
        ex = expect("executeActions")
        if ex is None:
            return False, "step 6 (execute actions) does not follow the behaviors"
        if expect("simulator_step") is None:
            return False, "step 7 (simulator step) does not follow the actions"
        up = expect("updateObjects")
        if up is None:
            return False, "step 9 (update of dynamic properties) does not follow the simulator step"
        if pos != len(ev):
            return False, f"unexpected event after the update: {ev[pos][0]}"
        # each agent of the schedule exactly once, in schedule order
        if sorted(o.k for o in stepped) != [0, 1]:
            return False, f"agents stepped: {[o.tag for o in stepped]} (each agent exactly once expected)"
        if [o.k for o in stepped] != [o.k for o in sch[2]]:
            return False, f"agents stepped in the order {[o.tag for o in stepped]}, the schedule was {[o.tag for o in sch[2]]}"
        # the action dictionary lists the agents in the order they were run, and it was logged before execution
        if [a for a, _ in ex[1]] != [o for o in stepped if any(a is o for a, _ in ex[1])]:
            return False, "order of agents in the executed action dictionary differs from the schedule"
        return True, "ok"

    @reg.spec(needs_interp=True)
    def iteration_trace_ok(I):
        ok, why = full_iteration_ok(I)
        I._last_why = why
        return ok

    @reg.spec(needs_interp=True)
    def clock_and_logs_consistent(I):
        """Steps 7-9 and the property's 'one state per step, one action entry per executed step'."""
        self, top, sub, objs, ms = I._run_world
        ev = list(I.eng.events)
        if not ev:
            return True
        t = self.fields["currentTime"]
        sim = [e for e in ev if e[0] == "simulator_step"]
        upd = [e for e in ev if e[0] == "updateObjects"]
        ex = [e for e in ev if e[0] == "executeActions"]
        if len(sim) != 1 or len(upd) != 1 or len(ex) != 1:
            return False
        # simulator stepped before the clock advanced; objects updated after; action entry appended before execution
        return sv_and(compare("==", arith("+", sim[0][1], 1), t), compare("==", upd[0][1], t), compare("==", ex[0][2], t), all(x == () or isinstance(x, tuple) for x in ex[0][3]))

    def post_run(I, env, outcome):
        eng = I.eng
        name = "simulators.Simulation._run"
        self, top, sub, objs, ms = I._run_world
        ev = list(eng.events)
        ks = [e[0] for e in ev]
        t = self.fields["currentTime"]
        if outcome[0] == "raise":
            en = getattr(outcome[1].cls, "name", getattr(outcome[1].cls, "__name__", "?"))
            bad_sched = any(e[0] == "schedule" for e in ev) and not any(e[0] == "behavior_step" for e in ev) and en == "RuntimeError"
            incompatible = en == "InvalidScenarioError" and ks[-1] == "compatible?"
            eng.check(f"{name}#raises.only_for_a_bad_schedule_or_incompatible_actions", bad_sched or incompatible, detail=f"{en} after {ks}")
            eng.check(f"{name}#raises.nothing_executed_after_the_error", not any(k in ("executeActions", "simulator_step", "updateObjects") for k in ks))
            return
        ttype, reason = outcome[1]
        tn = lambda n: ttype == term_type(I, n)  # noqa: E731
        # "one state per step (including the initial one), one action entry per executed step"
        eng.check(f"{name}#ensures.at_return_one_state_per_step_including_the_current_one", compare("==", self.fields["trajectory"].length, arith("+", t, 1)))
        eng.check(f"{name}#ensures.at_return_one_action_entry_per_executed_step", compare("==", self.fields["actionSequence"].length, t))
        # after the terminating decision nothing else runs
        eng.check(f"{name}#ensures.nothing_runs_after_the_terminating_decision", not any(k in ("executeActions", "simulator_step", "updateObjects") for k in ks))
        # steps 1-3 always run, in order, before any decision to stop
        head = [k for k in ks if k != "record"][:2]
        eng.check(f"{name}#ensures.scenarios_then_recording_then_monitors_before_stopping", ks[0] == "scenario_step" and head == ["scenario_step", "monitors"] and "record" in ks[1 : ks.index("monitors")])
        # which stopping point (documented step 4 / 5b), in the documented priority
        scen_done = _choice(I, "top-level scenario finishes in this step?")
        mon_term = _choice(I, "a monitor terminates the simulation?")
        if mon_term:
            eng.check(f"{name}#ensures.monitor_termination_reported_as_such", tn("terminatedByMonitor") and ks[-1] == "monitors")
        elif scen_done:
            eng.check(f"{name}#ensures.scenario_completion_reported_after_the_monitors_ran", tn("scenarioComplete") and ks[-1] == "monitors" and reason == "finished compose block")
        elif _choice(I, "a `terminate simulation when` holds?"):
            eng.check(f"{name}#ensures.simulation_termination_condition_checked_after_the_monitors", tn("simulationTerminationCondition") and ks[-1] == "simulation_termination_checks")
        elif tn("timeLimit"):
            eng.check(f"{name}#ensures.step_limit_checked_last_before_the_behaviors", ks[-1] == "simulation_termination_checks" and ms is not None)
            eng.check(f"{name}#ensures.step_limit_stops_exactly_at_maxSteps", compare("==", t, ms) if ms is not None else False)
        else:
            # stopped by a behavior (step 5b): the agents before it in the schedule ran exactly once, the others not at all
            eng.check(f"{name}#ensures.otherwise_a_behavior_stopped_the_simulation", tn("terminatedByBehavior") and "behavior_step" in ks)
            stepped = [e[1] for e in ev if e[0] == "behavior_step"]
            sched = [e for e in ev if e[0] == "schedule"]
            in_order = bool(sched) and [o.k for o in stepped] == [o.k for o in sched[0][2]][: len(stepped)]
            eng.check(f"{name}#ensures.no_agent_runs_twice_and_none_after_the_terminating_one", len({o.k for o in stepped}) == len(stepped) and ks[-1] in ("behavior_step", "scenario_stop") and in_order)
            if ms is not None:
                eng.check(f"{name}#ensures.behaviors_only_run_before_the_step_limit", compare("<", t, ms))
        if not tn("timeLimit") and ms is not None and "behavior_step" not in ks and not (mon_term or scen_done or _choice(I, "a `terminate simulation when` holds?")):
            eng.check(f"{name}#ensures.unreachable", False)
        # a `terminate` of a sub-scenario stops that scenario (if still running) and the agent takes no action
        for i, e in enumerate(ev):
            if e[0] == "scenario_stop":
                eng.check(f"{name}#ensures.terminate_stops_the_scenario_of_the_agent_once", ev[i - 1][0] == "behavior_step" and e[1].fields["_isRunning"] is False)

    def _choice(I, label):
        return 1 in MD.picked(I, label)

    def carried(nm):
        """Frame of the loop for the local `nm`: whatever an earlier iteration may have left in it.  Locals first bound
        inside the loop stay as they are (every iteration binds them before use); a local that exists at loop entry
        (a cache carried from step to step) becomes an arbitrary value of its kind -- for None-initialised ones:
        None, or any schedule an earlier step may have produced (all orders of the agents)."""

        def typ(I, env):
            try:
                cur = env.lookup(nm)
            except KeyError:
                return Opaque(f"<{nm} of an earlier iteration>")
            self, top, sub, objs, ms = I._run_world
            if isinstance(cur, bool):
                return I.eng.fresh_bool(nm)
            if isinstance(cur, int):
                return I.eng.fresh_int(nm)
            if isinstance(cur, float):
                return I.eng.fresh_real(nm)
            if cur is None or isinstance(cur, (PList, tuple)):
                # a schedule cached by an earlier step can only mention objects that were agents then: in the world where
                # object 1 is already an agent, the order an earlier step was given (here: the reverse of creation order)
                pool = [None, PList([objs[1], objs[0]])] if len(self.fields["agents"].items) == 2 else [None]
                return pool[MD.pick(I, len(pool), f"value of the loop-carried local `{nm}` left by an earlier step (none / a schedule of an earlier step)")]
            return cur

        return typ

    def run_loop_modifies(I=None):
        mods = {nm: carried(nm) for nm in loop_locals(RUN)}
        mods["self.currentTime"] = C.Int(lo=0)
        mods["self.trajectory"] = lambda I, env: MD.CountedList(_fresh_len(I, "len(trajectory)"), "trajectory")
        mods["self.actionSequence"] = lambda I, env: MD.CountedList(_fresh_len(I, "len(actionSequence)"), "actionSequence")
        return mods

    def _fresh_len(I, nm):
        n = I.eng.fresh_int(nm)
        I.eng.assume(compare(">=", n, 0))
        return n

    reg.add(
        C.Contract(
            RUN,
            params=dict(self=C.Const(None), dynamicScenario=C.Const(None), maxSteps=C.Const(None)),
            setup=setup_run,
            post=post_run,
            loops={
                1: dict(
                    invariants={
                        # "one state per step, one action entry per executed step" (property statement)
                        "one_state_and_one_action_entry_per_completed_step": "len(self.trajectory) == self.currentTime and len(self.actionSequence) == self.currentTime",
                        "clock_counts_completed_steps_and_respects_the_limit": "self.currentTime >= 0 and implies(maxSteps is not None, self.currentTime <= maxSteps)",
                        "steps_1_to_9_in_the_documented_order_each_agent_exactly_once": "iteration_trace_ok()",
                        "simulator_step_then_clock_then_update_and_actions_logged_before_execution": "clock_and_logs_consistent()",
                    },
                    modifies=run_loop_modifies(),
                )
            },
            inline=["Simulation.recordCurrentState"],
            raises=[C.Raises("RuntimeError", mode="may"), C.Raises("InvalidScenarioError", mode="may")],
            replay=replay_run_order,
            bounded=True,
            note="bounded: three objects (one agent, one object that has just acquired a behavior, one without); schedules: creation order, reversed, incomplete; "
            "currentTime, maxSteps and the lengths of trajectory/actionSequence are symbolic (loop invariant)",
            properties=("C12",),
        )
    )

    # =============================================================================== DynamicScenario._step
    STEP = f"{DS}:DynamicScenario._step"

    def setup_step(I, env):
        eng = I.eng
        log = eng.events
        st = MD.current_state(I)
        self = PObj(repo_class(f"{DS}:DynamicScenario"), tag="scenario")
        elapsed = eng.fresh_int("elapsedTime")
        eng.assume(compare(">=", elapsed, 0))
        eng.input_syms.append(("elapsedTime", C.Int(), elapsed))
        has_limit = MD.pick(I, 2, "time limit set (`terminate after`)?") == 1
        limit = None
        if has_limit:
            limit = eng.fresh_real("timeLimitInSteps")
            eng.input_syms.append(("timeLimitInSteps", C.Real(), limit))
        env.vars["_elapsed"], env.vars["_limit"] = elapsed, limit

        def monitor(k):
            m = PObj("RequirementMonitor", tag=f"temporal requirement {k}")

            def value():
                log.append(("requirement_check", k, self.fields["_elapsedTime"]))
                v = MD.pick(I, 3, f"value of temporal requirement {k}")
                return ["B4.TRUE", "B4.PRESUMABLY_FALSE", "B4.FALSE"][v]

            m.fields["value"] = BuiltinFn("value", value)
            return m

        form = MD.pick(I, 3, "compose block: none / running / finished earlier")
        it = None
        if form == 1:

            def step(k):
                log.append(("compose_resumed", self.fields["_elapsedTime"], st.get("currentScenario")))
                what = MD.pick(I, 4, "compose block: waits / terminate / terminate simulation / finishes")
                if what == 0:
                    return ("yield", None)
                if what == 1:
                    a = PObj(repo_class(f"{ACT}:_EndScenarioAction"), tag="terminate")
                    a.fields.update(scenario=self, line=1)
                    return ("yield", a)
                if what == 2:
                    a = PObj(repo_class(f"{ACT}:_EndSimulationAction"), tag="terminate simulation")
                    a.fields["line"] = 1
                    return ("yield", a)
                return ("return", None)

            it = MD.ScriptedIterator("compose block", step)

        def stop(reason, quiet=False):
            log.append(("stop", reason))
            return reason

        def cond(k):
            r = PObj("Requirement", tag=f"terminate when #{k}")

            def evaluate():
                log.append(("termination_condition", k))
                return MD.pick(I, 2, f"`terminate when` #{k} holds?") == 1

            r.fields["evaluate"] = BuiltinFn("evaluate", evaluate)
            return r

        agent = PObj("Object", tag="agent")
        beh = PObj("Behavior", tag="behavior")
        beh.fields["_isFinished"] = MD.pick(I, 2, "agent's behavior finished?") == 1
        agent.fields["behavior"] = beh
        self.fields.update(
            _isRunning=True,
            _requirementMonitors=PList([monitor(0), monitor(1)]),
            _timeLimitInSteps=limit,
            _elapsedTime=elapsed,
            _runningIterator=it,
            _compose=None if form == 0 else Opaque("compose"),
            _endWithBehaviors=False,
            _agents=PList([agent]),
            _terminationConditions=PList([cond(0), cond(1)]),
            _globalParameters=PDict(),
            _ego=None,
            _workspace=None,
        )
        self.fields["_stop"] = BuiltinFn("_stop", stop)
        env.vars["self"] = self
        env.vars["_form"] = form

    def post_step(I, env, outcome):
        eng = I.eng
        name = "scenarios.DynamicScenario._step"
        self, elapsed, limit, form = env.vars["self"], env.vars["_elapsed"], env.vars["_limit"], env.vars["_form"]
        ev = list(eng.events)
        ks = [e[0] for e in ev]
        if outcome[0] == "raise":
            en = getattr(outcome[1].cls, "name", "?")
            # (1a) a temporal requirement that can no longer be satisfied rejects the simulation, before anything else runs
            eng.check(f"{name}#raises.RejectSimulationException.only_when_a_temporal_requirement_is_violated", en == "RejectSimulationException" and set(ks) == {"requirement_check"} and _last_choice(I, "value of temporal requirement") == 2)
            return
        res = outcome[1]
        # (1a) first: every temporal requirement checked, in order, none violated
        eng.check(f"{name}#ensures.1a_all_temporal_requirements_checked_first", ks[:2] == ["requirement_check", "requirement_check"] and [e[1] for e in ev[:2]] == [0, 1])
        reached = sv_and(limit is not None, compare(">=", elapsed, limit)) if limit is not None else False
        stopped_for_limit = ("stop", "reached time limit") in ev
        # (1b) `terminate after N steps`: the call in which N steps have elapsed stops the scenario and runs nothing else
        eng.check(f"{name}#ensures.1b_time_limit_stops_the_scenario_iff_N_steps_have_elapsed", tobool(reached) if stopped_for_limit else z3.Not(tobool(reached)) if not isinstance(reached, bool) else not reached)
        if stopped_for_limit:
            eng.check(f"{name}#ensures.1b_nothing_else_runs_in_the_stopping_call", ks == ["requirement_check", "requirement_check", "stop"] and res == "reached time limit")
            eng.check(f"{name}#ensures.1b_elapsed_time_not_counted_for_the_stopping_call", compare("==", self.fields["_elapsedTime"], elapsed))
            return
        eng.check(f"{name}#ensures.elapsed_time_counts_this_step", compare("==", self.fields["_elapsedTime"], arith("+", elapsed, 1)))
        rest = ev[2:]
        rk = [e[0] for e in rest]
        # (1d) the compose block runs after the limit check, with the clock already advanced, inside the scenario's context
        if form == 1:
            ok = rk[:1] == ["compose_resumed"] and rest[0][2] is self
            eng.check(f"{name}#ensures.1d_compose_block_resumed_once_after_the_time_limit_check_in_the_scenario_context", ok and rk.count("compose_resumed") == 1)
            eng.check(f"{name}#ensures.1d_compose_sees_the_advanced_clock", compare("==", rest[0][1], arith("+", elapsed, 1)) if ok else False)
            what = _last_choice(I, "compose block: waits / terminate / terminate simulation / finishes")
            if what in (1, 2):
                eng.check(f"{name}#ensures.1d_terminate_in_compose_stops_the_scenario_at_once", rk == ["compose_resumed", "stop"] and res is rest[1][1])
                return
            if what == 3:
                eng.check(f"{name}#ensures.1d_finished_compose_block_stops_the_scenario", rk == ["compose_resumed", "stop"] and res == "finished compose block" and self.fields["_runningIterator"] is None)
                return
        else:
            eng.check(f"{name}#ensures.no_compose_event_without_a_running_compose_block", "compose_resumed" not in rk)
            if form == 2:
                eng.check(f"{name}#ensures.compose_block_finished_earlier_stops_the_scenario", rk == ["stop"] and res == "finished compose block")
                return
        # termination conditions last, in order, first true one stops
        tail = [e for e in rest if e[0] != "compose_resumed"]
        tk = [e[0] for e in tail]
        c0, c1 = _last_choice(I, "`terminate when` #0 holds?"), _last_choice(I, "`terminate when` #1 holds?")
        if c0 == 1:
            eng.check(f"{name}#ensures.termination_conditions_checked_last_first_true_one_stops", tk == ["termination_condition", "stop"] and res is self.fields["_terminationConditions"].items[0])
        elif c1 == 1:
            eng.check(f"{name}#ensures.termination_conditions_checked_last_first_true_one_stops", tk == ["termination_condition", "termination_condition", "stop"] and res is self.fields["_terminationConditions"].items[1])
        else:
            eng.check(f"{name}#ensures.scenario_continues_when_nothing_applies", tk == ["termination_condition", "termination_condition"] and res is None)
        # global state: the scenario context is left again
        eng.check(f"{name}#ensures.scenario_context_left_again", MD.current_state(I).get("currentScenario") is None)

    def _last_choice(I, prefix):
        vals = MD.picked(I, prefix)
        return vals[-1] if vals else None

    reg.add(
        C.Contract(
            STEP,
            params=dict(self=C.Const(None)),
            setup=setup_step,
            post=post_step,
            inline=["Invocable._step"],
            raises=[C.Raises("RejectSimulationException", mode="may")],
            replay=replay_scenario_step,
            bounded=True,
            note="bounded: two temporal requirements, two `terminate when` conditions, one agent; elapsed time and limit symbolic",
            properties=("C12",),
        )
    )

    # =============================================================================== terminate_after + _start: seconds -> steps
    def setup_ta(I, env):
        eng = I.eng
        st = MD.current_state(I)
        sc = PObj(repo_class(f"{DS}:DynamicScenario"), tag="scenario")
        sc.fields.update(_timeLimit=None, _timeLimitIsInSeconds=False)
        st.set("currentScenario", sc)
        n = eng.fresh_real("N")
        eng.assume(compare(">=", n, 0))
        eng.input_syms.append(("N", C.Real(), n))
        env.vars["timeLimit"] = n
        env.vars["terminator"] = [None, "seconds", "steps"][MD.pick(I, 3, "unit: none / seconds / steps")]
        env.vars["_sc"] = sc

    def post_ta(I, env, outcome):
        eng = I.eng
        name = "veneer.terminate_after"
        if outcome[0] != "return":
            return
        sc, n, unit = env.vars["_sc"], env.vars["timeLimit"], env.vars["terminator"]
        # ... followed by the REAL DynamicScenario._start prologue: limit in steps for a given timestep
        ts = eng.fresh_real("timestep")
        eng.assume(compare(">", ts, 0))
        eng.input_syms.append(("timestep", C.Real(), ts))
        sim = PObj("Simulation", tag="simulation")
        sim.fields.update(timestep=ts, name="sim")
        st = MD.current_state(I)
        st.set("currentSimulation", sim)
        sc.fields.update(
            _isRunning=False, _prepared=True, _delayingPreconditionCheck=False, _args=(), _kwargs=PDict(), _temporalRequirements=PList(), _compose=None,
            _agents=PList(), _monitors=PList(), _recordedExprs=PList(), _globalParameters=PDict(), _ego=None, _workspace=None,
        )
        I.run_function(I.find_method(repo_class(f"{DS}:DynamicScenario"), "_start"), [sc], {}, reg.contracts[f"{V}:terminate_after"].inline_view())
        got = sc.fields["_timeLimitInSteps"]
        want = n if unit == "steps" else arith("/", n, ts)
        eng.check(f"{name}#ensures.limit_in_steps_is_N_for_steps_and_N_over_timestep_for_seconds", compare("==", got, want), detail=f"unit {unit}")
        eng.check(f"{name}#ensures.elapsed_time_starts_at_zero", sc.fields["_elapsedTime"] == 0)

    reg.add(
        C.Contract(
            f"{V}:terminate_after",
            params=dict(timeLimit=C.Const(None), terminator=C.Const(None)),
            closure_env=lambda I: MD.current_state(I).env,
            setup=setup_ta,
            post=post_ta,
            inline=["DynamicScenario._setTimeLimit", "DynamicScenario._start", "Invocable._start", "Invocable._finalizeArguments", "startScenario"],
            replay=replay_terminate_after,
            properties=("C12",),
        )
    )

    # =============================================================================== do X for N steps / seconds
    def setup_for(I, env):
        eng = I.eng
        st = MD.current_state(I)
        start = eng.fresh_int("startTime")
        eng.assume(compare(">=", start, 0))
        ts = eng.fresh_real("timestep")
        eng.assume(compare(">", ts, 0))
        n = eng.fresh_real("N")
        eng.assume(compare(">=", n, 0))
        for nm, v, t in (("startTime", start, C.Int()), ("timestep", ts, C.Real()), ("N", n, C.Real())):
            eng.input_syms.append((nm, t, v))
        sim = PObj("Simulation", tag="simulation")
        sim.fields.update(currentTime=start, timestep=ts)
        st.set("currentSimulation", sim)
        unit = [None, "seconds", "steps"][MD.pick(I, 3, "unit: none / seconds / steps")]
        mod = PObj("Modifier", tag="for")
        mod.fields.update(name="for", value=n, terminator=unit)
        sub = PObj("SubBehavior", tag="sub-behavior")
        sub.fields["_isRunning"] = MD.pick(I, 2, "sub-behavior still running when the time is up?") == 1
        sub.stopped = []

        def stop(reason=None):
            sub.stopped.append(reason)
            sub.fields["_isRunning"] = False

        sub.fields["_stop"] = BuiltinFn("_stop", stop)
        self = PObj(repo_class(f"{IV}:Invocable"), tag="behavior")
        self.fields["_invokeInner"] = BuiltinFn("_invokeInner", lambda agent, subs: bm.OneShot([("sub step",)]))
        captured = {}

        def rti(I_, behavior, agent, body, conditions, handlers):
            captured.update(behavior=behavior, agent=agent, body=body, conditions=list(I.iterate(conditions)), handlers=list(I.iterate(handlers)))
            return bm.OneShot([])

        reg.models[f"{IV}:runTryInterrupt"] = rti
        env.vars.update(self=self, agent=PObj("Agent", tag="agent"), subs=(sub,), modifier=mod, schedule=None)
        env.vars["_cap"], env.vars["_sim"], env.vars["_vals"], env.vars["_sub"] = captured, sim, (start, ts, n, unit), sub

    def post_for(I, env, outcome):
        eng = I.eng
        name = "invocables.Invocable._invokeSubBehavior[for]"
        if outcome[0] != "return":
            return
        I.iterate(outcome[1])
        cap, sim, (start, ts, n, unit), sub = env.vars["_cap"], env.vars["_sim"], env.vars["_vals"], env.vars["_sub"]
        ok = len(cap.get("conditions", [])) == 1 and len(cap.get("handlers", [])) == 1 and cap.get("behavior") is env.vars["self"]
        eng.check(f"{name}#ensures.runs_as_a_try_interrupt_with_one_condition_and_one_handler", ok)
        if not ok:
            return
        # the interrupt condition at an arbitrary later time t: true iff at least N steps (N/timestep for seconds) have elapsed since the start
        t = eng.fresh_int("now")
        eng.assume(compare(">=", t, start))
        sim.fields["currentTime"] = t
        got = I.call_value(cap["conditions"][0], [])
        limit = n if unit == "steps" else arith("/", n, ts)
        want = compare(">=", arith("-", t, start), limit)
        eng.check(f"{name}#ensures.condition_true_iff_N_steps_have_elapsed_since_the_start", tobool(I.truth(got)) == tobool(want), detail=f"unit {unit}")
        # consequence (counting): the body is resumed at clock values start, start+1, ...: exactly ceil(limit) times before the condition holds
        k = eng.fresh_int("k")
        eng.assume(compare(">=", k, 0))
        sim.fields["currentTime"] = arith("+", start, k)
        at_k = tobool(I.truth(I.call_value(cap["conditions"][0], [])))
        eng.check(f"{name}#ensures.body_runs_exactly_while_fewer_than_N_steps_have_elapsed", at_k == tobool(compare(">=", k, limit)))
        # the handler stops what is still running and aborts the statement
        r = I.call_value(cap["handlers"][0], [env.vars["self"], env.vars["agent"]])
        abort = I.get_attr(repo_class(f"{IV}:BlockConclusion"), "ABORT")
        eng.check(f"{name}#ensures.handler_stops_running_sub_behaviors_and_aborts", r is abort or r == abort)
        eng.check(f"{name}#ensures.handler_stops_each_running_sub_behavior_once", sub.fields["_isRunning"] is False and len(sub.stopped) <= 1)

    reg.add(
        C.Contract(
            f"{IV}:Invocable._invokeSubBehavior",
            params=dict(self=C.Const(None), agent=C.Const(None), subs=C.Const(None), modifier=C.Const(None), schedule=C.Const(None)),
            setup=setup_for,
            post=post_for,
            raises=[C.Raises("TypeError", mode="may")],
            replay=replay_do_for,
            properties=("C12",),
        ),
        key=f"{IV}:Invocable._invokeSubBehavior[for]",
    )

    # =============================================================================== DynamicScenario._runMonitors
    def setup_mon(I, env):
        eng = I.eng
        log = eng.events
        self = PObj(repo_class(f"{DS}:DynamicScenario"), tag="scenario")

        def monitor(k):
            m = PObj("Monitor", tag=f"monitor {k}")

            def step():
                log.append(("monitor_step", k))
                what = MD.pick(I, 3, f"monitor {k}: waits / terminate / terminate simulation")
                if what == 0:
                    return ()
                if what == 1:
                    a = PObj(repo_class(f"{ACT}:_EndScenarioAction"), tag=f"terminate by monitor {k}")
                    a.fields.update(scenario=None, line=1)
                    return a
                a = PObj(repo_class(f"{ACT}:_EndSimulationAction"), tag=f"terminate simulation by monitor {k}")
                a.fields["line"] = 1
                return a

            m.fields["_step"] = BuiltinFn("_step", step)
            return m

        sub = PObj("DynamicScenario", tag="sub-scenario")

        def sub_monitors():
            log.append(("sub_monitors",))
            return Opaque("sub reason") if MD.pick(I, 2, "a monitor of a sub-scenario terminates the simulation?") == 1 else None

        sub.fields["_runMonitors"] = BuiltinFn("_runMonitors", sub_monitors)

        def stop(reason, quiet=False):
            log.append(("stop", reason))
            return reason

        self.fields.update(_monitors=PList([monitor(0), monitor(1)]), _subScenarios=PList([sub]))
        self.fields["_stop"] = BuiltinFn("_stop", stop)
        env.vars["self"] = self

    def post_mon(I, env, outcome):
        eng = I.eng
        name = "scenarios.DynamicScenario._runMonitors"
        if outcome[0] != "return":
            return
        ev = list(eng.events)
        ks = [e[0] for e in ev]
        res = outcome[1]
        m0, m1 = _last_choice(I, "monitor 0:"), _last_choice(I, "monitor 1:")
        subterm = _last_choice(I, "a monitor of a sub-scenario terminates") == 1
        # step 3: every monitor runs once, in order, even if an earlier one asked to terminate; then the sub-scenarios' monitors
        eng.check(f"{name}#ensures.every_monitor_runs_once_in_order_then_sub_scenarios", ks[:3] == ["monitor_step", "monitor_step", "sub_monitors"] and [e[1] for e in ev[:2]] == [0, 1])
        ends = [k for k, m in ((0, m0), (1, m1)) if m == 1]
        # `terminate` in a monitor stops the scenario which instantiated it, after all monitors have run
        eng.check(f"{name}#ensures.terminate_in_a_monitor_stops_its_scenario_after_all_monitors_ran", (ks[3:] == ["stop"]) == bool(ends) and len(ks) <= 4)
        sims = [k for k, m in ((0, m0), (1, m1)) if m == 2]
        if subterm or sims:
            ok = getattr(res, "tag", "").startswith("terminate simulation") or isinstance(res, Opaque)
            eng.check(f"{name}#ensures.terminate_simulation_is_reported", ok)
        elif ends:
            eng.check(f"{name}#ensures.terminate_is_reported_when_no_monitor_ends_the_simulation", getattr(res, "tag", "") == f"terminate by monitor {ends[-1]}")
        else:
            eng.check(f"{name}#ensures.none_when_every_monitor_waits", res is None)

    reg.add(C.Contract(f"{DS}:DynamicScenario._runMonitors", params=dict(self=C.Const(None)), setup=setup_mon, post=post_mon, replay=replay_monitors, bounded=True, note="bounded: two monitors and one sub-scenario", properties=("C12",)))

    # =============================================================================== Behavior._step
    def setup_bstep(I, env):
        eng = I.eng
        st = MD.current_state(I)
        seen = []
        self = PObj(repo_class(f"{BH}:Behavior"), tag="behavior")

        def step(k):
            seen.append(st.get("currentBehavior"))
            what = MD.pick(I, 3, "behavior: takes an action / waits / has finished")
            if what == 0:
                return ("yield", (PObj("Action", tag="action"),))
            if what == 1:
                return ("yield", ())
            return ("return", None)

        self.fields.update(_isRunning=True, _runningIterator=MD.ScriptedIterator("behavior", step))
        st.set("currentBehavior", None)
        env.vars["self"], env.vars["_seen"] = self, seen

    def post_bstep(I, env, outcome):
        eng = I.eng
        name = "behaviors.Behavior._step"
        if outcome[0] != "return":
            return
        seen, self = env.vars["_seen"], env.vars["self"]
        what = _last_choice(I, "behavior: takes an action")
        eng.check(f"{name}#ensures.resumed_exactly_once_as_the_current_behavior", len(seen) == 1 and seen[0] is self)
        eng.check(f"{name}#ensures.current_behavior_restored", MD.current_state(I).get("currentBehavior") is None)
        res = outcome[1]
        if what == 0:
            eng.check(f"{name}#ensures.returns_the_actions_taken", isinstance(res, tuple) and len(res) == 1 and res[0].tag == "action")
        else:
            eng.check(f"{name}#ensures.no_action_when_waiting_or_finished", res == ())

    reg.add(C.Contract(f"{BH}:Behavior._step", params=dict(self=C.Const(None)), setup=setup_bstep, post=post_bstep, inline=["Invocable._step"], properties=("C12",)))

    # =============================================================================== _checkSimulationTerminationConditions
    def setup_stc(I, env):
        eng = I.eng
        self = PObj(repo_class(f"{DS}:DynamicScenario"), tag="scenario")
        reqs = []
        for k in range(2):
            r = PObj("Requirement", tag=f"terminate simulation when #{k}")
            v = PObj("B4", tag=f"value {k}")
            v.fields["is_truthy"] = eng.fresh_bool(f"cond{k}")
            eng.input_syms.append((f"cond{k}", C.Bool(), v.fields["is_truthy"]))

            def is_true(k=k, v=v):
                eng.events.append(("evaluated", k))
                return v

            r.fields["isTrue"] = BuiltinFn("isTrue", is_true)
            r.val = v.fields["is_truthy"]
            reqs.append(r)
        self.fields["_terminateSimulationConditions"] = PList(reqs)
        env.vars["self"], env.vars["_reqs"] = self, reqs

    def post_stc(I, env, outcome):
        eng = I.eng
        name = "scenarios.DynamicScenario._checkSimulationTerminationConditions"
        if outcome[0] != "return":
            return
        reqs, res = env.vars["_reqs"], outcome[1]
        c0, c1 = tobool(reqs[0].val), tobool(reqs[1].val)
        want = z3.If(c0, 0, z3.If(c1, 1, -1))
        got = 0 if res is reqs[0] else 1 if res is reqs[1] else -1
        eng.check(f"{name}#ensures.first_satisfied_condition_in_program_order_else_none", want == got)

    reg.add(C.Contract(f"{DS}:DynamicScenario._checkSimulationTerminationConditions", params=dict(self=C.Const(None)), setup=setup_stc, post=post_stc, replay=replay_simulation_termination_conditions, properties=("C12",)))


def register_stop_and_startup(reg):
    """DynamicScenario._stop (documented step 1e) and the start-up / wind-down order of Simulation.__init__ (step 10)."""

    # =============================================================================== DynamicScenario._stop
    def setup_stop(I, env):
        eng = I.eng
        log = eng.events
        st = MD.current_state(I)
        self = PObj(repo_class(f"{DS}:DynamicScenario"), tag="scenario")
        quiet = MD.pick(I, 2, "quiet stop (clean-up after an exception)?") == 1

        def part(kind, tag, running=True):
            o = PObj(kind, tag=tag)
            o.fields["_isRunning"] = running

            def stop(reason=None, quiet=False):
                log.append(("stop " + kind.lower(), tag, quiet))
                o.fields["_isRunning"] = False

            o.fields["_stop"] = BuiltinFn("_stop", stop)
            return o

        mons = [part("Monitor", "running monitor"), part("Monitor", "finished monitor", running=False)]
        subs = [part("SubScenario", "running sub-scenario"), part("SubScenario", "finished sub-scenario", running=False)]
        obj = PObj("Object", tag="overridden object")
        obj.fields["_revert"] = BuiltinFn("_revert", lambda old: log.append(("revert", old)))
        old = PDict([("foo", 0)])

        def req(k):
            r = PObj("RequirementMonitor", tag=f"temporal requirement {k}")
            v = PObj("B4", tag="last value")
            v.fields["is_falsy"] = MD.pick(I, 2, f"temporal requirement {k} unsatisfied at the end?") == 1
            r.fields["lastValue"] = v
            return r

        rec = PObj("Recorder", tag="recorder")
        rec.fields["_recording"] = True  # the scenario was started: its recorders began recording (the failed-start case is C14's contract)
        rec.fields["endRecording"] = BuiltinFn("endRecording", lambda canceled=False: log.append(("end recording", canceled, self.fields["_isRunning"])))
        cfg = PObj("RecordConfig", tag="record config")
        cfg.fields["recorder"] = rec
        rexpr = PObj("RecordedExpr", tag="record ... to file")
        rexpr.fields["recConfig"] = cfg
        self.fields.update(_isRunning=True, _monitors=PList(mons), _subScenarios=PList(subs), _runningIterator=Opaque("compose iterator"), _overrides=PDict([(obj, old)]), _requirementMonitors=PList([req(0), req(1)]), _recordedExprs=PList([rexpr]), _agent=None)
        st.get("runningScenarios").items.append(self)
        env.vars.update(self=self, reason="finished compose block", quiet=quiet)
        env.vars["_oldvals"] = old

    def post_stop(I, env, outcome):
        eng = I.eng
        name = "scenarios.DynamicScenario._stop[order]"
        self, quiet = env.vars["self"], env.vars["quiet"]
        ev = list(eng.events)
        ks = [e[0] for e in ev]
        unsat = 1 in MD.picked(I, "temporal requirement")
        # (1e) "first recursively stop any sub-scenarios it is running, then revert the effects of any override statements"
        eng.check(f"{name}#ensures.1e_running_monitors_and_sub_scenarios_stopped_then_overrides_reverted", ks[:3] == ["stop monitor", "stop subscenario", "revert"] and ev[0][1] == "running monitor" and ev[1][1] == "running sub-scenario" and ev[2][1] is env.vars["_oldvals"])
        eng.check(f"{name}#ensures.1e_sub_scenarios_stopped_as_quietly_as_the_parent", len(ev) > 1 and ev[1][0] == "stop subscenario" and ev[1][2] is quiet)
        eng.check(f"{name}#ensures.scenario_marked_stopped_and_removed_from_the_running_list", self.fields["_isRunning"] is False and self not in MD.current_state(I).get("runningScenarios").items and self.fields["_runningIterator"] is None)
        # "Next, check if any of its temporal requirements were not satisfied: if so, reject the simulation" -- after the clean-up, and never for a quiet stop
        rejected = outcome[0] == "raise"
        eng.check(f"{name}#ensures.1e_rejects_iff_a_temporal_requirement_is_unsatisfied_and_the_stop_is_not_quiet", rejected == (unsat and not quiet))
        eng.check(f"{name}#ensures.recordings_ended_after_the_scenario_stopped_and_cancelled_on_rejection_or_quiet_stop", ks[3:] == ["end recording"] and len(ev) > 3 and ev[3][1] is (quiet or (unsat and not quiet)) and ev[3][2] is False)
        if not rejected:
            eng.check(f"{name}#ensures.returns_the_reason", outcome[1] == "finished compose block")

    reg.add(
        C.Contract(
            f"{DS}:DynamicScenario._stop",
            params=dict(self=C.Const(None), reason=C.Const(None), quiet=C.Const(None)),
            setup=setup_stop,
            post=post_stop,
            inline=["Invocable._stop", "endScenario"],
            raises=[C.Raises("RejectSimulationException", mode="may")],
            bounded=True,
            note="bounded: two monitors, two sub-scenarios (one of each still running), one overridden object, two temporal requirements, one recorder",
            properties=("C12",),
        ),
        key=f"{DS}:DynamicScenario._stop[order]",
    )

    # =============================================================================== Simulation.__init__: start-up and wind-down order
    reg.constructors.setdefault(f"{SIM}:SimulationResult", lambda I, cls, args, kwargs: PObj(cls, dict(args=tuple(args)), tag="result"))

    def setup_init(I, env):
        eng = I.eng
        log = eng.events
        st = MD.current_state(I)
        dyn = PObj("DynamicScenario", tag="top-level scenario")
        sub = PObj("DynamicScenario", tag="sub-scenario still running at the end")
        dyn.fields.update(_setup=None)
        dyn.fields["_bindTo"] = BuiltinFn("_bindTo", lambda sc: log.append(("bind", st.get("currentSimulation") is not None)))
        dyn.fields["_unbind"] = BuiltinFn("_unbind", lambda: None)  # undoes _bindTo (C14 contract); not part of the step order

        def start():
            log.append(("scenario start", len(self.fields["objects"].items), self.fields.get("agents") is not None))
            st.get("runningScenarios").items.extend([dyn, sub])

        def mk_stop(sc):
            def stop(reason, quiet=False):
                log.append(("scenario stop", sc.tag, quiet))
                st.get("runningScenarios").items.remove(sc)
                return reason

            return BuiltinFn("_stop", stop)

        dyn.fields["_start"] = BuiltinFn("_start", start)
        dyn.fields["_stop"], sub.fields["_stop"] = mk_stop(dyn), mk_stop(sub)
        dyn.fields["_evaluateRecordedExprs"] = BuiltinFn("_evaluateRecordedExprs", lambda ty, step: log.append(("record final", ty, step, len(st.get("runningScenarios").items))) or PDict([("r", 7)]))
        obj = PObj("Object", tag="object")
        obj.fields.update(_dynamicProxy=obj, behavior=None)
        obj.fields["_copyWith"] = BuiltinFn("_copyWith", lambda: PObj("Object", tag="proxy"))
        obj.fields["startDynamicSimulation"] = BuiltinFn("startDynamicSimulation", lambda: log.append(("startDynamicSimulation", obj.fields["_dynamicProxy"] is not obj)))
        opts = PObj("CompileOptions", tag="options")
        opts.fields["mode2D"] = False
        scene = PObj("Scene", tag="scene")
        scene.fields.update(dynamicScenario=dyn, objects=(obj,), params=PDict(), compileOptions=opts, behaviorNamespaces=PDict())
        self = PObj(repo_class(f"{SIM}:Simulation"), tag="simulation")
        self.fields["initializeReplay"] = BuiltinFn("initializeReplay", lambda *a: None)
        self.fields["createObjectInSimulator"] = BuiltinFn("createObjectInSimulator", lambda o: log.append(("create", o.fields["_dynamicProxy"] is not o)))
        self.fields["updateObjects"] = BuiltinFn("updateObjects", lambda: log.append(("updateObjects",)))
        self.fields["_run"] = BuiltinFn("_run", lambda d, m: log.append(("run", d is dyn, m)) or ("type", "reason"))
        self.fields["destroy"] = BuiltinFn("destroy", lambda: log.append(("destroy", self.fields.get("result") is not None)))
        env.vars.update(self=self, scene=scene, maxSteps=5, name="sim", timestep=None)

    def post_init(I, env, outcome):
        eng = I.eng
        name = "simulators.Simulation.__init__[order]"
        if outcome[0] != "return":
            eng.check(f"{name}#ensures.no_exception_in_a_normal_run", False, detail=repr(outcome[1]))
            return
        ev = list(eng.events)
        ks = [e[0] for e in ev]
        want = ["bind", "create", "startDynamicSimulation", "scenario start", "updateObjects", "run", "scenario stop", "scenario stop", "record final", "destroy"]
        eng.check(f"{name}#ensures.global_state_then_objects_then_scenario_start_then_update_then_run_then_wind_down", ks == want, detail=repr(ks))
        if ks != want:
            return
        eng.check(f"{name}#ensures.objects_created_behind_their_dynamic_proxy", ev[1][1] is True and ev[2][1] is True)
        eng.check(f"{name}#ensures.scenario_started_after_all_objects_exist", ev[3][1] == 1 and ev[3][2] is True)
        eng.check(f"{name}#ensures.run_with_the_top_level_scenario_and_the_step_limit", ev[5][1] is True and ev[5][2] == 5)
        # step 10: remaining scenarios are stopped (youngest first, checking their requirements) BEFORE `record final` values are saved
        eng.check(f"{name}#ensures.10_remaining_scenarios_stopped_youngest_first_not_quietly", [e[1] for e in ev[6:8]] == ["sub-scenario still running at the end", "top-level scenario"] and all(e[2] is False for e in ev[6:8]))
        eng.check(f"{name}#ensures.10_record_final_saved_after_the_scenarios_stopped_at_the_final_time", ev[8][1] == "record final" and ev[8][2] == 0 and ev[8][3] == 0)
        res = env.vars["self"].fields.get("result")
        eng.check(f"{name}#ensures.result_packaged_before_the_simulator_is_destroyed", res is not None and ev[9][1] is True)
        eng.check(f"{name}#ensures.final_records_in_the_result", res is not None and isinstance(res.fields["args"][4], object) and bm.get_item(I, env.vars["self"].fields["records"], "r") == 7)

    reg.add(
        C.Contract(
            f"{SIM}:Simulation.__init__",
            params=dict(self=C.Const(None), scene=C.Const(None), maxSteps=C.Const(None), name=C.Const(None), timestep=C.Const(None)),
            setup=setup_init,
            post=post_init,
            inline=["isActive", "Simulation._createObject", "enableDynamicProxyFor", "disableDynamicProxyFor", "Simulation.setup"],
            raises=[C.Raises("Exception", mode="may")],
            bounded=True,
            note="bounded: one object, one sub-scenario still running when the simulation ends; no faults (failure paths are property C14)",
            properties=("C12",),
        ),
        key=f"{SIM}:Simulation.__init__[order]",
    )


_register_main = register


def register(reg):  # noqa: F811
    _register_main(reg)
    register_stop_and_startup(reg)


# ----------------------------------------------------------------------------------------------------
# replay drivers (REAL code; the DummySimulator and small real programs)


def _logging_simulator(log, schedule=None):
    from scenic.core.simulators import DummySimulation, DummySimulator

    class Sim(DummySimulation):
        def executeActions(self, allActions):
            log.append(("executeActions", self.currentTime, len(self.actionSequence), len(self.trajectory), {str(a): tuple(v) for a, v in allActions.items()}))

        def step(self):
            log.append(("simulator_step", self.currentTime))
            super().step()

        def getProperties(self, obj, properties):
            if not log or log[-1][0] != "getProperties" or log[-1][1] != self.currentTime:
                log.append(("getProperties", self.currentTime))
            return super().getProperties(obj, properties)

        def scheduleForAgents(self):
            return schedule(list(self.agents), self.currentTime) if schedule else self.agents

    class Simulator(DummySimulator):
        def createSimulation(self, scene, **kwargs):
            return Sim(scene, **kwargs)

    return Simulator()


RUN_PROGRAM = """
import builtins
log = builtins._pyvc_log
behavior B(name):
    i = 0
    while True:
        log.append(("behavior", name, simulation().currentTime, tuple(self.lastActions)))
        take i
        i += 1
monitor M():
    while True:
        log.append(("monitor", simulation().currentTime))
        wait
scenario Main():
    setup:
        ego = new Object with behavior B("ego"), with name "ego"
        other = new Object at (10, 10), with behavior B("other"), with name "other"
        require monitor M()
        record log.append(("record", simulation().currentTime)) as r
    compose:
        while True:
            log.append(("compose", simulation().currentTime))
            wait
"""


def replay_run_order(inputs, clause):
    """A real program whose compose block, record expression, monitor, behaviors and simulator all log."""
    import builtins

    import scenic

    policies = {
        "creation order": None,
        "reversed": lambda ags, t: list(reversed(ags)),
        "rotating from step to step": lambda ags, t: ags[t % len(ags) :] + ags[: t % len(ags)],
    }
    for policy, fn in policies.items():
        reverse = policy == "reversed"
        log = []
        builtins._pyvc_log = log
        sc = scenic.scenarioFromString(RUN_PROGRAM, scenario="Main")
        scene, _ = sc.generate()
        sim = _logging_simulator(log, fn).simulate(scene, maxSteps=3)
        steps = {}
        for e in log:
            t = e[2] if e[0] == "behavior" else e[1]
            steps.setdefault(t, []).append(e[0] if e[0] != "behavior" else "behavior:" + e[1])
        for t in range(3):
            order = ["ego", "other"] if fn is None else fn(["ego", "other"], t)
            got = [k for k in steps.get(t, []) if k != "getProperties"]
            want = ["compose", "record", "monitor"] + ["behavior:" + n for n in order] + ["executeActions", "simulator_step"]
            if got != want:
                return f"time step {t} (schedule returned by the simulator interface: {policy}) ran {got}, documented order is {want}"
            acts = [e for e in log if e[0] == "executeActions" and e[1] == t]
            if acts and list(acts[0][4]) != order:
                return f"time step {t} (schedule: {policy}): the action dictionary handed to executeActions lists the agents as {list(acts[0][4])}, this step's schedule is {order}"
        last = [k for k in steps.get(3, []) if k != "getProperties"]
        if last != ["compose", "record", "monitor"]:
            return f"the final step (step limit 3 reached) ran {last}; documented: scenarios, recording, monitors, then stop"
        res = sim.result
        if len(res.trajectory) != sim.currentTime + 1 or len(res.actions) != sim.currentTime or sim.currentTime != 3:
            return f"currentTime {sim.currentTime}, {len(res.trajectory)} states, {len(res.actions)} action entries with maxSteps=3"
        if res.terminationType.name != "timeLimit":
            return f"a run stopped by maxSteps=3 reports termination type {res.terminationType.name}"
        for i, e in enumerate(log):
            if e[0] == "executeActions" and not (e[2] == e[1] + 1 and e[3] == e[1] + 1):
                return f"at step {e[1]} executeActions saw {e[2]} action entries and {e[3]} states"
            if e[0] == "behavior" and e[3] != ():
                return f"at step {e[2]} the behavior of {e[1]} found its lastActions = {e[3]} (documented: cleared before the behaviors run)"
            if e[0] == "simulator_step":
                nxt = [x for x in log[i + 1 :] if x[0] == "getProperties"][:1]
                if nxt and nxt[0][1] != e[1] + 1:
                    return f"after the simulator step of time step {e[1]} the dynamic properties were read back with currentTime = {nxt[0][1]} (documented: clock incremented, then update)"
    # the documented stopping points and how they are reported
    for extra, want_type, want_time, what in (
        ("monitor T():\n    wait\n    terminate simulation\nrequire monitor T()\n", "terminatedByMonitor", 1, "a monitor executing `terminate simulation` at step 1"),
        ("behavior S():\n    take 1\n    terminate simulation\nother = new Object at (20, 20), with behavior S\n", "terminatedByBehavior", 1, "a behavior executing `terminate simulation` at step 1"),
        ("terminate simulation when simulation().currentTime >= 2\n", "simulationTerminationCondition", 2, "`terminate simulation when currentTime >= 2`"),
    ):
        src = "behavior B():\n    while True:\n        take 1\nego = new Object with behavior B\n" + extra
        sc = scenic.scenarioFromString(src)
        scene, _ = sc.generate()
        try:
            sim = _logging_simulator([]).simulate(scene, maxSteps=6)
        except AssertionError as e:
            return f"{what}: the simulation fails with an AssertionError in Simulation._run"
        if sim.result.terminationType.name != want_type or sim.currentTime != want_time:
            return f"{what}: the simulation ended at step {sim.currentTime} with termination type {sim.result.terminationType.name}; documented: step {want_time}, {want_type}"
    return None


def replay_scenario_step(inputs, clause):
    """Real programs for the checks of one scenario step: terminate after / terminate when / temporal requirements."""
    import scenic
    from scenic.core.simulators import DummySimulator

    r = replay_terminate_after(inputs, clause)
    if r:
        return r
    base = "behavior B():\n    while True:\n        take 1\nego = new Object with behavior B\n"

    def run(extra, steps=6):
        sc = scenic.scenarioFromString(base + extra)
        scene, _ = sc.generate()
        return DummySimulator(drift=1).simulate(scene, maxSteps=steps, maxIterations=1)  # objects drift: y = time step

    sim = run("terminate when simulation().currentTime >= 2\n")
    if sim is None or sim.currentTime != 2:
        return f"`terminate when currentTime >= 2` ended the simulation at step {getattr(sim, 'currentTime', 'rejected')}; documented: 2"
    sim = run("require eventually ego.position.y >= 2\n", steps=4)
    if sim is None:
        return "`require eventually ego.position.y >= 2` (y = time step) rejected a simulation of 4 steps (the requirement is satisfied at step 2; it may only reject when it can no longer be satisfied)"
    sim = run("require always ego.position.y < 2\n", steps=4)
    if sim is not None:
        return "`require always ego.position.y < 2` (y = time step) did not reject a simulation of 4 steps"
    # the temporal requirements are checked before the time limit: a requirement falsified in the very step in which
    # the time limit stops the scenario still rejects the simulation
    for n in (1, 2, 3):
        sim = run(f"terminate after {n} steps\nrequire always ego.position.y < {n}\n", steps=6)
        if sim is not None:
            return f"`terminate after {n} steps` with `require always ego.position.y < {n}` (y = time step): the requirement is false at step {n}, where the time limit stops the scenario, but the simulation was not rejected (ended at step {sim.currentTime})"
        sim = run(f"terminate after {n} steps\nrequire always ego.position.y < {n + 1}\n", steps=6)
        if sim is None or sim.currentTime != n:
            return f"`terminate after {n} steps` with `require always ego.position.y < {n + 1}` (never violated within the limit): {'rejected' if sim is None else 'ended at step %d' % sim.currentTime}"
    return None


def replay_monitors(inputs, clause):
    """Two monitors: the first executes `terminate`, the second `terminate simulation` in the same step."""
    import scenic
    from scenic.core.simulators import DummySimulator

    src = (
        "behavior B():\n    while True:\n        take 1\n"
        "monitor M1():\n    wait\n    terminate\nmonitor M2():\n    wait\n    terminate simulation\n"
        "ego = new Object with behavior B\nrequire monitor M1()\nrequire monitor M2()\n"
    )
    sc = scenic.scenarioFromString(src)
    scene, _ = sc.generate()
    sim = DummySimulator().simulate(scene, maxSteps=5)
    res = sim.result
    if sim.currentTime != 1 or res.terminationType.name != "terminatedByMonitor" or "terminate simulation" not in str(res.terminationReason):
        return f"monitors executing `terminate` and `terminate simulation` in step 1: ended at step {sim.currentTime}, type {res.terminationType.name}, reason {res.terminationReason!s}; documented: terminate simulation is reported"
    # every monitor runs once per step, those of running sub-scenarios included, even in the step in which another
    # monitor ends the simulation
    import builtins

    builtins._pyvc_monitor_log = []
    src = (
        "import builtins\n"
        "monitor TopM():\n    wait\n    terminate simulation\n"
        "monitor SubM():\n    while True:\n        builtins._pyvc_monitor_log.append(simulation().currentTime)\n        wait\n"
        "behavior B():\n    while True:\n        take 1\n"
        "scenario Sub():\n    setup:\n        require monitor SubM()\n    compose:\n        while True:\n            wait\n"
        "scenario Main():\n    setup:\n        ego = new Object with behavior B\n        require monitor TopM()\n    compose:\n        do Sub()\n"
    )
    try:
        sc = scenic.scenarioFromString(src, mode2D=True)
        scene, _ = sc.generate()
        sim = DummySimulator().simulate(scene, maxSteps=5)
        seen = list(builtins._pyvc_monitor_log)
    finally:
        del builtins._pyvc_monitor_log
    if sim.currentTime != 1 or seen != [0, 1]:
        return f"a monitor of the top-level scenario executes `terminate simulation` in step 1 while a sub-scenario with its own monitor is running: the sub-scenario's monitor ran in steps {seen} (every monitor runs once in every step: [0, 1]); simulation ended at step {sim.currentTime}"
    return None


def replay_simulation_termination_conditions(inputs, clause):
    import scenic
    from scenic.core.simulators import DummySimulator

    src = "behavior B():\n    while True:\n        take 1\nego = new Object with behavior B\nterminate simulation when simulation().currentTime >= 3\nterminate simulation when simulation().currentTime >= 2\n"
    sc = scenic.scenarioFromString(src)
    scene, _ = sc.generate()
    sim = DummySimulator().simulate(scene, maxSteps=6)
    if sim.currentTime != 2 or sim.result.terminationType.name != "simulationTerminationCondition":
        return f"`terminate simulation when` conditions (>= 3, >= 2): ended at step {sim.currentTime} with {sim.result.terminationType.name}; documented: step 2, simulationTerminationCondition"
    return None


def replay_terminate_after(inputs, clause):
    """`terminate after N steps` / seconds: the number of steps actually executed."""
    import math

    import scenic
    from scenic.core.simulators import DummySimulator

    cases = [(3, "steps", None), (1, "steps", None), (0, "steps", None), (1.5, "seconds", 0.5), (2, "seconds", 1)]
    for n, unit, ts in cases:
        src = f"behavior B():\n    while True:\n        take 1\nego = new Object with behavior B\nterminate after {n} {unit}\n"
        sc = scenic.scenarioFromString(src)
        scene, _ = sc.generate()
        sim = DummySimulator().simulate(scene, maxSteps=20, timestep=ts)
        want = math.ceil(n if unit == "steps" else n / ts)
        if sim.currentTime != want or len(sim.result.actions) != want:
            return f"`terminate after {n} {unit}` (timestep {ts or 1}) executed {sim.currentTime} steps ({len(sim.result.actions)} action entries); documented: {want}"
    return None


def replay_do_for(inputs, clause):
    """`do X for N steps` / seconds: the sub-behavior acts in exactly N steps, then the caller continues."""
    import math

    import scenic
    from scenic.core.simulators import DummySimulator

    for n, unit, ts in [(3, "steps", None), (1, "steps", None), (1.5, "seconds", 0.5), (2, "seconds", 1), (2.5, "seconds", 1), (0.5, "seconds", 1), (1, "seconds", 0.4)]:
        src = (
            "behavior Sub():\n    while True:\n        take 1\n"
            f"behavior B():\n    take 7\n    do Sub() for {n} {unit}\n    take 9\n    take 10\n"
            "ego = new Object with behavior B\n"
        )
        sc = scenic.scenarioFromString(src)
        scene, _ = sc.generate()
        sim = DummySimulator().simulate(scene, maxSteps=8, timestep=ts)
        ego = scene.objects[0]
        acts = [a[ego][0] if a[ego] else None for a in sim.result.actions]
        k = math.ceil(n if unit == "steps" else n / ts)
        want = [7] + [1] * k + [9, 10]
        if acts[: len(want)] != want:
            return f"`do Sub() for {n} {unit}` (timestep {ts or 1}): the agent's actions were {acts}, documented: {want} (Sub acts in exactly {k} steps)"
    return None


# ====================================================================================================
# DynamicScenario._invokeInner: stepping of sub-scenarios invoked with `do` from a compose block
#
# Oracle: docs/reference/dynamic_scenarios.rst step 1d ("run [the compose block] for one time step, i.e. resume it until it or a
# subscenario it is currently running using `do` executes `wait`"), step 1e ("the scenario returns to its parent scenario"),
# statements.rst `do` ("Run one or more sub-behaviors or sub-scenarios in parallel.  This statement does not return until all
# invoked sub-behaviors/scenarios have completed") and `terminate simulation` ("Immediately end the entire simulation").
# In trace terms, with time counted in waits of the `do` statement since it was invoked:
#   * every listed sub-scenario is prepared once, then started once, and all are started before any of them is stepped;
#   * a sub-scenario takes its first step in the time step of the invocation (time 0), and exactly one step in every later
#     time step while it runs, in the order listed;
#   * a sub-scenario that has ended (by itself, or stopped by somebody else while the actions were executed) is never stepped again;
#   * the statement waits exactly once per time step while some sub-scenario runs and returns, WITHOUT waiting, in the time
#     step in which the last one ends -- so the caller resumes in that same step, the one after the last wait;
#   * `terminate simulation` inside a sub-scenario is handed to the caller at once;
#   * the scenario lists as its running sub-scenarios exactly those still running (this is what makes their monitors,
#     records and requirements be handled while -- and only while -- they run).

II_MAX_STEPS = 3  # a scripted sub-scenario ends in its 3rd step at the latest


def invoke_inner_rules(ev, n):
    """ev: ("prepare",k) ("start",k) ("step",k,outcome) ("wait",value,listed) ("stopped externally",k) ("return",listed) ("typeerror",)
    -> {rule: None | first violation}"""
    out = dict.fromkeys(
        [
            "every_sub_scenario_prepared_then_started_exactly_once_and_all_started_before_any_step",
            "first_step_in_the_time_step_of_the_invocation_then_one_step_per_time_step_in_the_listed_order",
            "an_ended_or_stopped_sub_scenario_is_never_stepped_again",
            "waits_once_per_time_step_while_a_sub_scenario_runs_and_returns_without_waiting_when_the_last_one_ends",
            "terminate_simulation_of_a_sub_scenario_is_handed_to_the_caller_at_once",
            "running_sub_scenarios_listed_exactly_while_they_run",
        ]
    )

    def fail(rule, text):
        if out[rule] is None:
            out[rule] = text

    i = 0
    # ---- start-up
    head = []
    while i < len(ev) and ev[i][0] in ("prepare", "start"):
        head.append(ev[i][:2])
        i += 1
    for k in range(n):
        ps = [j for j, e in enumerate(head) if e == ("prepare", k)]
        ss = [j for j, e in enumerate(head) if e == ("start", k)]
        if len(ps) != 1 or len(ss) != 1 or ps[0] > ss[0]:
            fail("every_sub_scenario_prepared_then_started_exactly_once_and_all_started_before_any_step", f"sub-scenario {k}: start-up events {head}")
    if any(e[0] in ("prepare", "start") for e in ev[i:]):
        fail("every_sub_scenario_prepared_then_started_exactly_once_and_all_started_before_any_step", f"a sub-scenario is prepared/started after stepping began: {[e[:2] for e in ev]}")
    alive = list(range(n))
    t = 0
    while i < len(ev):
        seg = []
        while i < len(ev) and ev[i][0] == "step":
            seg.append(ev[i])
            i += 1
        ended_sim = None
        stepped = [e[1] for e in seg]
        for e in seg:
            if e[1] not in alive:
                fail("an_ended_or_stopped_sub_scenario_is_never_stepped_again", f"sub-scenario {e[1]} stepped at time {t} after it had ended")
        expect = list(alive)
        for j, e in enumerate(seg):
            if e[2] == "terminate simulation":
                ended_sim = e[1]
                expect = expect[: expect.index(e[1]) + 1] if e[1] in expect else expect
                if j != len(seg) - 1:
                    fail("terminate_simulation_of_a_sub_scenario_is_handed_to_the_caller_at_once", f"at time {t} sub-scenarios {stepped[j + 1:]} were still stepped after sub-scenario {e[1]} executed `terminate simulation`")
                break
        if stepped != expect:
            fail("first_step_in_the_time_step_of_the_invocation_then_one_step_per_time_step_in_the_listed_order", f"at time {t} (waits since the invocation) the sub-scenarios stepped were {stepped}; running: {expect}")
        for e in seg:
            if e[2] != "continues" and e[1] in alive:
                alive.remove(e[1])
        nxt = ev[i] if i < len(ev) else None
        if ended_sim is not None:
            if nxt is None or nxt[0] != "wait" or nxt[1] != "terminate simulation":
                fail("terminate_simulation_of_a_sub_scenario_is_handed_to_the_caller_at_once", f"after `terminate simulation` in sub-scenario {ended_sim}: next event {nxt}")
            break
        if nxt is None:
            break
        if not alive:
            if nxt[0] != "return":
                fail("waits_once_per_time_step_while_a_sub_scenario_runs_and_returns_without_waiting_when_the_last_one_ends", f"at time {t} the last sub-scenario ended but the statement did {nxt[:2]} instead of returning in the same time step")
                break
            if list(nxt[1]) != []:
                fail("running_sub_scenarios_listed_exactly_while_they_run", f"after the statement returned the scenario still lists {list(nxt[1])} as running sub-scenarios")
            i += 1
            if i < len(ev):
                fail("waits_once_per_time_step_while_a_sub_scenario_runs_and_returns_without_waiting_when_the_last_one_ends", f"events after the return: {ev[i:]}")
            break
        if nxt[0] != "wait" or nxt[1] is not None:
            fail("waits_once_per_time_step_while_a_sub_scenario_runs_and_returns_without_waiting_when_the_last_one_ends", f"at time {t} sub-scenarios {alive} are still running but the statement did {nxt[:2]} instead of waiting one step")
            break
        if list(nxt[2]) != alive:
            fail("running_sub_scenarios_listed_exactly_while_they_run", f"while waiting at time {t} the scenario lists {list(nxt[2])} as its running sub-scenarios; running: {alive}")
        i += 1
        t += 1
        while i < len(ev) and ev[i][0] == "stopped externally":
            if ev[i][1] in alive:
                alive.remove(ev[i][1])
            i += 1
    return out


def register_invoke_inner_scenarios(reg):
    tgt = f"{DS}:DynamicScenario._invokeInner"
    name = "scenarios.DynamicScenario._invokeInner"

    def setup(I, env):
        eng = I.eng
        log = eng.events
        n = 1 + MD.pick(I, 2, "number of sub-scenarios invoked in parallel (1-2)")
        bad = MD.pick(I, 2, "all listed items are scenarios / the last one is not") == 1
        self = PObj(repo_class(f"{DS}:DynamicScenario"), tag="invoking scenario")
        self.fields.update(_subScenarios=PList(), _isRunning=True)
        subs = []
        for k in range(n):
            sub = PObj(repo_class(f"{DS}:DynamicScenario"), tag=f"sub-scenario {k}")
            sub.k = k
            sub.steps = 0
            sub.fields.update(_isRunning=False)

            def prepare(delayPreconditionCheck=False, sub=sub):
                log.append(("prepare", sub.k))

            def start(sub=sub):
                log.append(("start", sub.k))
                sub.fields["_isRunning"] = True

            def step(sub=sub):
                j = sub.steps
                sub.steps += 1
                if j + 1 >= II_MAX_STEPS:
                    what = 1 + MD.pick(I, 2, f"sub-scenario {sub.k}, step {j} (bound): finishes / terminate simulation")
                else:
                    what = MD.pick(I, 3, f"sub-scenario {sub.k}, step {j}: continues / finishes / terminate simulation")
                log.append(("step", sub.k, ["continues", "finishes", "terminate simulation"][what]))
                if what == 0:
                    return None
                sub.fields["_isRunning"] = False
                if what == 1:
                    return "finished compose block"
                a = PObj(repo_class(f"{ACT}:_EndSimulationAction"), tag="terminate simulation")
                a.fields["line"] = 1
                return a

            sub.fields.update(_prepare=BuiltinFn("_prepare", prepare), _start=BuiltinFn("_start", start), _step=BuiltinFn("_step", step))
            subs.append(sub)
        items = list(subs)
        if bad:
            items.append(PObj("Behavior", tag="a behavior, not a scenario"))
        env.vars.update(self=self, agent=None, subs=tuple(items), _subs=subs, _bad=bad, _n=n)

    def post(I, env, outcome):
        eng = I.eng
        if outcome[0] != "return":
            eng.check(f"{name}#ensures.generator_created", False)
            return
        gen = outcome[1]
        log = eng.events
        self, subs, bad, n = env.vars["self"], env.vars["_subs"], env.vars["_bad"], env.vars["_n"]
        stops = {"done": False}

        def listed():
            return [getattr(x, "k", "?") for x in self.fields["_subScenarios"].items]

        def on_yield(I_, v):
            if isinstance(v, PObj) and getattr(v, "tag", "") == "terminate simulation":
                log.append(("wait", "terminate simulation", listed()))
                # the simulation ends: the suspended generator is never resumed but closed
                raise SymRaise(PExc(GeneratorExit, ("generator closed: simulation ended",)))
            log.append(("wait", v, listed()))
            if not stops["done"] and subs[0].fields["_isRunning"]:
                stops["done"] = True
                if MD.pick(I, 2, "sub-scenario 0 stopped by a `terminate` of one of its agents while the actions of this step are executed?") == 1:
                    subs[0].fields["_isRunning"] = False
                    log.append(("stopped externally", 0))
            return None

        prev = I.registry.yield_hook
        I.registry.yield_hook = on_yield
        ended = ("return", None)
        try:
            I.iterate(gen)
        except SymRaise as sr:
            ended = ("raise", sr.exc)
        finally:
            I.registry.yield_hook = prev
        en = getattr(ended[1].cls, "name", getattr(ended[1].cls, "__name__", "?")) if ended[0] == "raise" else None
        eng.input_syms.append(("script", C.Const(None), repr([(nn[1], nn[2]) for nn in eng.path_notes if isinstance(nn, tuple) and len(nn) == 3 and nn[0] == "choice"])))
        if bad:
            # `do` with something that is not a scenario: an error, and no sub-scenario has been stepped
            eng.check(f"{name}#raises.TypeError_for_an_item_that_is_not_a_scenario_before_anything_is_stepped", en == "TypeError" and not any(e[0] in ("step", "wait") for e in log))
            return
        if ended[0] == "return":
            log.append(("return", listed()))
        else:
            eng.check(f"{name}#raises.nothing_of_its_own", en == "GeneratorExit", detail=repr(ended[1]))
        rules = invoke_inner_rules(list(log), n)
        for rule, why in rules.items():
            eng.check(f"{name}#ensures.{rule}", why is None, detail=f"{why}; trace: {[e[:3] for e in log]}")

    reg.add(
        C.Contract(
            tgt,
            params=dict(self=C.Const(None), agent=C.Const(None), subs=C.Const(None)),
            setup=setup,
            post=post,
            replay=replay_invoke_inner_scenarios,
            bounded=True,
            note=f"bounded: 1-2 sub-scenarios invoked in parallel, each ends in its {II_MAX_STEPS}rd step at the latest (every script of continues / finishes / terminate simulation); "
            "sub-scenario 0 may be stopped from outside during the first wait; generator close() modelled at the suspension point",
            properties=("C12",),
        )
    )


_register_before_invoke_inner = register


def register(reg):  # noqa: F811
    _register_before_invoke_inner(reg)
    register_invoke_inner_scenarios(reg)


INVOKE_INNER_PROGRAM = """
import builtins
log = builtins._pyvc_log
def T():
    import scenic.syntax.veneer as v
    return v.currentSimulation.currentTime
behavior Stopper():
    wait
    terminate
scenario Sub(name, n):
    compose:
        for i in range(n):
            log.append((name, T()))
            wait
        log.append((name + "-end", T()))
scenario Stopped():
    setup:
        other = new Object at (10, 10), with behavior Stopper
    compose:
        while True:
            log.append(("stopped", T()))
            wait
scenario Ender():
    compose:
        log.append(("ender", T()))
        wait
        log.append(("ender", T()))
        terminate simulation
scenario Main():
    setup:
        ego = new Object
    compose:
        log.append(("main", T()))
        wait
        do Sub("a", 2), Sub("b", 1)
        log.append(("back", T()))
        wait
        do Sub("c", 0)
        log.append(("back2", T()))
        wait
        do Stopped()
        log.append(("back3", T()))
        wait
        do Ender(), Sub("d", 5)
        log.append(("never", T()))
"""


def replay_invoke_inner_scenarios(inputs, clause):
    """Real nested scenarios: when each sub-scenario takes its steps and when the invoking compose block resumes."""
    import builtins

    import scenic
    from scenic.core.simulators import DummySimulator

    log = []
    builtins._pyvc_log = log
    try:
        sc = scenic.scenarioFromString(INVOKE_INNER_PROGRAM, scenario="Main", mode2D=True)
        scene, _ = sc.generate(maxIterations=5)
        del log[:]
        try:
            sim = DummySimulator().simulate(scene, maxSteps=20, maxIterations=1)
        except Exception as e:
            return f"nested scenarios invoked with `do`: {type(e).__name__}: {e}"
    finally:
        del builtins._pyvc_log
    if sim is None:
        return "nested scenarios invoked with `do`: the simulation was rejected"
    want = [
        ("main", 0),
        # do Sub("a", 2), Sub("b", 1) invoked in step 1: both take their first step in step 1, in the listed order
        ("a", 1), ("b", 1),
        ("a", 2), ("b-end", 2),
        ("a-end", 3), ("back", 3),  # the caller resumes in the step in which the last sub-scenario ends (no extra wait)
        ("c-end", 4), ("back2", 4),  # a sub-scenario that ends at once costs no time step
        ("stopped", 5), ("stopped", 6),  # its agent executes `terminate` during step 6: not stepped in step 7, caller resumes
        ("back3", 7),
        ("ender", 8), ("d", 8),
        ("ender", 9),  # `terminate simulation`: the simulation ends at once, Sub("d") is not stepped in step 9
    ]
    if log != want:
        k = next((i for i, (a, b) in enumerate(zip(log, want)) if a != b), min(len(log), len(want)))
        return f"nested scenarios invoked with `do`: event {k} is {log[k] if k < len(log) else 'missing'}, documented {want[k] if k < len(want) else 'nothing more'} (name, time step); full trace {log}"
    if sim.currentTime != 9 or sim.result.terminationType.name != "scenarioComplete" and "terminat" not in str(sim.result.terminationReason):
        return f"`terminate simulation` in a sub-scenario at step 9: simulation ended at step {sim.currentTime} ({sim.result.terminationType.name}: {sim.result.terminationReason})"
    return None
