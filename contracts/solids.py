"""Sidecar contracts for the overlap tests of scenic.core.object_types / regions (C04), relative to an axiomatised
geometry kernel.

The multi-pass procedures are verified *relative to kernel axioms written once* (K1..K8 below, all listed as trusted):
an abstract truth value `overlap(self, other)` is constrained by the facts each pass relies on, and every `return` of
the procedure must agree with it.  Planar boxes are treated exactly: a planar box is the prism over its bounding
polygon between z - h/2 and z + h/2, so `overlap` is the existence of a common point."""
import z3

from pyvc import contracts as C
from pyvc import models_shapely as MS
from pyvc.interp import BuiltinFn
from pyvc.values import PList, PObj, SV, arith, compare, sv_and, sv_implies, sv_ite, sv_not, sv_or, tobool, toz3

from .common import make_vector, repo_class
from .regions import RC, RG, dist3sq, iff, init_samplable, install_stubs, mem3, mk_polygonal, probe, sq

OT = "scenic.core.object_types"
_R = z3.RealSort()

KERNEL = [
    ("K-prism", "a planar box object (BoxShape, pitch = roll = 0) occupies exactly the prism over its _boundingPolygon between position.z - height/2 and position.z + height/2"),
    ("K1-circumball", "a MeshVolumeRegion lies within the ball of radius _circumradius about its position: centre distance > R1 + R2 implies no overlap"),
    ("K2-interior-balls", "for precomputed shapes the ball of radius inradius about _interiorPoint lies within the region and the ball of radius circumradius about it contains the region"),
    ("K3-aabb", "overlapping solids have overlapping axis-aligned bounding boxes (mesh.bounds) in every axis"),
    ("K4-fcl-surface", "fcl.collide reports a surface collision only if the solids overlap"),
    ("K5-fcl-convex", "for two convex solids fcl.collide also detects containment: no collision implies no overlap"),
    ("K6-single-body", "without surface collision, two single-body solids overlap exactly when one contains the other's interior point"),
    ("K8-containment", "containment kernel: (a) an object inside a region has an AABB overlapping the region's; (b) a convex region contains an object iff all the object's mesh vertices have positive signed distance, and it does if all corners of the object's bounding box have; (c) for a point q of the object: q outside the region => not contained; distance from q to the region's surface > max vertex distance of the object from q (and q inside) => contained; (d) for a point c of the region: some object vertex farther from c than every region vertex => not contained; (e) object minus region is `nowhere` exactly when the object is contained"),
    ("K7-boolean", "the exhaustive pass is the definition: self.intersect(other) is `nowhere` exactly when the solids do not overlap; occupiedSpace.intersects is exact"),
]


def register(reg):
    install_stubs(reg)
    for n, t in KERNEL:
        reg.trust(n, t)
    register_object_intersects(reg)
    register_volume_intersects(reg)
    register_contains_object(reg)
    register_circumradius(reg)
    register_shape_circumradius(reg)
    register_minimum_distance(reg)
    register_bounding_polygon(reg)
    register_footprint_contains_object(reg)
    register_circumradius_shape_arms(reg)


def hypot_of(eng, name, sqsum):
    d = eng.fresh_real(name)
    eng.assume(sv_and(compare(">=", d, 0), compare("==", sq(d), sqsum)))
    return d


# ===================================================================================================
# Object.intersects: planar-box fast paths


def register_object_intersects(reg):
    OBJ = lambda: repo_class(f"{OT}:Object")
    KINDS = ["planar box", "other object", "PolygonalRegion", "other region", "not a region"]

    def mk_object(I, tag, planar, log):
        eng = I.eng
        o = PObj(OBJ(), tag=tag)
        init_samplable(o)
        pos = tuple(eng.fresh_real(f"{tag}.position.{c}") for c in "xyz")
        h = eng.fresh_real(f"{tag}.height")
        eng.assume(compare(">", h, 0))
        eng.input_syms.append((f"{tag}.position", C.TupleOf(C.Real(), C.Real(), C.Real()), pos))
        eng.input_syms.append((f"{tag}.height", C.Real(), h))
        poly = MS.make_geom(I, "Polygon", empty=False, tag=f"{tag}._boundingPolygon")
        space = PObj(RC("MeshVolumeRegion"), tag=f"{tag}.occupiedSpace")
        init_samplable(space)

        def exhaustive(other_space, *a, **k):
            r = eng.fresh_bool(f"{tag}.occupiedSpace.intersects")
            log.append((space, other_space, r))
            return r

        space.fields["intersects"] = BuiltinFn("intersects", exhaustive)
        o.fields.update(_isPlanarBox=planar, position=make_vector(*pos), height=h, _boundingPolygon=poly, occupiedSpace=space)
        if planar:
            half = arith("/", h, 2)
            o.fields["_mem3"] = lambda p: sv_and(MS.gmem(poly, p[0], p[1]), compare("<=", arith("-", pos[2], half), p[2]), compare("<=", p[2], arith("+", pos[2], half)))  # K-prism
        return o

    def setup(I, env):
        eng = I.eng
        log = []
        planar = eng.choose(2, "self is a planar box?") == 1
        A = mk_object(I, "self", planar, log)
        kind = KINDS[eng.choose(len(KINDS), "class of other")]
        eng.input_syms.append(("kind", C.Const(None), f"self {'planar box' if planar else 'general'} / other {kind}"))
        if kind == "planar box":
            B = mk_object(I, "other", True, log)
        elif kind == "other object":
            B = mk_object(I, "other", False, log)
        elif kind == "PolygonalRegion":
            B = mk_polygonal(I, "other")
        elif kind == "other region":
            B = PObj(RC("MeshVolumeRegion"), tag="other")
            init_samplable(B)
        else:
            B = 5
        env.vars.update(self=A, other=B, _log=log, _kind=kind, _planar=planar, _p=probe(I))

    def post(I, env, outcome):
        eng = I.eng
        oname = "object_types.Object.intersects"
        A, B, log, kind, planar, p = env.vars["self"], env.vars["other"], env.vars["_log"], env.vars["_kind"], env.vars["_planar"], env.vars["_p"]
        if outcome[0] == "raise":
            eng.check(f"{oname}#raises.TypeError.only_for_non_regions", kind == "not a region")
            return
        eng.check(f"{oname}#raises.TypeError.must_for_non_regions", kind != "not a region")
        res = outcome[1]
        za, ha = A.fields["position"].fields["coordinates"][2], A.fields["height"]
        exact = planar and kind in ("planar box", "PolygonalRegion")
        if exact and not log:
            # fast path taken: the answer must be `the two point sets share a point`
            ga = A.fields["_boundingPolygon"]
            gb = B.fields["_boundingPolygon"] if kind == "planar box" else B.fields["_polygons"]
            eng.check(f"{oname}#fastpath.no_common_point_when_false[{kind}]", sv_implies(sv_and(mem3(I, A, p), mem3(I, B, p)), res))
            wit = [w for (g, r, w) in ga.fields.get("_intersects_log", []) if g is gb]
            if wit:
                if kind == "planar box":
                    zb, hb = B.fields["position"].fields["coordinates"][2], B.fields["height"]
                    la, lb = arith("-", za, arith("/", ha, 2)), arith("-", zb, arith("/", hb, 2))
                    zw = sv_ite(compare(">=", la, lb), la, lb)
                else:
                    zw = B.fields["z"]
                w3 = (wit[0][0], wit[0][1], zw)
                eng.check(f"{oname}#fastpath.common_point_when_true[{kind}]", sv_implies(res, sv_and(mem3(I, A, w3), mem3(I, B, w3))))
            else:
                eng.check(f"{oname}#fastpath.common_point_when_true[{kind}]", sv_not(res))
            return
        # default case: the exhaustive test on the occupied spaces (K7), exactly once, with the right operands
        want_other = B.fields["occupiedSpace"] if kind in ("planar box", "other object") else B
        ok = len(log) == 1 and log[0][0] is A.fields["occupiedSpace"] and log[0][1] is want_other
        eng.check(f"{oname}#default.exhaustive_test_on_the_occupied_spaces", ok)
        if ok:
            eng.check(f"{oname}#default.returns_the_exhaustive_answer", iff(res, log[0][2]))
        if exact and kind == "PolygonalRegion":
            # the fast path may be skipped only when the polygon's plane misses the box
            eng.check(f"{oname}#default.fast_path_skipped_only_when_the_plane_misses_the_box", compare(">", sq(arith("-", za, B.fields["z"])), sq(arith("/", ha, 2))))
        if exact and kind == "planar box":
            eng.check(f"{oname}#default.planar_boxes_always_take_the_fast_path", False)

    def replay(inputs, clause):
        return None

    reg.add(
        C.Contract(
            f"{OT}:Object.intersects",
            params=dict(self=C.Const(None), other=C.Const(None)),
            setup=setup,
            post=post,
            raises=[C.Raises("TypeError", mode="may")],
            inline_all=True,
            properties=("C04",),
        )
    )


# ===================================================================================================
# MeshVolumeRegion.intersects(MeshVolumeRegion): the five passes


def register_volume_intersects(reg):
    def mk_volume(I, tag, K):
        eng = I.eng
        r = PObj(RC("MeshVolumeRegion"), tag=tag)
        init_samplable(r)
        pos = tuple(eng.fresh_real(f"{tag}.position.{c}") for c in "xyz")
        R = eng.fresh_real(f"{tag}._circumradius")
        eng.assume(compare(">=", R, 0))
        mesh = MS.make_mesh(I, f"{tag}.mesh")
        ip = tuple(eng.fresh_real(f"{tag}._interiorPoint.{c}") for c in "xyz")
        inr, cir = eng.fresh_real(f"{tag}.inradius"), eng.fresh_real(f"{tag}.circumradius")
        eng.assume(sv_and(compare(">=", inr, 0), compare(">=", cir, inr)))
        convex = eng.fresh_bool(f"{tag}.isConvex")
        bodies = eng.fresh_int(f"{tag}._bodyCount")
        eng.assume(compare(">=", bodies, 1))
        contains_other = eng.fresh_bool(f"{tag}.contains_interior_point_of_the_other")
        mesh.fields["contains"] = BuiltinFn("contains", lambda pts: (K["log"].append(("contains", tag)), PList([contains_other]))[1])
        fcl_geom = PObj("FclGeom", tag=f"{tag}.fclgeom")
        fcl_geom.fields["_collide"] = lambda a, b: (K["log"].append(("fcl",)), K["sc"])[1]
        r.fields.update(position=make_vector(*pos), _circumradius=R, mesh=mesh, _interiorPoint=MS.NDArr((3,), list(ip)), _interiorPointRadii=(inr, cir), isConvex=convex, _bodyCount=bodies, _fclData=(fcl_geom, None), orientation=None, name=None)
        r.vals = dict(pos=pos, R=R, ip=ip, inr=inr, cir=cir, convex=convex, bodies=bodies, contains_other=contains_other, lo=mesh.fields["_lo"], hi=mesh.fields["_hi"])
        return r

    def kernel_facts(I, a, b, K, both_scaled):
        """K1-K7 for the ordered pair (a, b); `overlap`, the FCL answer and the boolean-intersection answer belong to the unordered pair."""
        ov, sc = K["overlap"], K["sc"]
        # the very terms the procedure computes (numpy norm is a function of its argument: models_shapely._norm_of)
        dc = MS.norm_of_difference(I, a["pos"], b["pos"])
        di = MS.norm_of_difference(I, a["ip"], b["ip"])
        facts = [sv_implies(compare(">", dc, arith("+", a["R"], b["R"])), sv_not(ov))]  # K1
        if both_scaled:  # K2
            facts.append(sv_implies(compare("<", di, arith("+", a["inr"], b["inr"])), ov))
            facts.append(sv_implies(compare(">", di, arith("+", a["cir"], b["cir"])), sv_not(ov)))
        facts.append(sv_implies(ov, sv_and(*[sv_and(compare("<=", a["lo"][k], b["hi"][k]), compare("<=", b["lo"][k], a["hi"][k])) for k in range(3)])))  # K3
        facts.append(sv_implies(sc, ov))  # K4
        facts.append(sv_implies(sv_and(a["convex"], b["convex"], sv_not(sc)), sv_not(ov)))  # K5
        facts.append(sv_implies(sv_and(sv_not(sc), compare("==", a["bodies"], 1), compare("==", b["bodies"], 1)), iff(ov, sv_or(a["contains_other"], b["contains_other"]))))  # K6
        facts.append(iff(K["empty"], sv_not(ov)))  # K7
        return facts

    def setup(I, env):
        eng = I.eng
        MS.world(I).abstract_norms = True  # distances are only compared, never opened up
        K = dict(log=[], sc=eng.fresh_bool("fcl_surface_collision"), overlap=eng.fresh_bool("overlap"), empty=eng.fresh_bool("boolean_intersection_is_empty"))
        A, B = mk_volume(I, "self", K), mk_volume(I, "other", K)
        scaled = eng.choose(3, "precomputed shapes: both / only self / none")
        A.fields["_scaledShape"] = PObj("Shape", tag="shapeA") if scaled in (0, 1) else None
        B.fields["_scaledShape"] = PObj("Shape", tag="shapeB") if scaled == 0 else None

        def boolean_intersect(other, *a, **k):
            K["log"].append(("intersect",))
            if eng.branch(tobool(K["empty"])):
                e = PObj(RC("EmptyRegion"), tag="nowhere")
                init_samplable(e)
                return e
            t = PObj(RC("MeshVolumeRegion"), tag="intersection")
            init_samplable(t)
            return t

        A.fields["intersect"] = BuiltinFn("intersect", boolean_intersect)
        B.fields["intersect"] = BuiltinFn("intersect", boolean_intersect)
        for fact in kernel_facts(I, A.vals, B.vals, K, scaled == 0):
            eng.assume(fact)
        env.vars.update(self=A, other=B, triedReversed=False, _K=K, _scaled=scaled)

    def post(I, env, outcome):
        eng = I.eng
        oname = "regions.MeshVolumeRegion.intersects[volume]"
        if outcome[0] != "return":
            return
        K = env.vars["_K"]
        log = [e[0] for e in K["log"]]
        if "intersect" in log:
            stage = "pass5_boolean_intersection"
        elif "contains" in log:
            stage = "pass4_single_body_interior_points"
        elif "fcl" in log:
            stage = "pass3_fcl_surface_collision"
        else:
            stage = "pass1_2_bounding_balls_and_boxes"
        eng.check(f"{oname}#{stage}.result_agrees_with_overlap", iff(I.truth(outcome[1]), K["overlap"]))
        # order independence: every order's answer equals overlap (obligation above, for ALL pairs), and the kernel facts about
        # overlap are the same facts for the swapped pair -- so A.intersects(B) == B.intersects(A).  (Running the procedure a
        # second time symbolically with swapped operands triples the cost of this contract; the replay driver does it on real solids.)
        eng.check(f"{oname}#symmetry.kernel_facts_hold_for_the_swapped_pair", sv_and(*kernel_facts(I, env.vars["other"].vals, env.vars["self"].vals, K, env.vars["_scaled"] == 0)))

    def replay(inputs, clause):
        """Real regions: a small box nested in a non-convex (notched) cube, a box floating in the notch, crossing boxes;
        both orders against the emptiness of the exact intersection."""
        import warnings

        warnings.filterwarnings("ignore")
        from scenic.core.regions import BoxRegion, EmptyRegion, MeshVolumeRegion

        h = 3.0
        outer = BoxRegion(dimensions=(6, 6, 6)).difference(BoxRegion(dimensions=(3, 3, 3), position=(h, h, h)))
        if not isinstance(outer, MeshVolumeRegion):
            return None
        cases = [
            ("1-box nested in the notched cube at (-1.5,-1.5,-1.5)", BoxRegion(dimensions=(1, 1, 1), position=(-1.5, -1.5, -1.5)), outer),
            ("0.5-box floating in the notch at (2.5,2.5,2.5)", BoxRegion(dimensions=(0.5, 0.5, 0.5), position=(2.5, 2.5, 2.5)), outer),
            ("2-box crossing a face of the notched cube", BoxRegion(dimensions=(2, 2, 2), position=(-3, 0, 0)), outer),
            ("two far apart boxes", BoxRegion(dimensions=(1, 1, 1), position=(10, 0, 0)), BoxRegion(dimensions=(1, 1, 1))),
        ]
        for name, a, b in cases:
            truth = not isinstance(a.intersect(b), EmptyRegion)
            for x, y, order in ((a, b, "A.intersects(B)"), (b, a, "B.intersects(A)")):
                got = bool(x.intersects(y))
                if got != truth:
                    return f"A = {name}, B = the other solid: {order} = {got} but the exact intersection is {'non-empty' if truth else 'empty'}"
        return None

    contract = C.Contract(
        f"{RG}:MeshVolumeRegion.intersects",
        params=dict(self=C.Const(None), other=C.Const(None), triedReversed=C.Const(False)),
        setup=setup,
        post=post,
        inline_all=True,
        replay=replay,
        note="volume/volume arm; relative to the kernel axioms K1-K7",
        properties=("C04",),
    )
    reg.add(contract, key=f"{RG}:MeshVolumeRegion.intersects[volume]")


# ===================================================================================================
# MeshVolumeRegion.containsObject: the five passes


def register_contains_object(reg):
    NV = 2  # vertices per mesh in the model (symbolic coordinates)

    def verts(eng, tag):
        return [[eng.fresh_real(f"{tag}.v{i}.{c}") for c in "xyz"] for i in range(NV)]

    def maxdist(I, vs, q):
        """max_i |v_i - q|: the very term numpy.max(numpy.linalg.norm(vertices - q, axis=1)) evaluates to in the model"""
        from pyvc import builtins_model as BM

        ds = [MS.norm_of_difference(I, v, q) for v in vs]
        return BM.mmax(I, *ds) if len(ds) > 1 else ds[0]

    def setup(I, env):
        eng = I.eng
        MS.world(I).abstract_norms = True  # distances are only compared, never opened up
        K = dict(log=[], inside=eng.fresh_bool("object_inside_region"))
        ins = K["inside"]
        S = PObj(RC("MeshVolumeRegion"), tag="self")
        init_samplable(S)
        smesh = MS.make_mesh(I, "self.mesh")
        sv = verts(eng, "self.mesh")
        smesh.fields["vertices"] = MS.NDArr((NV, 3), sv)
        convex = eng.fresh_bool("self.isConvex")
        # the object
        obj = PObj("Object", tag="obj")
        omesh = MS.make_mesh(I, "obj.mesh")
        ov = verts(eng, "obj.mesh")
        omesh.fields["vertices"] = MS.NDArr((NV, 3), ov)
        bbmesh = MS.make_mesh(I, "obj.bbox.mesh")
        bv = verts(eng, "obj.bbox")
        bbmesh.fields["vertices"] = MS.NDArr((NV, 3), bv)
        space = PObj(RC("MeshVolumeRegion"), tag="obj.occupiedSpace")
        init_samplable(space)
        diff_empty = eng.fresh_bool("object_minus_region_is_empty")

        def difference(other):
            K["log"].append("difference")
            if eng.branch(tobool(diff_empty)):
                e = PObj(RC("EmptyRegion"), tag="nowhere")
                init_samplable(e)
                return e
            t = PObj(RC("MeshVolumeRegion"), tag="difference")
            init_samplable(t)
            return t

        space.fields.update(mesh=omesh, num_samples=eng.fresh_int("obj.num_samples"), difference=BuiltinFn("difference", difference))
        bbox = PObj(RC("MeshVolumeRegion"), tag="obj.boundingBox")
        bbox.fields["mesh"] = bbmesh
        opos = tuple(eng.fresh_real(f"obj.position.{c}") for c in "xyz")
        pos_in_obj = eng.fresh_bool("obj_contains_its_position")
        obj.fields.update(occupiedSpace=space, boundingBox=bbox, position=make_vector(*opos), containsPoint=BuiltinFn("containsPoint", lambda p: pos_in_obj))
        # signed distances to the region's surface (positive inside), one unknown per queried point
        sd = {}

        def signed_distance(pts):
            K["log"].append("signed_distance")
            out = []
            for p in I.iterate(pts):
                c = tuple(p.fields["coordinates"]) if isinstance(p, PObj) else tuple(I.iterate(p))
                key = tuple(toz3(x, want_real=True).get_id() for x in c)
                if key not in sd:
                    sd[key] = (c, eng.fresh_real(f"signed_distance{len(sd)}"))
                out.append(sd[key][1])
            return MS.NDArr((len(out),), out)

        smesh.fields["_signed_distance"] = signed_distance
        K["sd"] = lambda c: signed_distance([c]).data[0]
        # samples
        osample = tuple(eng.fresh_real(f"obj.sample.{c}") for c in "xyz")
        ssample = tuple(eng.fresh_real(f"self.sample.{c}") for c in "xyz")

        def sampler(pt, tag):
            def f(count):
                K["log"].append("sample " + tag)
                if eng.choose(2, f"{tag} sampling succeeds?") == 1:
                    return MS.NDArr((1, 3), [list(pt)])
                return MS.NDArr((0, 3), [])

            return f

        omesh.fields["_volume_sample"] = sampler(osample, "obj")
        smesh.fields["_volume_sample"] = sampler(ssample, "self")
        contains_pt = {}

        def region_contains(p):
            c = tuple(p.fields["coordinates"])
            key = tuple(toz3(x, want_real=True).get_id() for x in c)
            if key not in contains_pt:
                contains_pt[key] = (c, eng.fresh_bool(f"region_contains_point{len(contains_pt)}"))
            return contains_pt[key][1]

        S.fields.update(mesh=smesh, isConvex=convex, num_samples=eng.fresh_int("self.num_samples"), containsPoint=BuiltinFn("containsPoint", region_contains), orientation=None, name=None)

        # ---------------- kernel axioms K8
        a_lo, a_hi, b_lo, b_hi = smesh.fields["_lo"], smesh.fields["_hi"], omesh.fields["_lo"], omesh.fields["_hi"]
        eng.assume(sv_implies(ins, sv_and(*[sv_and(compare("<=", a_lo[k], b_hi[k]), compare("<=", b_lo[k], a_hi[k])) for k in range(3)])))  # (a)
        sd_of = K["sd"]
        all_obj = sv_and(*[compare(">", sd_of(tuple(v)), 0) for v in ov])
        all_bb = sv_and(*[compare(">", sd_of(tuple(v)), 0) for v in bv])
        eng.assume(sv_implies(convex, sv_and(iff(ins, all_obj), sv_implies(all_bb, ins))))  # (b)
        for q, is_obj_point in ((opos, pos_in_obj), (osample, True)):  # (c)
            qv = make_vector(*q)
            cq = region_contains(qv)
            rad = maxdist(I, ov, q)
            dq = sd_of(tuple(q))
            absd = sv_ite(compare(">=", dq, 0), dq, arith("-", 0, dq))
            eng.assume(sv_implies(is_obj_point, sv_and(sv_implies(sv_not(cq), sv_not(ins)), sv_implies(sv_and(cq, compare(">", absd, rad)), ins))))
        mid = tuple(arith("/", arith("+", a, b), 2) for a, b in zip(a_lo, a_hi))
        for c_, is_reg_point in ((mid, region_contains(make_vector(*mid))), (ssample, True)):  # (d)
            rc = maxdist(I, sv, c_)
            om = maxdist(I, ov, c_)
            eng.assume(sv_implies(sv_and(is_reg_point, compare(">", om, rc)), sv_not(ins)))
        eng.assume(iff(diff_empty, ins))  # (e)
        K["log"].clear()
        env.vars.update(self=S, obj=obj, _K=K)

    def post(I, env, outcome):
        eng = I.eng
        oname = "regions.MeshVolumeRegion.containsObject"
        if outcome[0] != "return":
            return
        K = env.vars["_K"]
        log = K["log"]
        if "difference" in log:
            stage = "pass5_boolean_difference"
        elif "sample self" in log or log.count("signed_distance") >= 1 and False:
            stage = "pass4_region_circumradius"
        elif "signed_distance" in log or "sample obj" in log:
            stage = "pass2_3_4_signed_distances_and_circumradii"
        else:
            stage = "pass1_4_bounding_boxes_and_circumradius"
        eng.check(f"{oname}#{stage}.result_agrees_with_containment", iff(I.truth(outcome[1]), K["inside"]))

    def replay(inputs, clause):
        """The real containsObject on a catalogue: a non-convex room (square floor plan with a notch, extruded) and a
        convex one, objects that do and do not contain their own centre (box, beam, ring), placed inside, across a wall
        and outside, several states of NumPy's generator (PASS 3/4 sample candidate points).  Oracle independent of the
        procedure: the room is a prism, so a vertex of the object's mesh outside the floor plan or the height range means
        `not contained`; all vertices well inside (margin 0.3) and away from the notch means `contained`."""
        import warnings

        warnings.filterwarnings("ignore")
        import numpy
        import shapely.geometry as sg
        import trimesh

        from scenic.core.object_types import Object
        from scenic.core.regions import MeshVolumeRegion
        from scenic.core.shapes import BoxShape, MeshShape
        from scenic.core.vectors import Vector

        notch = sg.Polygon([(-10, -10), (10, -10), (10, 10), (1, 10), (1, 9), (-1, 9), (-1, 10), (-10, 10)])
        square = sg.Polygon([(-10, -10), (10, -10), (10, 10), (-10, 10)])
        ring = trimesh.creation.annulus(r_min=3.6, r_max=4.0, height=0.5)
        shapes = [("box 2x2x2", lambda: BoxShape(), (2, 2, 2)), ("beam 8x0.5x0.5", lambda: BoxShape(), (8, 0.5, 0.5)), ("ring r 3.6..4", lambda: MeshShape(ring), (8, 8, 0.5))]
        for rname, plan in (("notched room", notch), ("square room", square)):
            mesh = trimesh.creation.extrude_polygon(plan, 10.0)
            mesh.apply_translation((0, 0, -5.0))
            room = MeshVolumeRegion(mesh, centerMesh=False)
            for sname, mk, dims in shapes:
                for x in (0.0, 5.0, 6.5, 8.0, 9.7, 15.0):
                    for y in (0.0, -5.0, 9.5):
                        for seed in range(4 if "ring" in sname else 1):
                            o = Object._with(position=Vector(x, y, 0), shape=mk(), width=dims[0], length=dims[1], height=dims[2])
                            V = numpy.array(o.occupiedSpace.mesh.vertices)
                            outside = [v for v in V if not plan.buffer(1e-6).contains(sg.Point(v[0], v[1])) or abs(v[2]) > 5 + 1e-6]
                            hull = sg.MultiPoint([(v[0], v[1]) for v in V]).convex_hull
                            well_inside = plan.buffer(-0.3).contains(hull) and float(numpy.abs(V[:, 2]).max()) < 4.7
                            numpy.random.seed(seed)
                            got = bool(room.containsObject(o))
                            if got and "ring" not in sname and hull.difference(plan).area > 1e-6:
                                # a box is convex: its projection is the hull of its vertices, which must lie in the floor plan
                                return f"{rname}.containsObject({sname} at ({x}, {y}, 0), numpy seed {seed}) is True although {hull.difference(plan).area:.3f} square units of the object's projection lie outside the floor plan (it bridges the notch)"
                            if got and outside:
                                v = outside[0]
                                return f"{rname}.containsObject({sname} at ({x}, {y}, 0), numpy seed {seed}) is True although the object's vertex {tuple(round(float(c), 3) for c in v)} lies outside the room"
                            if not got and well_inside:
                                return f"{rname}.containsObject({sname} at ({x}, {y}, 0), numpy seed {seed}) is False although every vertex of the object is at least 0.3 inside the room"
        return None

    reg.add(
        C.Contract(
            f"{RG}:MeshVolumeRegion.containsObject",
            params=dict(self=C.Const(None), obj=C.Const(None)),
            setup=setup,
            post=post,
            replay=replay,
            inline_all=True,
            bounded=True,
            note="relative to the containment kernel K8; meshes with 2 vertices each (symbolic coordinates)",
            properties=("C04",),
        )
    )


# ===================================================================================================
# MeshVolumeRegion._circumradius: the premise of K1 (meshes without a precomputed shape)


def register_circumradius(reg):
    NV = 2

    def setup(I, env):
        eng = I.eng
        S = PObj(RC("MeshVolumeRegion"), tag="self")
        init_samplable(S)
        mesh = MS.make_mesh(I, "self.mesh")
        vs = [[eng.fresh_real(f"v{i}.{c}") for c in "xyz"] for i in range(NV)]
        mesh.fields["vertices"] = MS.NDArr((NV, 3), vs)
        pos = tuple(eng.fresh_real(f"position.{c}") for c in "xyz")
        eng.input_syms.append(("position", C.TupleOf(C.Real(), C.Real(), C.Real()), pos))
        for i, v in enumerate(vs):
            eng.input_syms.append((f"v{i}", C.TupleOf(C.Real(), C.Real(), C.Real()), tuple(v)))
        S.fields.update(mesh=mesh, position=make_vector(*pos), _scaledShape=None, _shape=None, orientation=None, name=None)
        env.vars.update(self=S, _vs=vs, _pos=pos)

    def post(I, env, outcome):
        eng = I.eng
        if outcome[0] != "return":
            return
        r = outcome[1]
        oname = "regions.MeshVolumeRegion._circumradius"
        ok = isinstance(r, (int, float, SV))
        eng.check(f"{oname}#ensures.returns_a_number", ok)
        if ok:
            # K1 needs: the region lies within the ball of this radius about its POSITION
            eng.check(f"{oname}#ensures.every_vertex_within_the_radius_of_the_position[no precomputed shape]", sv_and(compare(">=", r, 0), *[compare("<=", dist3sq(v, env.vars["_pos"]), sq(r)) for v in env.vars["_vs"]]))

    def replay(inputs, clause):
        import warnings

        warnings.filterwarnings("ignore")
        import numpy
        import trimesh

        from scenic.core.object_types import Object
        from scenic.core.regions import EmptyRegion, MeshVolumeRegion
        from scenic.core.vectors import Vector

        pts = numpy.array([[-1, -1, -0.1], [-1, 1, -0.1], [-1, -1, 0.1], [-1, 1, 0.1], [1, 0, 0]], dtype=float)
        pos = numpy.array([0.3, 0.0, 0.0])
        A = MeshVolumeRegion(trimesh.convex.convex_hull(pts), position=Vector(*pos))
        V = A.mesh.vertices
        d = numpy.linalg.norm(V - pos, axis=1)
        true_r, far = float(d.max()), V[int(numpy.argmax(d))]
        code_r = float(A._circumradius)
        if code_r >= true_r - 1e-9:
            return None
        o = Object._with(position=Vector(*(far + (pos - far) * 0.01)), width=0.06, length=0.06, height=0.06)
        B = o.occupiedSpace
        inter = A.intersect(B)
        vol = 0.0 if isinstance(inter, EmptyRegion) else float(inter.mesh.volume)
        return (
            f"wedge mesh region at position (0.3, 0, 0): _circumradius = {code_r:.4f} but its vertex {tuple(round(float(x), 4) for x in far)} is {true_r:.4f} from the position "
            f"(radius measured from the world origin); with a 0.06-box object at that corner: region.intersects(object) = {A.intersects(B)} "
            f"although their exact intersection has volume {vol:.3g}"
        )

    reg.add(
        C.Contract(
            f"{RG}:MeshVolumeRegion._circumradius",
            params=dict(self=C.Const(None)),
            setup=setup,
            post=post,
            inline_all=True,
            replay=replay,
            bounded=True,
            note="fallback arm (no precomputed shape); mesh of 2 vertices (symbolic)",
            properties=("C04",),
        )
    )


# ===================================================================================================
# Shape._circumradius: the per-shape radius behind K1 when a region has a shape (`_shape` / `_scaledShape` arms of
# MeshVolumeRegion._circumradius multiply it by the largest dimension).  The region's position is the image of the
# ORIGIN of the shape's mesh, so the ball must be taken about the origin.


def register_shape_circumradius(reg):
    NV = 2

    def setup(I, env):
        eng = I.eng
        S = PObj(repo_class("scenic.core.shapes:MeshShape"), tag="self")
        mesh = MS.make_mesh(I, "self.mesh")
        vs = [[eng.fresh_real(f"v{i}.{c}") for c in "xyz"] for i in range(NV)]
        mesh.fields["vertices"] = MS.NDArr((NV, 3), vs)
        # the bounds of the abstract mesh enclose its vertices
        for k in range(3):
            eng.assume(sv_and(*[sv_and(compare("<=", mesh.fields["_lo"][k], v[k]), compare("<=", v[k], mesh.fields["_hi"][k])) for v in vs]))
        for i, v in enumerate(vs):
            eng.input_syms.append((f"v{i}", C.TupleOf(C.Real(), C.Real(), C.Real()), tuple(v)))
        S.fields.update(mesh=mesh)
        env.vars.update(self=S, _vs=vs)

    def post(I, env, outcome):
        eng = I.eng
        if outcome[0] != "return":
            return
        r = outcome[1]
        oname = "shapes.Shape._circumradius"
        ok = isinstance(r, (int, float, SV))
        eng.check(f"{oname}#ensures.returns_a_number", ok)
        if ok:
            zero = (0, 0, 0)
            eng.check(f"{oname}#ensures.every_vertex_within_the_radius_of_the_mesh_origin", sv_and(compare(">=", r, 0), *[compare("<=", dist3sq(v, zero), sq(r)) for v in env.vars["_vs"]]))
            eng.check(f"{oname}#ensures.some_vertex_at_the_radius", sv_or(*[compare("==", dist3sq(v, zero), sq(r)) for v in env.vars["_vs"]]))

    def replay(inputs, clause):
        import math
        import warnings

        warnings.filterwarnings("ignore")
        import numpy
        import trimesh

        from scenic.core.shapes import BoxShape, ConeShape, MeshShape

        wedge = trimesh.convex.convex_hull(numpy.array([[-1, -1, -0.1], [-1, 1, -0.1], [-1, -1, 0.1], [-1, 1, 0.1], [1, 0, 0]], dtype=float))
        for name, shape in [
            ("wedge, initial_rotation (45 deg, 0, 0)", MeshShape(wedge, initial_rotation=(math.radians(45), 0, 0))),
            ("wedge, initial_rotation (30, 20, 10 deg)", MeshShape(wedge, initial_rotation=(math.radians(30), math.radians(20), math.radians(10)))),
            ("cone, initial_rotation (0, 40 deg, 0)", ConeShape(initial_rotation=(0, math.radians(40), 0))),
            ("box", BoxShape()),
        ]:
            far = float(numpy.max(numpy.linalg.norm(shape.mesh.vertices, axis=1)))
            got = float(shape._circumradius)
            if "within" in clause and got < far - 1e-9:
                return f"shape ({name}): _circumradius = {got:.4f} but a vertex of its mesh is {far:.4f} from the mesh origin (the point that becomes the object's position), so the bounding-sphere pass of intersects can reject overlapping solids"
            if "some_vertex" in clause and got > far + 1e-9:
                return f"shape ({name}): _circumradius = {got:.4f} exceeds the largest vertex distance {far:.4f}"
        return None

    reg.add(
        C.Contract(
            "scenic.core.shapes:Shape._circumradius",
            params=dict(self=C.Const(None)),
            setup=setup,
            post=post,
            inline_all=True,
            replay=replay,
            bounded=True,
            note="mesh of 2 vertices (symbolic coordinates)",
            properties=("C04", "C02"),
        )
    )


# ===================================================================================================
# Object.minimumDistanceTo: the planar fast path may only be taken when the planar distance IS the gap


def register_minimum_distance(reg):
    reg.trust("K9-prism-gap", "two planar boxes are right prisms P x I and Q x J (K-prism), whose gap is sqrt(dist(P, Q)^2 + dist(I, J)^2) with dist(I, J) = max(0, |z1 - z2| - (h1 + h2)/2); shapely's distance of the bounding polygons is dist(P, Q); occupiedSpace.minimumDistanceTo (FCL) is the exact gap")
    OBJ = lambda: repo_class(f"{OT}:Object")

    def mk(I, tag, planar, log):
        eng = I.eng
        o = PObj(OBJ(), tag=tag)
        init_samplable(o)
        pos = tuple(eng.fresh_real(f"{tag}.position.{c}") for c in "xyz")
        h = eng.fresh_real(f"{tag}.height")
        eng.assume(compare(">", h, 0))
        eng.input_syms.append((f"{tag}.planar_box", C.Const(None), planar))
        eng.input_syms.append((f"{tag}.position", C.TupleOf(C.Real(), C.Real(), C.Real()), pos))
        eng.input_syms.append((f"{tag}.height", C.Real(), h))
        poly = MS.make_geom(I, "Polygon", empty=False, tag=f"{tag}._boundingPolygon")

        def pdist(other, *a, **k):
            d = eng.fresh_real(f"{tag}._boundingPolygon.distance")
            eng.assume(compare(">=", d, 0))
            log.append(("polygon", poly, other, d))
            return d

        poly.fields["distance"] = BuiltinFn("distance", pdist)
        space = PObj(RC("MeshVolumeRegion"), tag=f"{tag}.occupiedSpace")
        init_samplable(space)

        def sdist(other, *a, **k):
            d = eng.fresh_real(f"{tag}.occupiedSpace.minimumDistanceTo")
            eng.assume(compare(">=", d, 0))
            log.append(("space", space, other, d))
            return d

        space.fields["minimumDistanceTo"] = BuiltinFn("minimumDistanceTo", sdist)
        o.fields.update(_isPlanarBox=planar, position=make_vector(*pos), z=pos[2], height=h, _boundingPolygon=poly, occupiedSpace=space)
        return o

    def setup(I, env):
        eng = I.eng
        log = []
        pa = eng.choose(2, "self is a planar box?") == 1
        A = mk(I, "self", pa, log)
        k = eng.choose(3, "other: planar box / other object / not an object")
        B = mk(I, "other", k == 0, log) if k < 2 else 5
        env.vars.update(self=A, other=B, _log=log, _k=k, _pa=pa)

    def post(I, env, outcome):
        eng = I.eng
        oname = "object_types.Object.minimumDistanceTo"
        A, B, log, k, pa = env.vars["self"], env.vars["other"], env.vars["_log"], env.vars["_k"], env.vars["_pa"]
        if outcome[0] == "raise":
            eng.check(f"{oname}#raises.TypeError.only_for_non_objects", k == 2)
            return
        eng.check(f"{oname}#raises.TypeError.must_for_non_objects", k != 2)
        res = outcome[1]
        eng.check(f"{oname}#ensures.exactly_one_distance_computation", len(log) == 1)
        if len(log) != 1:
            return
        kind, g, o, d = log[0]
        if kind == "polygon":
            ok = pa and k == 0 and g is A.fields["_boundingPolygon"] and o is B.fields["_boundingPolygon"]
            eng.check(f"{oname}#fastpath.only_for_two_planar_boxes_on_their_bounding_polygons", ok)
            if ok:
                za, zb = A.fields["position"].fields["coordinates"][2], B.fields["position"].fields["coordinates"][2]
                dzabs = sv_ite(compare(">=", za, zb), arith("-", za, zb), arith("-", zb, za))
                slack = arith("-", dzabs, arith("/", arith("+", A.fields["height"], B.fields["height"]), 2))
                dz = sv_ite(compare(">", slack, 0), slack, 0)
                # K9: the gap of the two prisms is sqrt(d^2 + dz^2); the planar distance is the gap only when dz = 0
                eng.check(f"{oname}#fastpath.planar_distance_is_the_gap_of_the_solids", sv_and(compare("==", res, d), compare("==", dz, 0)))
        else:
            ok = g is A.fields["occupiedSpace"] and o is B.fields["occupiedSpace"]
            eng.check(f"{oname}#default.exact_distance_of_the_occupied_spaces", ok and res is d)

    def replay(inputs, clause):
        import warnings

        warnings.filterwarnings("ignore")
        from scenic.core.object_types import Object
        from scenic.core.vectors import Vector

        if "fastpath" not in clause:
            return None
        try:
            pa, pb = [float(x) for x in inputs["self.position"]], [float(x) for x in inputs["other.position"]]
            ha, hb = float(inputs["self.height"]), float(inputs["other.height"])
        except Exception:
            return None
        a = Object._with(position=Vector(*pa), width=1, length=1, height=ha)
        b = Object._with(position=Vector(pa[0] + 3, pa[1], pb[2]), width=1, length=1, height=hb)
        got = float(a.minimumDistanceTo(b))
        exact = float(a.occupiedSpace.minimumDistanceTo(b.occupiedSpace))
        if abs(got - exact) > 1e-6 * max(1, exact):
            return f"unit-footprint boxes at {tuple(a.position)} (height {ha}) and {tuple(b.position)} (height {hb}): minimumDistanceTo = {got:.6g} but the exact gap of the solids is {exact:.6g}"
        return None

    reg.add(
        C.Contract(
            f"{OT}:Object.minimumDistanceTo",
            params=dict(self=C.Const(None), other=C.Const(None)),
            setup=setup,
            post=post,
            raises=[C.Raises("TypeError", mode="may")],
            inline_all=True,
            replay=replay,
            properties=("C04",),
        )
    )


# ===================================================================================================
# Extension: Object._boundingPolygon (planar boxes), PolygonalFootprintRegion.containsObject, and the `_scaledShape` /
# `_shape` arms of MeshVolumeRegion._circumradius
#
# Oracle (property statement): every internal shortcut -- planar-box bounding polygon, convex / convex-hull fast path of
# the footprint containment test, precomputed per-shape circumradius -- gives the same answer as the exhaustive
# computation: the bounding polygon of a planar box is the rectangle position + R(yaw) (+-w/2, +-l/2) (K-prism); an object
# lies in a footprint exactly when every point of its projection lies in the polygon; the region lies within the ball of
# radius _circumradius about its position (K1).


def ensure_trig(I):
    """math.cos / math.sin as attributes of the module `math`: the abstract functions of A2 (pyvc/models_shapely.py)."""
    mm = I.modules["math"]
    if "cos" not in mm.attrs:
        mm.attrs["cos"] = BuiltinFn("math.cos", lambda x: MS.cos(I, x))
    if "sin" not in mm.attrs:
        mm.attrs["sin"] = BuiltinFn("math.sin", lambda x: MS.sin(I, x))


def register_bounding_polygon(reg):
    OBJ = lambda: repo_class(f"{OT}:Object")
    SIGNS = ((1, 1), (-1, 1), (-1, -1), (1, -1))  # cyclic order of _corners2D

    def setup(I, env):
        eng = I.eng
        ensure_trig(I)
        planar = eng.choose(2, "planar box?") == 1
        o = PObj(OBJ(), tag="self")
        init_samplable(o)
        pos = tuple(eng.fresh_real(f"position.{c}") for c in "xyz")
        w, l, yaw = eng.fresh_real("width"), eng.fresh_real("length"), eng.fresh_real("yaw")
        eng.assume(sv_and(compare(">", w, 0), compare(">", l, 0)))
        eng.input_syms.append(("planar", C.Const(None), planar))
        eng.input_syms.append(("position", C.TupleOf(C.Real(), C.Real(), C.Real()), pos))
        for n, v in (("width", w), ("length", l), ("yaw", yaw)):
            eng.input_syms.append((n, C.Real(), v))
        ori = PObj("Orientation", tag="self.orientation")
        ori.fields.update(yaw=yaw, pitch=0, roll=0)
        space = PObj(RC("MeshVolumeRegion"), tag="self.occupiedSpace")
        init_samplable(space)
        space.fields["_boundingPolygon"] = MS.make_geom(I, "Polygon", empty=False, tag="occupiedSpace._boundingPolygon")
        o.fields.update(_isPlanarBox=planar, position=make_vector(*pos), width=w, length=l, orientation=ori, occupiedSpace=space)
        env.vars.update(self=o, _planar=planar, _pos=pos, _w=w, _l=l, _yaw=yaw)

    def post(I, env, outcome):
        eng = I.eng
        oname = "object_types.Object._boundingPolygon"
        if outcome[0] != "return":
            return
        res, o = outcome[1], env.vars["self"]
        if not env.vars["_planar"]:
            eng.check(f"{oname}#default.exact_projection_of_the_occupied_space", res is o.fields["occupiedSpace"].fields["_boundingPolygon"])
            return
        rings = res.fields.get("_rings") if MS.is_geom(res) else None
        ok = rings is not None and len(rings[0]) == 4 and not rings[1]
        eng.check(f"{oname}#fastpath.returns_a_quadrilateral", ok)
        if not ok:
            return
        pos, w, l, yaw = env.vars["_pos"], env.vars["_w"], env.vars["_l"], env.vars["_yaw"]
        c, s = MS.cos(I, yaw), MS.sin(I, yaw)
        hw, hl = arith("/", w, 2), arith("/", l, 2)
        acc = []
        for (sx, sy), got in zip(SIGNS, rings[0]):
            dx, dy = arith("*", sx, hw), arith("*", sy, hl)
            want = (arith("+", pos[0], arith("-", arith("*", c, dx), arith("*", s, dy))), arith("+", pos[1], arith("+", arith("*", s, dx), arith("*", c, dy))))
            acc.append(sv_and(compare("==", got[0], want[0]), compare("==", got[1], want[1])))
        eng.check(f"{oname}#fastpath.corners_are_position_plus_rotation_by_yaw_of_the_half_extents", sv_and(*acc))

    def replay(inputs, clause):
        import math
        import warnings

        warnings.filterwarnings("ignore")
        from scenic.core.object_types import Object
        from scenic.core.vectors import Vector

        cases = [((1.0, -2.0, 0.5), 2.0, 5.0, 0.0), ((0.0, 0.0, 0.0), 1.0, 3.0, math.radians(90)), ((-3.0, 4.0, 1.0), 0.7, 2.2, math.radians(37)), ((2.0, 2.0, 0.0), 4.0, 1.0, -2.5)]
        try:
            cases.insert(0, (tuple(float(x) for x in inputs["position"]), float(inputs["width"]), float(inputs["length"]), float(inputs["yaw"])))
        except Exception:
            pass
        for pos, w, l, yaw in cases:
            o = Object._with(position=Vector(*pos), width=w, length=l, height=1.0, yaw=yaw)
            got = [tuple(p) for p in o._boundingPolygon.exterior.coords][:-1]
            c, s = math.cos(yaw), math.sin(yaw)
            want = [(pos[0] + c * sx * w / 2 - s * sy * l / 2, pos[1] + s * sx * w / 2 + c * sy * l / 2) for sx, sy in SIGNS]
            if len(got) != 4 or any(math.dist(a, b) > 1e-9 * max(1.0, abs(w), abs(l), *map(abs, pos)) for a, b in zip(got, want)):
                return f"planar box at {pos}, width {w}, length {l}, yaw {yaw}: _boundingPolygon has vertices {[tuple(round(x, 6) for x in p) for p in got]}; position + R(yaw) (+-w/2, +-l/2) = {[tuple(round(x, 6) for x in p) for p in want]}"
            exact = o.occupiedSpace._boundingPolygon
            if exact.symmetric_difference(o._boundingPolygon).area > 1e-6 * max(1.0, w * l):
                return f"planar box at {pos}, width {w}, length {l}, yaw {yaw}: the fast-path polygon differs from the projection of the occupied space by area {exact.symmetric_difference(o._boundingPolygon).area:.4g}"
        return None

    reg.add(C.Contract(f"{OT}:Object._boundingPolygon", params=dict(self=C.Const(None)), setup=setup, post=post, inline_all=True, replay=replay, note="relative to G-affine (shapely.affinity.affine_transform) and A2 (trigonometry)", properties=("C04",)))


def register_footprint_contains_object(reg):
    reg.trust("K-hull", "the projected convex hull of an object's mesh (occupiedSpace._boundingPolygonHull) contains the object's exact bounding polygon (its projection); for convex objects `_boundingPolygon` is the projection")

    def setup(I, env):
        eng = I.eng
        convex = eng.choose(2, "convex object?") == 1
        eng.input_syms.append(("convex", C.Const(None), convex))
        S = PObj(RC("PolygonalFootprintRegion"), tag="self")
        init_samplable(S)
        P = MS.make_geom(I, "MultiPolygon", empty=False, tag="self.polygons")
        S.fields.update(polygons=P, orientation=None, name=None)
        B = MS.make_geom(I, "Polygon", empty=False, tag="obj._boundingPolygon")  # the exact projection of the object
        H = MS.make_geom(I, "Polygon", empty=False, tag="obj.hull")
        MS.world(I).add_fact(lambda x, y: sv_implies(MS.gmem(B, x, y), MS.gmem(H, x, y)))  # K-hull
        obj = PObj(repo_class(f"{OT}:Object"), tag="obj")
        init_samplable(obj)
        space = PObj(RC("MeshVolumeRegion"), tag="obj.occupiedSpace")
        init_samplable(space)
        space.fields.update(_boundingPolygonHull=H, _boundingPolygon=B)
        obj.fields.update(_isConvex=convex, shape=PObj("Shape", tag="obj.shape"), _boundingPolygon=B, occupiedSpace=space)
        obj.fields["shape"].fields["isConvex"] = convex
        env.vars.update(self=S, obj=obj, _P=P, _B=B, _H=H, _p=probe(I))

    def post(I, env, outcome):
        eng = I.eng
        oname = "regions.PolygonalFootprintRegion.containsObject"
        if outcome[0] != "return":
            return
        res, P, B, p = outcome[1], env.vars["_P"], env.vars["_B"], env.vars["_p"]
        ok = isinstance(res, (bool, SV))
        eng.check(f"{oname}#ensures.returns_a_truth_value", ok)
        if not ok:
            return
        # inside(obj, footprint) <=> every point of the object's projection lies in the polygon
        eng.check(f"{oname}#ensures.true_only_if_every_point_of_the_projection_lies_in_the_polygon", sv_implies(sv_and(res, MS.gmem(B, p[0], p[1])), MS.gmem(P, p[0], p[1])))
        wit = [(r, w) for (a, b, r, w) in getattr(MS.world(I), "contains_log", []) if a is P and b is B]
        if wit:
            r, (cx, cy) = wit[-1]
            eng.check(f"{oname}#ensures.false_only_if_some_point_of_the_projection_lies_outside_the_polygon", sv_implies(sv_not(res), sv_and(MS.gmem(B, cx, cy), sv_not(MS.gmem(P, cx, cy)))))
        else:
            # the exact projection was never tested: `False` cannot be justified
            eng.check(f"{oname}#ensures.false_only_if_some_point_of_the_projection_lies_outside_the_polygon", res)

    def replay(inputs, clause):
        import warnings

        warnings.filterwarnings("ignore")
        import shapely
        import shapely.geometry as sg
        import trimesh

        from scenic.core.object_types import Object
        from scenic.core.regions import PolygonalRegion
        from scenic.core.shapes import BoxShape, MeshShape
        from scenic.core.vectors import Vector

        L = trimesh.creation.extrude_polygon(sg.Polygon([(0, 0), (4, 0), (4, 1), (1, 1), (1, 4), (0, 4)]), 1.0)
        Lshape = MeshShape(L)
        square_with_hole = sg.Polygon([(-10, -10), (10, -10), (10, 10), (-10, 10)], [[(-1, -1), (-1, 1), (1, 1), (1, -1)]])
        notch = sg.Polygon([(-3, -3), (3, -3), (3, -0.5), (-0.5, -0.5), (-0.5, 3), (-3, 3)])  # contains the L prism at the origin (its arms hug the notch) but not its convex hull
        conts = [("square with a hole at the origin", square_with_hole), ("square with the upper-right quadrant cut out", notch), ("small square", sg.Polygon([(-1.5, -1.5), (1.5, -1.5), (1.5, 1.5), (-1.5, 1.5)]))]
        objs = []
        for pos in ((5, 5, 0), (0, 0, 0), (1.8, 1.8, 0), (0, 0, 3)):
            objs.append((f"box 1x2x1 at {pos}", dict(position=Vector(*pos), shape=BoxShape(), width=1, length=2, height=1, yaw=0.4)))
            objs.append((f"L-shaped prism 2.4x2.4x1 at {pos}", dict(position=Vector(*pos), shape=Lshape, width=2.4, length=2.4, height=1, yaw=0)))
            objs.append((f"L-shaped prism 2.4x2.4x1 at {pos}, yaw 180 deg", dict(position=Vector(*pos), shape=Lshape, width=2.4, length=2.4, height=1, yaw=3.141592653589793)))
            objs.append((f"tilted box at {pos}", dict(position=Vector(*pos), shape=BoxShape(), width=1, length=1, height=3, pitch=0.6)))
        for cname_, poly in conts:
            F = PolygonalRegion(polygon=poly).footprint
            for oname_, kw in objs:
                o = Object._with(**kw)
                tris = o.occupiedSpace.mesh.triangles
                proj = shapely.unary_union([t for t in (sg.Polygon(t[:, :2]) for t in tris) if t.area > 1e-12])
                inside, clearly_out = poly.buffer(1e-7).contains(proj), proj.difference(poly).area > 1e-6
                if inside == (not clearly_out):
                    got = bool(F.containsObject(o))
                    if got != inside:
                        return f"footprint of the {cname_}, {oname_}: containsObject = {got}, but the projection of the object (union of its projected faces, area {proj.area:.4g}) {'lies in' if inside else f'sticks out of'} the polygon{'' if inside else f' by area {proj.difference(poly).area:.4g}'}"
        return None

    reg.add(
        C.Contract(
            f"{RG}:PolygonalFootprintRegion.containsObject",
            params=dict(self=C.Const(None), obj=C.Const(None)),
            setup=setup,
            post=post,
            inline_all=True,
            replay=replay,
            note="relative to G-contains (shapely) and K-hull; the polygons themselves (trimesh projection, convex hull) are kernels",
            properties=("C04",),
        )
    )


def register_circumradius_shape_arms(reg):
    NV = 2
    reg.trust("A-rotation-norm", "a rotation preserves the Euclidean norm: |R u| = |u| (R = the rotation matrix of an Orientation)")
    reg.trust("T-transform", "MeshRegion.mesh is the input mesh under compose_matrix(scale, angles, translate): vertex u -> position + R (s * u) component-wise, scale s = dimensions / input extents (absent: 1); the mesh of a Shape has unit extents (MeshShape.__init__ scales it to unit size) and _scaledShape is the Shape's mesh scaled to the object's dimensions, unrotated, at the origin")
    RX = [z3.Function(f"rot.{c}", _R, _R, _R, _R) for c in "xyz"]

    def rot(eng, u):
        args = [toz3(c, want_real=True) for c in u]
        v = tuple(SV(f(*args), True) for f in RX)
        eng.assume(compare("==", arith("+", arith("+", sq(v[0]), sq(v[1])), sq(v[2])), arith("+", arith("+", sq(u[0]), sq(u[1])), sq(u[2]))))  # A-rotation-norm
        return v

    def setup(I, env):
        eng = I.eng
        arm = ["_scaledShape", "_shape with dimensions", "_shape without dimensions"][eng.choose(3, "arm")]
        eng.input_syms.append(("arm", C.Const(None), arm))
        S = PObj(RC("MeshVolumeRegion"), tag="self")
        init_samplable(S)
        pos = tuple(eng.fresh_real(f"position.{c}") for c in "xyz")
        eng.input_syms.append(("position", C.TupleOf(C.Real(), C.Real(), C.Real()), pos))
        us = [tuple(eng.fresh_real(f"u{i}.{c}") for c in "xyz") for i in range(NV)]  # vertices of the precomputed mesh
        for i, u in enumerate(us):
            eng.input_syms.append((f"u{i}", C.TupleOf(C.Real(), C.Real(), C.Real()), u))
        rpre = eng.fresh_real("precomputed._circumradius")
        eng.input_syms.append(("precomputed_circumradius", C.Real(), rpre))
        # contract of the precomputed radius (fallback arm at position 0 / Shape._circumradius): every vertex within it of the origin
        eng.assume(sv_and(compare(">=", rpre, 0), *[compare("<=", dist3sq(u, (0, 0, 0)), sq(rpre)) for u in us]))
        inmesh = MS.make_mesh(I, "self._mesh")
        dims = None
        if arm == "_scaledShape":
            pre = PObj(RC("MeshVolumeRegion"), tag="self._scaledShape")
            init_samplable(pre)
            pre.fields.update(_circumradius=rpre)
            shape = PObj(repo_class("scenic.core.shapes:MeshShape"), tag="self._shape")
            shape.fields.update(_circumradius=eng.fresh_real("shape._circumradius"))
            S.fields.update(_scaledShape=pre, _shape=shape, dimensions=None)
            scaled = us
        else:
            shape = PObj(repo_class("scenic.core.shapes:MeshShape"), tag="self._shape")
            shape.fields.update(_circumradius=rpre)
            inmesh.fields["extents"] = MS.NDArr((3,), [1.0, 1.0, 1.0])  # T-transform: unit extents
            if arm == "_shape with dimensions":
                dims = tuple(eng.fresh_real(f"dimensions.{k}") for k in range(3))
                eng.assume(sv_and(*[compare(">", d, 0) for d in dims]))
                eng.input_syms.append(("dimensions", C.TupleOf(C.Real(), C.Real(), C.Real()), dims))
                scaled = [tuple(arith("*", d, c) for d, c in zip(dims, u)) for u in us]
            else:
                scaled = us
            S.fields.update(_scaledShape=None, _shape=shape, dimensions=dims)
        vs = [tuple(arith("+", p, c) for p, c in zip(pos, rot(eng, su))) for su in scaled]  # T-transform
        mesh = MS.make_mesh(I, "self.mesh")
        mesh.fields["vertices"] = MS.NDArr((NV, 3), [list(v) for v in vs])
        S.fields.update(mesh=mesh, _mesh=inmesh, position=make_vector(*pos), orientation=None, name=None)
        env.vars.update(self=S, _vs=vs, _pos=pos, _arm=arm, _us=us, _dims=dims, _rpre=rpre, _scaled=scaled)

    def post(I, env, outcome):
        eng = I.eng
        if outcome[0] != "return":
            return
        r, arm = outcome[1], env.vars["_arm"]
        oname = "regions.MeshVolumeRegion._circumradius"
        ok = isinstance(r, (int, float, SV))
        eng.check(f"{oname}#ensures.returns_a_number[{arm}]", ok)
        if not ok:
            return
        dims, us, rpre = env.vars["_dims"], env.vars["_us"], env.vars["_rpre"]
        if dims is not None:
            # lemmas (proved, then used), phrased over names for the non-linear quantities so that the last step is linear:
            # with m = max(d) >= d_k > 0: (d_k u_k)^2 <= m^2 u_k^2 per axis, hence |D u|^2 <= m^2 |u|^2 <= (m r0)^2 = r^2, and
            # |v - position| = |R (D u)| = |D u| (A-rotation-norm)
            def named(label, expr):
                n = eng.fresh_real(label)
                eng.assume(compare("==", n, expr))
                return n

            facts = []

            def lemma(label, f, linear=False):
                if linear:
                    # a step that follows from the lemmas already proved alone: discharged from those (a subset of the
                    # hypotheses, hence sound), which keeps the non-linear definitions out of the solver's way
                    saved = list(eng.pc)
                    eng.pc[:] = list(facts)
                    try:
                        eng.check(f"{oname}#lemma.{label}", f)
                    finally:
                        eng.pc[:] = saved
                else:
                    eng.check(f"{oname}#lemma.{label}", f)
                eng.assume(f)
                facts.append(tobool(f))

            m = dims[0]
            for d in dims[1:]:
                m = sv_ite(compare(">=", d, m), d, m)
            m = named("largest_dimension", m)
            lemma("largest_dimension_bounds_every_dimension", sv_and(compare(">", m, 0), *[compare("<=", d, m) for d in dims]))
            m2 = named("largest_dimension_squared", sq(m))
            E = named("bound_squared", arith("*", m2, sq(rpre)))
            Q = named("radius_squared", sq(r))
            lemma("radius_is_the_largest_dimension_times_the_unit_radius", sv_and(compare("==", r, arith("*", m, rpre)), compare(">=", r, 0)))
            lemma("squared_radius", compare("==", Q, E))
            for i, u in enumerate(us):
                su = env.vars["_scaled"][i]
                comp = []
                for k, ax in enumerate("xyz"):
                    uk2 = named(f"u{i}.{ax}.squared", sq(u[k]))
                    sk2 = named(f"scaled.u{i}.{ax}.squared", sq(su[k]))
                    lemma(f"scaled_component_bounded_by_the_largest_dimension[v{i}.{ax}]", compare("<=", sk2, arith("*", m2, uk2)))
                    comp.append((uk2, sk2))
                U = named(f"u{i}.norm.squared", arith("+", arith("+", comp[0][0], comp[1][0]), comp[2][0]))
                Sn = named(f"scaled.u{i}.norm.squared", arith("+", arith("+", comp[0][1], comp[1][1]), comp[2][1]))
                MU = named(f"bound.u{i}", arith("*", m2, U))
                lemma(f"scaled_vertex_norm_bounded_by_the_largest_dimension_times_the_norm[v{i}]", compare("<=", Sn, MU))
                lemma(f"unit_vertex_within_the_unit_radius[v{i}]", compare("<=", U, sq(rpre)))
                lemma(f"largest_dimension_times_the_unit_radius_bounds_the_scaled_vertex[v{i}]", compare("<=", MU, E))
                N = named(f"v{i}.distance.squared", dist3sq(env.vars["_vs"][i], env.vars["_pos"]))
                lemma(f"rotation_and_translation_preserve_the_distance_to_the_position[v{i}]", compare("==", N, Sn))
                lemma(f"vertex_within_the_radius[v{i}]", compare("<=", N, Q), linear=True)
        eng.check(f"{oname}#ensures.every_vertex_within_the_radius_of_the_position[{arm}]", sv_and(compare(">=", r, 0), *[compare("<=", dist3sq(v, env.vars["_pos"]), sq(r)) for v in env.vars["_vs"]]))

    def replay(inputs, clause):
        import math
        import warnings

        warnings.filterwarnings("ignore")
        import numpy
        import trimesh

        from scenic.core.object_types import Object
        from scenic.core.regions import MeshVolumeRegion
        from scenic.core.shapes import BoxShape, ConeShape, MeshShape
        from scenic.core.vectors import Orientation, Vector

        wedge = trimesh.convex.convex_hull(numpy.array([[-1, -1, -0.1], [-1, 1, -0.1], [-1, -1, 0.1], [-1, 1, 0.1], [1, 0, 0]], dtype=float))
        shapes = [("box", BoxShape()), ("cone", ConeShape()), ("wedge rotated 30/20/10 deg", MeshShape(wedge, initial_rotation=(math.radians(30), math.radians(20), math.radians(10))))]
        poses = [((0.3, 0, 0), (0, 0, 0)), ((5, -2, 1), (0.7, 0.3, -0.4))]
        dimss = [(4, 0.5, 2), (0.2, 3, 0.2)]
        for sname, shape in shapes:
            for pos, ang in poses:
                for dims in dimss:
                    o = Object._with(position=Vector(*pos), shape=shape, width=dims[0], length=dims[1], height=dims[2], yaw=ang[0], pitch=ang[1], roll=ang[2])
                    regs = [("occupiedSpace (precomputed scaled shape)", o.occupiedSpace)]
                    regs.append(("region with _shape only", MeshVolumeRegion(mesh=shape.mesh, dimensions=dims, position=Vector(*pos), rotation=o.orientation, centerMesh=False, _internal=True, _isConvex=shape.isConvex, _shape=shape)))
                    for rname, Rg in regs:
                        far = float(numpy.max(numpy.linalg.norm(Rg.mesh.vertices - numpy.array(pos), axis=1)))
                        got = float(Rg._circumradius)
                        if got < far - 1e-9 * max(1.0, far):
                            return f"{sname} {dims} at {pos}, yaw/pitch/roll {ang}: {rname}._circumradius = {got:.6g} but a vertex of its mesh is {far:.6g} from its position, so the bounding-sphere pass of intersects (K1) can reject overlapping solids"
        return None

    reg.add(
        C.Contract(
            f"{RG}:MeshVolumeRegion._circumradius",
            params=dict(self=C.Const(None)),
            setup=setup,
            post=post,
            inline_all=True,
            replay=replay,
            bounded=True,
            note="`_scaledShape` and `_shape` arms; mesh of 2 vertices (symbolic); relative to T-transform (how MeshRegion.mesh is obtained from the precomputed mesh) and A-rotation-norm",
            properties=("C04",),
        ),
        key=f"{RG}:MeshVolumeRegion._circumradius[shape arms]",
    )
