"""Sidecar contracts for the overlap tests of scenic.core.object_types / regions (C04), relative to an axiomatised
geometry kernel.

The multi-pass procedures are verified *relative to kernel axioms written once* (K1..K8 below, all listed as trusted):
an abstract truth value `overlap(self, other)` is constrained by the facts each pass relies on, and every `return` of
the procedure must agree with it.  Planar boxes are treated exactly: a planar box is the prism over its bounding
polygon between z - h/2 and z + h/2, so `overlap` is the existence of a common point."""
import z3

from pyvc import contracts as C
from pyvc import models_shapely as MS
from pyvc.interp import BuiltinFn
from pyvc.values import PList, PObj, SV, arith, compare, sv_and, sv_implies, sv_ite, sv_not, sv_or, tobool, toz3

from .common import make_vector, repo_class
from .regions import RC, RG, dist3sq, iff, init_samplable, install_stubs, mem3, mk_polygonal, probe, sq

OT = "scenic.core.object_types"
_R = z3.RealSort()

KERNEL = [
    ("K-prism", "a planar box object (BoxShape, pitch = roll = 0) occupies exactly the prism over its _boundingPolygon between position.z - height/2 and position.z + height/2"),
    ("K1-circumball", "a MeshVolumeRegion lies within the ball of radius _circumradius about its position: centre distance > R1 + R2 implies no overlap"),
    ("K2-interior-balls", "for precomputed shapes the ball of radius inradius about _interiorPoint lies within the region and the ball of radius circumradius about it contains the region"),
    ("K3-aabb", "overlapping solids have overlapping axis-aligned bounding boxes (mesh.bounds) in every axis"),
    ("K4-fcl-surface", "fcl.collide reports a surface collision only if the solids overlap"),
    ("K5-fcl-convex", "for two convex solids fcl.collide also detects containment: no collision implies no overlap"),
    ("K6-single-body", "without surface collision, two single-body solids overlap exactly when one contains the other's interior point"),
    ("K7-boolean", "the exhaustive pass is the definition: self.intersect(other) is `nowhere` exactly when the solids do not overlap; occupiedSpace.intersects is exact"),
]


def register(reg):
    install_stubs(reg)
    for n, t in KERNEL:
        reg.trust(n, t)
    register_object_intersects(reg)
    register_volume_intersects(reg)


def hypot_of(eng, name, sqsum):
    d = eng.fresh_real(name)
    eng.assume(sv_and(compare(">=", d, 0), compare("==", sq(d), sqsum)))
    return d


# ===================================================================================================
# Object.intersects: planar-box fast paths


def register_object_intersects(reg):
    OBJ = lambda: repo_class(f"{OT}:Object")
    KINDS = ["planar box", "other object", "PolygonalRegion", "other region", "not a region"]

    def mk_object(I, tag, planar, log):
        eng = I.eng
        o = PObj(OBJ(), tag=tag)
        init_samplable(o)
        pos = tuple(eng.fresh_real(f"{tag}.position.{c}") for c in "xyz")
        h = eng.fresh_real(f"{tag}.height")
        eng.assume(compare(">", h, 0))
        eng.input_syms.append((f"{tag}.position", C.TupleOf(C.Real(), C.Real(), C.Real()), pos))
        eng.input_syms.append((f"{tag}.height", C.Real(), h))
        poly = MS.make_geom(I, "Polygon", empty=False, tag=f"{tag}._boundingPolygon")
        space = PObj(RC("MeshVolumeRegion"), tag=f"{tag}.occupiedSpace")
        init_samplable(space)

        def exhaustive(other_space, *a, **k):
            r = eng.fresh_bool(f"{tag}.occupiedSpace.intersects")
            log.append((space, other_space, r))
            return r

        space.fields["intersects"] = BuiltinFn("intersects", exhaustive)
        o.fields.update(_isPlanarBox=planar, position=make_vector(*pos), height=h, _boundingPolygon=poly, occupiedSpace=space)
        if planar:
            half = arith("/", h, 2)
            o.fields["_mem3"] = lambda p: sv_and(MS.gmem(poly, p[0], p[1]), compare("<=", arith("-", pos[2], half), p[2]), compare("<=", p[2], arith("+", pos[2], half)))  # K-prism
        return o

    def setup(I, env):
        eng = I.eng
        log = []
        planar = eng.choose(2, "self is a planar box?") == 1
        A = mk_object(I, "self", planar, log)
        kind = KINDS[eng.choose(len(KINDS), "class of other")]
        eng.input_syms.append(("kind", C.Const(None), f"self {'planar box' if planar else 'general'} / other {kind}"))
        if kind == "planar box":
            B = mk_object(I, "other", True, log)
        elif kind == "other object":
            B = mk_object(I, "other", False, log)
        elif kind == "PolygonalRegion":
            B = mk_polygonal(I, "other")
        elif kind == "other region":
            B = PObj(RC("MeshVolumeRegion"), tag="other")
            init_samplable(B)
        else:
            B = 5
        env.vars.update(self=A, other=B, _log=log, _kind=kind, _planar=planar, _p=probe(I))

    def post(I, env, outcome):
        eng = I.eng
        oname = "object_types.Object.intersects"
        A, B, log, kind, planar, p = env.vars["self"], env.vars["other"], env.vars["_log"], env.vars["_kind"], env.vars["_planar"], env.vars["_p"]
        if outcome[0] == "raise":
            eng.check(f"{oname}#raises.TypeError.only_for_non_regions", kind == "not a region")
            return
        eng.check(f"{oname}#raises.TypeError.must_for_non_regions", kind != "not a region")
        res = outcome[1]
        za, ha = A.fields["position"].fields["coordinates"][2], A.fields["height"]
        exact = planar and kind in ("planar box", "PolygonalRegion")
        if exact and not log:
            # fast path taken: the answer must be `the two point sets share a point`
            ga = A.fields["_boundingPolygon"]
            gb = B.fields["_boundingPolygon"] if kind == "planar box" else B.fields["_polygons"]
            eng.check(f"{oname}#fastpath.no_common_point_when_false[{kind}]", sv_implies(sv_and(mem3(I, A, p), mem3(I, B, p)), res))
            wit = [w for (g, r, w) in ga.fields.get("_intersects_log", []) if g is gb]
            if wit:
                if kind == "planar box":
                    zb, hb = B.fields["position"].fields["coordinates"][2], B.fields["height"]
                    la, lb = arith("-", za, arith("/", ha, 2)), arith("-", zb, arith("/", hb, 2))
                    zw = sv_ite(compare(">=", la, lb), la, lb)
                else:
                    zw = B.fields["z"]
                w3 = (wit[0][0], wit[0][1], zw)
                eng.check(f"{oname}#fastpath.common_point_when_true[{kind}]", sv_implies(res, sv_and(mem3(I, A, w3), mem3(I, B, w3))))
            else:
                eng.check(f"{oname}#fastpath.common_point_when_true[{kind}]", sv_not(res))
            return
        # default case: the exhaustive test on the occupied spaces (K7), exactly once, with the right operands
        want_other = B.fields["occupiedSpace"] if kind in ("planar box", "other object") else B
        ok = len(log) == 1 and log[0][0] is A.fields["occupiedSpace"] and log[0][1] is want_other
        eng.check(f"{oname}#default.exhaustive_test_on_the_occupied_spaces", ok)
        if ok:
            eng.check(f"{oname}#default.returns_the_exhaustive_answer", iff(res, log[0][2]))
        if exact and kind == "PolygonalRegion":
            # the fast path may be skipped only when the polygon's plane misses the box
            eng.check(f"{oname}#default.fast_path_skipped_only_when_the_plane_misses_the_box", compare(">", sq(arith("-", za, B.fields["z"])), sq(arith("/", ha, 2))))
        if exact and kind == "planar box":
            eng.check(f"{oname}#default.planar_boxes_always_take_the_fast_path", False)

    def replay(inputs, clause):
        return None

    reg.add(
        C.Contract(
            f"{OT}:Object.intersects",
            params=dict(self=C.Const(None), other=C.Const(None)),
            setup=setup,
            post=post,
            raises=[C.Raises("TypeError", mode="may")],
            inline_all=True,
            properties=("C04",),
        )
    )


# ===================================================================================================
# MeshVolumeRegion.intersects(MeshVolumeRegion): the five passes


def register_volume_intersects(reg):
    def mk_volume(I, tag, K):
        eng = I.eng
        r = PObj(RC("MeshVolumeRegion"), tag=tag)
        init_samplable(r)
        pos = tuple(eng.fresh_real(f"{tag}.position.{c}") for c in "xyz")
        R = eng.fresh_real(f"{tag}._circumradius")
        eng.assume(compare(">=", R, 0))
        mesh = MS.make_mesh(I, f"{tag}.mesh")
        ip = tuple(eng.fresh_real(f"{tag}._interiorPoint.{c}") for c in "xyz")
        inr, cir = eng.fresh_real(f"{tag}.inradius"), eng.fresh_real(f"{tag}.circumradius")
        eng.assume(sv_and(compare(">=", inr, 0), compare(">=", cir, inr)))
        convex = eng.fresh_bool(f"{tag}.isConvex")
        bodies = eng.fresh_int(f"{tag}._bodyCount")
        eng.assume(compare(">=", bodies, 1))
        contains_other = eng.fresh_bool(f"{tag}.contains_interior_point_of_the_other")
        mesh.fields["contains"] = BuiltinFn("contains", lambda pts: (K["log"].append(("contains", tag)), PList([contains_other]))[1])
        fcl_geom = PObj("FclGeom", tag=f"{tag}.fclgeom")
        fcl_geom.fields["_collide"] = lambda a, b: (K["log"].append(("fcl",)), K["sc"])[1]
        r.fields.update(position=make_vector(*pos), _circumradius=R, mesh=mesh, _interiorPoint=MS.NDArr((3,), list(ip)), _interiorPointRadii=(inr, cir), isConvex=convex, _bodyCount=bodies, _fclData=(fcl_geom, None), orientation=None, name=None)
        r.vals = dict(pos=pos, R=R, ip=ip, inr=inr, cir=cir, convex=convex, bodies=bodies, contains_other=contains_other, lo=mesh.fields["_lo"], hi=mesh.fields["_hi"])
        return r

    def setup(I, env):
        eng = I.eng
        K = dict(log=[], sc=eng.fresh_bool("fcl_surface_collision"), overlap=eng.fresh_bool("overlap"), empty=eng.fresh_bool("boolean_intersection_is_empty"))
        A, B = mk_volume(I, "self", K), mk_volume(I, "other", K)
        scaled = eng.choose(3, "precomputed shapes: both / only self / none")
        A.fields["_scaledShape"] = PObj("Shape", tag="shapeA") if scaled in (0, 1) else None
        B.fields["_scaledShape"] = PObj("Shape", tag="shapeB") if scaled == 0 else None

        def boolean_intersect(other, *a, **k):
            K["log"].append(("intersect",))
            if eng.branch(tobool(K["empty"])):
                e = PObj(RC("EmptyRegion"), tag="nowhere")
                init_samplable(e)
                return e
            t = PObj(RC("MeshVolumeRegion"), tag="intersection")
            init_samplable(t)
            return t

        A.fields["intersect"] = BuiltinFn("intersect", boolean_intersect)
        a, b, ov, sc = A.vals, B.vals, K["overlap"], K["sc"]
        dc = hypot_of(eng, "centre_distance", dist3sq(a["pos"], b["pos"]))
        di = hypot_of(eng, "interior_point_distance", dist3sq(a["ip"], b["ip"]))
        eng.assume(sv_implies(compare(">", dc, arith("+", a["R"], b["R"])), sv_not(ov)))  # K1
        if scaled == 0:  # K2 (both shapes precomputed)
            eng.assume(sv_implies(compare("<", di, arith("+", a["inr"], b["inr"])), ov))
            eng.assume(sv_implies(compare(">", di, arith("+", a["cir"], b["cir"])), sv_not(ov)))
        eng.assume(sv_implies(ov, sv_and(*[sv_and(compare("<=", a["lo"][k], b["hi"][k]), compare("<=", b["lo"][k], a["hi"][k])) for k in range(3)])))  # K3
        eng.assume(sv_implies(sc, ov))  # K4
        eng.assume(sv_implies(sv_and(a["convex"], b["convex"], sv_not(sc)), sv_not(ov)))  # K5
        eng.assume(sv_implies(sv_and(sv_not(sc), compare("==", a["bodies"], 1), compare("==", b["bodies"], 1)), iff(ov, sv_or(a["contains_other"], b["contains_other"]))))  # K6
        eng.assume(iff(K["empty"], sv_not(ov)))  # K7
        env.vars.update(self=A, other=B, triedReversed=False, _K=K)

    def post(I, env, outcome):
        eng = I.eng
        oname = "regions.MeshVolumeRegion.intersects[volume]"
        if outcome[0] != "return":
            return
        K = env.vars["_K"]
        log = [e[0] for e in K["log"]]
        if "intersect" in log:
            stage = "pass5_boolean_intersection"
        elif "contains" in log:
            stage = "pass4_single_body_interior_points"
        elif "fcl" in log:
            stage = "pass3_fcl_surface_collision"
        else:
            stage = "pass1_2_bounding_balls_and_boxes"
        eng.check(f"{oname}#{stage}.result_agrees_with_overlap", iff(I.truth(outcome[1]), K["overlap"]))

    reg.add(
        C.Contract(
            f"{RG}:MeshVolumeRegion.intersects",
            params=dict(self=C.Const(None), other=C.Const(None), triedReversed=C.Const(False)),
            setup=setup,
            post=post,
            inline_all=True,
            note="volume/volume arm; relative to the kernel axioms K1-K7",
            properties=("C04",),
        ),
        key=f"{RG}:MeshVolumeRegion.intersects[volume]",
    )
