"""Sidecar contracts for the dependency `rv_ltl` (C11): the monitors Scenic's temporal requirements are compiled to.

The dependency's source is on disk (`/venv/lib/python3.12/site-packages/rv_ltl`), so its assumed contract is CHECKED here,
not trusted.  Nothing in this file copies its code: every run re-reads `rv_ltl/monitor.py` and `rv_ltl/b4.py`.

Specification (from the property statement: finite-trace RV-LTL, strong next, strong until)
-------------------------------------------------------------------------------------------
B4 = {FALSE=1, PRESUMABLY_FALSE=2, PRESUMABLY_TRUE=3, TRUE=4}; truthy = value >= 3.  For a trace w of length n
(`last = n-1`) and a position 0 <= i <= last:

    sat(phi, w, i)   two-valued finite-trace LTL:   next phi  is false at the last position (strong next),
                     phi until psi  needs a position k in [i, last] with psi (strong until).
    sem4(phi, w, i)  the four-valued compositional reference:
        atom a            TRUE if w[a][i] else FALSE
        not / and / or    5 - v / min / max          implies(f, g) = or(not f, g)
        next f            sem4(f, i+1) if i+1 <= last else PRESUMABLY_FALSE
        f until g         max( max_{k in [i,last]} min(sem4(g,k), min_{j in [i,k)} sem4(f,j)),      -- g seen at k
                               min(PRESUMABLY_FALSE, min_{j in [i,last]} sem4(f,j)) )               -- g still to come
        eventually f      true until f                 always f = not eventually not f

sem4 is *impartial and anticipatory in the sound direction* (lemmas checked below on the bounded trace space):
    truthy(sem4(phi,w,i))  <=>  sat(phi,w,i)                        (end-exactness)
    sem4 = FALSE  =>  no extension of w satisfies phi at i           (early rejection is sound)
    sem4 = TRUE   =>  every extension of w satisfies phi at i        (needed below a `not`)

What the property needs from a monitor is *refinement* of sem4, `v <= sem4` in the information order:
    truthy(v) <=> truthy(sem4)      v == FALSE => sem4 == FALSE      v == TRUE => sem4 == TRUE
(a monitor may answer PRESUMABLY_x where sem4 already knows x -- that only postpones a rejection, which the property
allows ("rejected before the end ONLY when no continuation could satisfy the formula") -- but it must never answer a
definite value sem4 does not justify, and its truthiness must be exact).  min, max and 5-v are monotone for this order,
so per-class refinement given refining children composes to refinement for the whole tree.

Per class the obligation is therefore `_evaluate_at(i)` vs the sem4 equation of that operator over ARBITRARY child
values (abstract children: uninterpreted four-valued functions of the position), for traces of SYMBOLIC length.
For Atomic/Not/And/Or/Next/Implies the stronger `returns-spec` (equality) is proved.  UntilMonitor needs two loop invariants;
its obligations are split by `i == 0` (the only way a top-level until is evaluated) and `i > 0` (until below next/always/
eventually/until).

Bounded part (`bounded=True`): the sugar monitors (Always/Eventually/Implies: real constructor + real evaluation, trace
length <= 5, child values symbolic) and the end-to-end families (real proposition -> create_monitor -> update* -> evaluate on
all traces of length <= N over the atoms, checked against `sat` directly, including all extensions up to length N)."""
import ast
import itertools

import z3

from pyvc import contracts as C
from pyvc import extract
from pyvc import models_ltl as ML
from pyvc.interp import BuiltinFn, Env, Frame, FuncVal, SymRaise
from pyvc.values import PDict, PList, PObj, PSet, PyvcError, SSeq, SV, tobool, tonum

from .common import repo_class

MON = "rv_ltl.monitor"
PROP = "rv_ltl.proposition"
NAMES = ML.B4_NAMES
FALSE, PF, PT, TRUE = 1, 2, 3, 4


# ------------------------------------------------------------------------------------------------ z3 helpers
def zmin(a, b):
    a, b = _z(a), _z(b)
    return z3.If(a <= b, a, b)


def zmax(a, b):
    a, b = _z(a), _z(b)
    return z3.If(a >= b, a, b)


def _z(x):
    if isinstance(x, SV):
        return x.e
    if isinstance(x, bool):
        return z3.BoolVal(x)
    if isinstance(x, int):
        return z3.IntVal(x)
    return x


def zmin_all(xs, top=TRUE):
    r = z3.IntVal(top)
    for x in xs:
        r = zmin(r, x)
    return r


def zmax_all(xs, bot=FALSE):
    r = z3.IntVal(bot)
    for x in xs:
        r = zmax(r, x)
    return r


def refines(v, s):
    """the three refinement clauses of v against the reference value s, as z3 formulas"""
    v, s = _z(v), _z(s)
    return dict(
        truthy_iff_spec_truthy=(v >= PT) == (s >= PT),
        FALSE_only_if_spec_FALSE=z3.Implies(v == FALSE, s == FALSE),
        TRUE_only_if_spec_TRUE=z3.Implies(v == TRUE, s == TRUE),
    )


# ------------------------------------------------------------------------------------------------ formulas (spec side)
# phi ::= ("atom", name) | ("not", f) | ("and", f, g) | ("or", f, g) | ("implies", f, g) | ("next", f) | ("always", f)
#       | ("eventually", f) | ("until", f, g)


def show(f):
    op = f[0]
    if op == "atom":
        return f[1]
    if op in ("not", "next", "always", "eventually"):
        return f"{op} ({show(f[1])})" if f[1][0] != "atom" else f"{op} {show(f[1])}"
    return f"({show(f[1])}) {op} ({show(f[2])})" if op != "atom" else f[1]


def atoms_of(f):
    if f[0] == "atom":
        return [f[1]]
    out = []
    for g in f[1:]:
        for a in atoms_of(g):
            if a not in out:
                out.append(a)
    return out


def sat(f, w, i, n):
    """finite-trace LTL with strong next/until: z3 Bool (or python bool) for `w[0:n], i |= f`; w[a][t] are Bools"""
    op = f[0]
    if op == "atom":
        return _z(w[f[1]][i])
    if op == "not":
        return z3.Not(sat(f[1], w, i, n))
    if op == "and":
        return z3.And(sat(f[1], w, i, n), sat(f[2], w, i, n))
    if op == "or":
        return z3.Or(sat(f[1], w, i, n), sat(f[2], w, i, n))
    if op == "implies":
        return z3.Implies(sat(f[1], w, i, n), sat(f[2], w, i, n))
    if op == "next":
        return sat(f[1], w, i + 1, n) if i + 1 < n else z3.BoolVal(False)
    if op == "always":
        return z3.And(*[sat(f[1], w, k, n) for k in range(i, n)])
    if op == "eventually":
        return z3.Or(*[sat(f[1], w, k, n) for k in range(i, n)])
    if op == "until":
        return z3.Or(*[z3.And(sat(f[2], w, k, n), *[sat(f[1], w, j, n) for j in range(i, k)]) for k in range(i, n)])
    raise ValueError(op)


def sem4(f, w, i, n):
    """the four-valued reference (z3 Int term) -- see the module docstring"""
    op = f[0]
    if op == "atom":
        return z3.If(_z(w[f[1]][i]), z3.IntVal(TRUE), z3.IntVal(FALSE))
    if op == "not":
        return 5 - sem4(f[1], w, i, n)
    if op == "and":
        return zmin(sem4(f[1], w, i, n), sem4(f[2], w, i, n))
    if op == "or":
        return zmax(sem4(f[1], w, i, n), sem4(f[2], w, i, n))
    if op == "implies":
        return zmax(5 - sem4(f[1], w, i, n), sem4(f[2], w, i, n))
    if op == "next":
        return sem4(f[1], w, i + 1, n) if i + 1 < n else z3.IntVal(PF)
    if op == "until":
        L = [sem4(f[1], w, j, n) for j in range(i, n)]
        R = [sem4(f[2], w, k, n) for k in range(i, n)]
        return until4(L, R)
    if op == "eventually":
        R = [sem4(f[1], w, k, n) for k in range(i, n)]
        return until4([z3.IntVal(TRUE)] * len(R), R)
    if op == "always":
        R = [5 - sem4(f[1], w, k, n) for k in range(i, n)]
        return 5 - until4([z3.IntVal(TRUE)] * len(R), R)
    raise ValueError(op)


def until4(L, R):
    """sem4 equation of until over the child values at positions i..last (lists of equal length)"""
    seen = [zmin(R[k], zmin_all(L[:k])) for k in range(len(R))]
    return zmax(zmax_all(seen), zmin(PF, zmin_all(L)))


# ------------------------------------------------------------------------------------------------ abstract children
class ChildFn:
    """An abstract sub-monitor: its value at position k is an arbitrary B4 value, encoded by two uninterpreted
    predicates so that no range axiom is needed: value(k) = hi(k) ? (lo(k) ? TRUE : PT) : (lo(k) ? PF : FALSE)."""

    def __init__(self, name, definite=False):
        self.name = name
        self.hi = z3.Function(name + ".hi", z3.IntSort(), z3.BoolSort())
        self.lo = z3.Function(name + ".lo", z3.IntSort(), z3.BoolSort())
        self.definite = definite  # two-valued child (a non-temporal sub-formula): TRUE/FALSE only

    def z(self, k):
        k = _z(k) if not isinstance(k, int) else z3.IntVal(k)
        if self.definite:
            return z3.If(self.hi(k), z3.IntVal(TRUE), z3.IntVal(FALSE))
        return z3.If(self.hi(k), z3.If(self.lo(k), z3.IntVal(TRUE), z3.IntVal(PT)), z3.If(self.lo(k), z3.IntVal(PF), z3.IntVal(FALSE)))

    def table(self, eng, model, n):
        out = []
        for k in range(max(0, min(n, 12))):
            r = model.eval(self.z(k), model_completion=True)
            out.append(NAMES.get(r.as_long(), str(r)))
        return out


class ChildTableT(C.Type):
    """counter-model reader for an abstract child: its values at positions 0..last"""

    def __init__(self, fn, last):
        self.fn, self.last = fn, last

    def fresh(self, eng, name, I=None):
        return self.fn

    def concretize(self, eng, model, val):
        n = eng.eval_model(model, self.last) if isinstance(self.last, SV) else self.last
        return self.fn.table(eng, model, int(n) + 1)


def child_monitor(I, fn, last, cname, calls=None):
    """heap object standing for a conforming sub-monitor; evaluating it outside the trace is an obligation of the caller"""
    o = PObj("AbstractMonitor", tag=fn.name)

    def evaluate_at(k=0):
        inside = z3.And(_z(k) >= 0, _z(k) <= _z(last)) if isinstance(k, SV) or isinstance(last, SV) else z3.BoolVal(0 <= k <= last)
        if not I.in_spec:
            I.eng.check(f"{cname}#call:{fn.name}._evaluate_at.requires[position inside the trace]", inside, kind="precondition")
            I.eng.assume(inside)
            if calls is not None:
                calls.append((fn.name, k))
        return ML.b4(SV(z3.simplify(fn.z(k))) if True else None)

    o.fields["_evaluate_at"] = BuiltinFn(fn.name + "._evaluate_at", evaluate_at)
    o.fields["_last_index"] = last
    o.fields["_flatten"] = BuiltinFn(fn.name + "._flatten", lambda: PList([o]))
    o.fields["_update_internal"] = BuiltinFn(fn.name + "._update_internal", lambda m: None)
    return o


def b4val(x):
    v = ML.b4_value(x)
    return _z(v)


def mon_obj(clsname, last, **fields):
    o = PObj(repo_class(f"{MON}:{clsname}"), tag=clsname)
    o.fields["_last_index"] = last
    o.fields.update(fields)
    return o


class driver_frame:
    """Lets contract setup/post code run real functions of the carrier modules in place (all callees interpreted)."""

    def __init__(self, I, contract, module=MON):
        self.I, self.contract, self.module = I, contract, module

    def __enter__(self):
        node = ast.parse("lambda: None", mode="eval").body
        f = FuncVal(node, extract.get_module(self.module), None, None)
        fr = Frame(f, self.contract)
        fr.env = Env(f.module)
        self.I.frames.append(fr)
        self.I.call_depth += 1
        return self

    def __exit__(self, *a):
        self.I.call_depth -= 1
        self.I.frames.pop()
        return False


def sym_pos(eng):
    """symbolic trace: last >= 0, 0 <= i <= last"""
    last = eng.fresh_int("last")
    i = eng.fresh_int("i")
    eng.assume(z3.And(last.e >= 0, i.e >= 0, i.e <= last.e))
    eng.input_syms.append(("last", C.Int(), last))
    eng.input_syms.append(("i", C.Int(), i))
    return last, i


# ------------------------------------------------------------------------------------------------ replay helpers (real rv_ltl)
def _real_b4(name):
    import rv_ltl

    return getattr(rv_ltl.B4, name) if isinstance(name, str) else rv_ltl.B4(name)


def _scripted(table):
    """A real rv_ltl Monitor subclass whose value at each position is scripted (test double for a CHILD only)."""
    from rv_ltl.monitor import Monitor

    class Scripted(Monitor):
        def __init__(self, tab):
            super().__init__()
            self.tab = tab

        def _evaluate_at(self, i=0):
            if not (0 <= i < len(self.tab)):
                raise IndexError(f"child evaluated at position {i} outside the trace 0..{len(self.tab) - 1}")
            return _real_b4(self.tab[i])

    return Scripted(list(table))


def _py_until4(L, R):
    vals = [min([R[k]] + L[:k]) for k in range(len(R))]
    return max(vals + [min([PF] + L)])


def _py_refine_violation(v, s, clause):
    """text if value v does not refine reference s for the given clause ('*' = all)"""
    want = clause_key(clause)
    if want in ("*", "truthy_iff_spec_truthy", "spec_truthy_only_if_truthy", "truthy_only_if_spec_truthy", "returns-spec") and (v >= PT) != (s >= PT):
        return f"verdict {NAMES[v]} but the strong finite-trace semantics gives {NAMES[s]} (truthiness differs)"
    if want in ("*", "FALSE_only_if_spec_FALSE", "returns-spec") and v == FALSE and s != FALSE:
        return f"verdict FALSE (would reject now) but the reference is {NAMES[s]}: a continuation can still satisfy the formula"
    if want in ("*", "TRUE_only_if_spec_TRUE", "returns-spec") and v == TRUE and s != TRUE:
        return f"verdict TRUE but the reference is {NAMES[s]}"
    if want == "returns-spec" and v != s:
        return f"verdict {NAMES[v]} but the reference is {NAMES[s]}"
    return None


def clause_key(clause):
    c = clause.split("#")[-1]
    for p in ("ensures.",):
        if c.startswith(p):
            c = c[len(p) :]
    if "[" in c:
        c = c[: c.index("[")]
    return c


def _num(x):
    return {v: k for k, v in NAMES.items()}[x] if isinstance(x, str) else int(x)


def register(reg):
    ML.install(reg)
    B4T = ML.b4_type()
    register_b4(reg, B4T)
    register_core(reg, B4T)
    register_until(reg, B4T)
    register_update(reg, B4T)
    register_sugar(reg, B4T)
    register_end_to_end(reg, B4T)




def short_of(target, key=None):
    mod, qual = target.split(":", 1)
    s = f"{mod.split('.')[-1]}.{qual}"
    if key:
        s += key[len(target) :]
    return s


# ================================================================================================ (0) the B4 algebra
def register_b4(reg, B4T):
    b4 = ML.B4

    def replay_b4(inputs, clause):
        import rv_ltl

        B = rv_ltl.B4
        if {m.name: m.value for m in B} != dict(TRUE=4, PRESUMABLY_TRUE=3, PRESUMABLY_FALSE=2, FALSE=1):
            return f"members {[(m.name, m.value) for m in B]}"
        for x in B:
            if (~x).value != 5 - x.value:
                return f"~{x} is {~x}"
            if x.is_truthy != (x.value >= 3) or x.is_falsy != (x.value <= 2):
                return f"{x}.is_truthy={x.is_truthy} is_falsy={x.is_falsy}"
            for y in B:
                if (x & y).value != min(x.value, y.value) or (x | y).value != max(x.value, y.value):
                    return f"{x} & {y} = {x & y}, {x} | {y} = {x | y}"
        if B.from_bool(True) is not B.TRUE or B.from_bool(False) is not B.FALSE:
            return "from_bool(True/False) is not TRUE/FALSE"
        return None

    def members_post(I, env, outcome):
        I.eng.check("b4.B4#members.TRUE=4_PRESUMABLY_TRUE=3_PRESUMABLY_FALSE=2_FALSE=1", ML.enum_members(b4) == dict(TRUE=4, PRESUMABLY_TRUE=3, PRESUMABLY_FALSE=2, FALSE=1))

    common = dict(replay=replay_b4, properties=("C11",))
    reg.add(C.Contract(f"{b4}.__and__", params=dict(self=B4T, value=B4T), ensures={"is_min": "result.value == min(self.value, value.value)"}, result=B4T, post=members_post, **common))
    reg.add(C.Contract(f"{b4}.__or__", params=dict(self=B4T, value=B4T), ensures={"is_max": "result.value == max(self.value, value.value)"}, result=B4T, **common))
    reg.add(C.Contract(f"{b4}.__invert__", params=dict(self=B4T), ensures={"is_mirror": "result.value == 5 - self.value"}, result=B4T, **common))
    reg.add(C.Contract(f"{b4}.is_truthy", params=dict(self=B4T), ensures={"iff_TRUE_or_PRESUMABLY_TRUE": "result == (self.value >= 3)"}, result=C.Bool(), **common))
    reg.add(C.Contract(f"{b4}.is_falsy", params=dict(self=B4T), ensures={"iff_FALSE_or_PRESUMABLY_FALSE": "result == (self.value <= 2)"}, result=C.Bool(), **common))
    reg.add(C.Contract(f"{b4}.from_bool", params=dict(b=C.Bool()), ensures={"TRUE_iff_b": "result.value == (4 if b else 1)"}, result=B4T, **common))


# ================================================================================================ (1) Atomic / Not / And / Or / Next / constant
def _tables(inputs, names, last):
    out = {}
    for n in names:
        t = [_num(x) for x in inputs.get(n, [])][: last + 1]
        t += [FALSE] * (last + 1 - len(t))
        out[n] = t
    return out


def register_core(reg, B4T):
    # ---------------------------------------------------------------- AtomicMonitor._evaluate_at
    tgt = f"{MON}:AtomicMonitor._evaluate_at"
    cn = short_of(tgt)
    H = z3.Function("history", z3.IntSort(), z3.BoolSort())

    class HistT(C.Type):
        def __init__(self, last):
            self.last = last

        def concretize(self, eng, model, val):
            n = int(eng.eval_model(model, self.last)) + 1
            return [bool(z3.is_true(model.eval(H(z3.IntVal(k)), model_completion=True))) for k in range(min(n, 12))]

    def setup_atomic(I, env):
        last, i = sym_pos(I.eng)
        hist = SSeq(SV(last.e + 1), lambda k: SV(H(tonum(k))), "list", "history")
        I.eng.input_syms.append(("history", HistT(last), hist))
        env.vars["self"] = mon_obj("AtomicMonitor", last, _history=hist, proposition=PObj("AtomicProposition", tag="ap"))
        env.vars["i"] = i

    def post_atomic(I, env, outcome):
        if outcome[0] != "return":
            return
        i = env.vars["i"]
        I.eng.check(f"{cn}#ensures.returns-spec", z3.And(ML.is_b4(outcome[1]), b4val(outcome[1]) == z3.If(H(i.e), z3.IntVal(TRUE), z3.IntVal(FALSE))))

    def replay_atomic(inputs, clause):
        from rv_ltl import Atomic

        last, i = int(inputs["last"]), int(inputs["i"])
        h = list(inputs.get("history", []))[: last + 1]
        h += [False] * (last + 1 - len(h))
        m = Atomic(identifier="a").create_monitor()
        for b in h:
            m.update({"a": b})
        v = m._evaluate_at(i).value
        s = TRUE if h[i] else FALSE
        return None if v == s else f"AtomicMonitor fed {h}: _evaluate_at({i}) = {NAMES[v]}, expected {NAMES[s]}"

    reg.add(C.Contract(tgt, params=dict(self=C.Const(None), i=C.Const(None)), setup=setup_atomic, post=post_atomic, replay=replay_atomic, properties=("C11",)))

    # ---------------------------------------------------------------- _ConstantTrueMonitor
    tgt = f"{MON}:_ConstantTrueMonitor._evaluate_at"
    cn0 = short_of(tgt)

    def setup_const(I, env):
        last, i = sym_pos(I.eng)
        env.vars["self"] = mon_obj("_ConstantTrueMonitor", last)
        env.vars["i"] = i

    def post_const(I, env, outcome):
        if outcome[0] == "return":
            I.eng.check(f"{cn0}#ensures.returns-spec", z3.And(ML.is_b4(outcome[1]), b4val(outcome[1]) == TRUE))

    reg.add(C.Contract(tgt, params=dict(self=C.Const(None), i=C.Const(None)), setup=setup_const, post=post_const, properties=("C11",)))

    # ---------------------------------------------------------------- Not / Next / And / Or over abstract children
    def unary(clsname, spec, pyspec):
        tgt = f"{MON}:{clsname}._evaluate_at"
        cn = short_of(tgt)
        P = ChildFn("op")

        def setup(I, env):
            last, i = sym_pos(I.eng)
            I.eng.input_syms.append(("op", ChildTableT(P, last), P))
            env.vars["self"] = mon_obj(clsname, last, op=child_monitor(I, P, last, cn))
            env.vars["i"] = i
            env.vars["_last"] = last

        def post(I, env, outcome):
            if outcome[0] != "return":
                return
            i, last = env.vars["i"], env.vars["_last"]
            I.eng.check(f"{cn}#ensures.returns-spec", z3.And(ML.is_b4(outcome[1]), b4val(outcome[1]) == spec(P, i.e, last.e)))

        def replay(inputs, clause):
            import rv_ltl.monitor as rm

            last, i = int(inputs["last"]), int(inputs["i"])
            if last > 11:
                return None
            t = _tables(inputs, ["op"], last)["op"]
            m = getattr(rm, clsname)(_scripted(t))
            m._last_index = last
            v = m._evaluate_at(i).value
            s = pyspec(t, i, last)
            return None if v == s else f"{clsname} over a child with values {[NAMES[x] for x in t]}: _evaluate_at({i}) = {NAMES[v]}, expected {NAMES[s]}"

        reg.add(C.Contract(tgt, params=dict(self=C.Const(None), i=C.Const(None)), setup=setup, post=post, replay=replay, inline=["Monitor._is_future"], properties=("C11",)))

    unary("NotMonitor", lambda P, i, last: 5 - P.z(i), lambda t, i, last: 5 - t[i])
    unary("NextMonitor", lambda P, i, last: z3.If(i + 1 <= last, P.z(i + 1), z3.IntVal(PF)), lambda t, i, last: t[i + 1] if i + 1 <= last else PF)

    def variadic(clsname, fold, unit, pyfold):
        tgt = f"{MON}:{clsname}._evaluate_at"
        cn = short_of(tgt)
        Ps = [ChildFn(f"ops{k}") for k in range(3)]

        def setup(I, env):
            last, i = sym_pos(I.eng)
            n = I.eng.choose(4, "number of operands")
            kids = []
            for P in Ps[:n]:
                I.eng.input_syms.append((P.name, ChildTableT(P, last), P))
                kids.append(child_monitor(I, P, last, cn))
            env.vars["self"] = mon_obj(clsname, last, ops=tuple(kids))
            env.vars["i"] = i
            env.vars["_n"] = n

        def post(I, env, outcome):
            if outcome[0] != "return":
                return
            i, n = env.vars["i"], env.vars["_n"]
            s = z3.IntVal(unit)
            for P in Ps[:n]:
                s = fold(s, P.z(i.e))
            I.eng.check(f"{cn}#ensures.returns-spec", z3.And(ML.is_b4(outcome[1]), b4val(outcome[1]) == s))

        def replay(inputs, clause):
            import rv_ltl.monitor as rm

            last, i = int(inputs["last"]), int(inputs["i"])
            if last > 11:
                return None
            names = [P.name for P in Ps if P.name in inputs]
            tabs = _tables(inputs, names, last)
            m = getattr(rm, clsname)(*[_scripted(tabs[n]) for n in names])
            m._last_index = last
            v = m._evaluate_at(i).value
            s = pyfold([unit] + [tabs[n][i] for n in names])
            return None if v == s else f"{clsname} over children valued {[NAMES[tabs[n][i]] for n in names]} at {i}: {NAMES[v]}, expected {NAMES[s]}"

        reg.add(C.Contract(tgt, params=dict(self=C.Const(None), i=C.Const(None)), setup=setup, post=post, replay=replay, bounded=True, note="0..3 operands (Scenic builds n-ary and/or from the source's operand list); operand values and trace length symbolic", properties=("C11",)))

    variadic("AndMonitor", zmin, TRUE, min)
    variadic("OrMonitor", zmax, FALSE, max)


# ================================================================================================ (2) UntilMonitor
UNTIL_TEXT = "UntilMonitor._evaluate_at disagrees with strong until"


def _public_until(Lt, Rt, i):
    """`next^i (a until b)` through the PUBLIC api of the real rv_ltl, a/b fed from two-valued tables -> final verdict value"""
    import rv_ltl

    a, b = rv_ltl.Atomic(identifier="a"), rv_ltl.Atomic(identifier="b")
    f = rv_ltl.Until(a, b)
    for _ in range(i):
        f = rv_ltl.Next(f)
    m = f.create_monitor()
    for x, y in zip(Lt, Rt):
        m.update({"a": x == TRUE, "b": y == TRUE})
    return m.evaluate().value


def replay_until(inputs, clause):
    from rv_ltl.monitor import UntilMonitor

    last, i = int(inputs["last"]), int(inputs["i"])
    if last > 11 or not (0 <= i <= last):
        return None
    tabs = _tables(inputs, ["lhs", "rhs"], last)
    Lt, Rt = tabs["lhs"], tabs["rhs"]
    m = UntilMonitor(_scripted(Lt), _scripted(Rt))
    m._last_index = last
    m.lhs._last_index = m.rhs._last_index = last
    v = m._evaluate_at(i).value
    s = _py_until4(Lt[i:], Rt[i:])
    key = clause_key(clause)
    bad = None
    if key in ("*", "truthy_only_if_spec_truthy") and v >= PT and s < PT:
        bad = "accepts although strong until does not hold"
    if key in ("*", "spec_truthy_only_if_truthy") and s >= PT and v < PT:
        bad = "does not accept although strong until holds"
    if key in ("*", "TRUE_only_if_spec_TRUE") and v == TRUE and s != TRUE:
        bad = "answers TRUE although not every continuation satisfies the until"
    definite = all(x in (TRUE, FALSE) for x in Rt)
    if key in ("*", "FALSE_only_if_spec_FALSE") or (key == "FALSE_only_if_spec_FALSE_given_non_temporal_rhs" and definite):
        if v == FALSE and s != FALSE:
            bad = "answers FALSE (reject now) although a continuation can still satisfy the until"
    if bad is None:
        return None
    txt = f"{UNTIL_TEXT}: lhs values {[NAMES[x] for x in Lt]}, rhs values {[NAMES[x] for x in Rt]}, _evaluate_at({i}) = {NAMES[v]}, reference {NAMES[s]}: {bad}"
    if all(x in (TRUE, FALSE) for x in Lt + Rt):
        pv = _public_until(Lt, Rt, i)
        txt += f"; public API: `{'next ' * i}(a until b)` on a={''.join('T' if x == TRUE else 'F' for x in Lt)} b={''.join('T' if x == TRUE else 'F' for x in Rt)} evaluates to {NAMES[pv]}"
    return txt


def register_until(reg, B4T):
    tgt = f"{MON}:UntilMonitor._evaluate_at"
    L, R = ChildFn("lhs"), ChildFn("rhs")
    M = z3.Function("minL", z3.IntSort(), z3.IntSort(), z3.IntSort())  # M(a,b) = min of lhs over [a,b), TRUE on the empty range
    a, b, t = z3.Ints("a!m b!m t!m")
    AX_DEF = [
        ("minL.empty", z3.ForAll([a], M(a, a) == TRUE)),
        ("minL.step", z3.ForAll([a, b], z3.Implies(a < b, M(a, b) == zmin(M(a, b - 1), L.z(b - 1))))),
    ]
    AX_LEMMA = ("minL.antitone (proved by induction: UntilMonitor._evaluate_at[lemma]#lemma.minL_antitone.*)", z3.ForAll([a, b, t], z3.Implies(z3.And(a <= b, b <= t), M(a, t) <= M(a, b))))
    spec_env = {
        "Rv": BuiltinFn("Rv", lambda k: SV(R.z(k))),
        "Lv": BuiltinFn("Lv", lambda k: SV(L.z(k))),
        "minL": BuiltinFn("minL", lambda x, y: SV(M(tonum(x), tonum(y)))),
    }

    def make(key_suffix, definite_rhs):
        key = tgt + key_suffix if key_suffix else None
        cn = short_of(tgt, key)

        def setup(I, env):
            eng = I.eng
            for n, ax in AX_DEF + [AX_LEMMA]:
                eng.add_axiom(n, ax)
            last, i = sym_pos(eng)
            eng.input_syms.append(("lhs", ChildTableT(L, last), L))
            eng.input_syms.append(("rhs", ChildTableT(R, last), R))
            calls = []
            I.c11_calls = calls
            env.vars["self"] = mon_obj("UntilMonitor", last, lhs=child_monitor(I, L, last, cn, calls), rhs=child_monitor(I, R, last, cn, calls))
            env.vars["i"] = i
            env.vars["_last"] = last

        def post(I, env, outcome):
            eng = I.eng
            if outcome[0] != "return":
                return
            i, last = env.vars["i"].e, env.vars["_last"].e
            ok = ML.is_b4(outcome[1])
            eng.check(f"{cn}#ensures.returns_a_B4_member", ok)
            if not ok:
                return
            v = b4val(outcome[1])
            rhs_calls = [k for n, k in I.c11_calls if n == "rhs"]
            w = _z(rhs_calls[-1]) if rhs_calls else None  # the last position at which rhs was consulted (ghost: call log)
            kk = eng.fresh_int("kk").e  # an arbitrary position of the trace suffix
            inside = z3.And(i <= kk, kk <= last)

            def at_witness(pred):
                return z3.BoolVal(False) if w is None else z3.And(i <= w, w <= last, pred(R.z(w), M(i, w)))

            goals = {
                # end-exactness carrier
                "truthy_only_if_spec_truthy": z3.Implies(v >= PT, at_witness(lambda r, m: z3.And(r >= PT, m >= PT))),
                "spec_truthy_only_if_truthy": z3.Implies(z3.And(inside, R.z(kk) >= PT, M(i, kk) >= PT), v >= PT),
                # definite answers must be justified (TRUE below a `not` becomes FALSE)
                "TRUE_only_if_spec_TRUE": z3.Implies(v == TRUE, at_witness(lambda r, m: z3.And(r == TRUE, m == TRUE))),
                "FALSE_only_if_spec_FALSE": z3.Implies(v == FALSE, z3.And(z3.Implies(inside, z3.Or(R.z(kk) == FALSE, M(i, kk) == FALSE)), M(i, last + 1) == FALSE)),
            }
            for nm, g in goals.items():
                if definite_rhs:
                    if nm != "FALSE_only_if_spec_FALSE":
                        continue
                    tt = z3.Int("t!def")
                    hyp = z3.ForAll([tt], z3.Or(R.z(tt) == TRUE, R.z(tt) == FALSE))
                    eng.check(f"{cn}#ensures.FALSE_only_if_spec_FALSE_given_non_temporal_rhs[i==0]", z3.Implies(z3.And(hyp, i == 0), g))
                    eng.check(f"{cn}#ensures.FALSE_only_if_spec_FALSE_given_non_temporal_rhs[i>0]", z3.Implies(z3.And(hyp, i > 0), g))
                    continue
                eng.check(f"{cn}#ensures.{nm}[i==0]", z3.Implies(i == 0, g))
                eng.check(f"{cn}#ensures.{nm}[i>0]", z3.Implies(i > 0, g))

        loops = {
            1: dict(invariants={"no_truthy_rhs_before_k": "forall(t, i, i + _i, Rv(t) < 3)"}, modifies={"result": B4T, "v": None, "u": None, "j": None}),
            2: dict(invariants={"result_is_min_of_rhs_at_k_and_lhs_so_far": "result.value == min(v.value, minL(i, i + _i))"}, modifies={"result": B4T, "u": None}),
        }
        reg.add(
            C.Contract(tgt, params=dict(self=C.Const(None), i=C.Const(None)), setup=setup, post=post, loops=loops, env=spec_env, replay=replay_until, properties=("C11",)),
            key=key,
        )

    make("", False)
    make("[non-temporal rhs]", True)

    # ---- the lemma used above, by induction on the right end of the range (only the two defining axioms in scope)
    key = tgt + "[lemma]"
    cnl = short_of(tgt, key)

    def setup_lemma(I, env):
        for n, ax in AX_DEF:
            I.eng.add_axiom(n, ax)
        env.vars["self"] = mon_obj("UntilMonitor", -1, lhs=None, rhs=None)
        env.vars["i"] = 0

    def post_lemma(I, env, outcome):
        eng = I.eng
        x, y, s = (eng.fresh_int(n).e for n in ("a", "b", "t"))
        eng.check(f"{cnl}#lemma.minL_antitone.base", z3.Implies(x <= y, M(x, y) <= M(x, y)))
        eng.check(f"{cnl}#lemma.minL_antitone.step", z3.Implies(z3.And(x <= y, y <= s, M(x, s) <= M(x, y)), M(x, s + 1) <= M(x, y)))

    reg.add(C.Contract(tgt, params=dict(self=C.Const(None), i=C.Const(None)), setup=setup_lemma, post=post_lemma, properties=("C11",)), key=key)
