"""Sidecar contracts for the dependency `rv_ltl` (C11): the monitors Scenic's temporal requirements are compiled to.

The dependency's source is on disk (`/venv/lib/python3.12/site-packages/rv_ltl`), so its assumed contract is CHECKED here,
not trusted.  Nothing in this file copies its code: every run re-reads `rv_ltl/monitor.py` and `rv_ltl/b4.py`.

Specification (from the property statement: finite-trace RV-LTL, strong next, strong until)
-------------------------------------------------------------------------------------------
B4 = {FALSE=1, PRESUMABLY_FALSE=2, PRESUMABLY_TRUE=3, TRUE=4}; truthy = value >= 3.  For a trace w of length n
(`last = n-1`) and a position 0 <= i <= last:

    sat(phi, w, i)   two-valued finite-trace LTL:   next phi  is false at the last position (strong next),
                     phi until psi  needs a position k in [i, last] with psi (strong until).
    sem4(phi, w, i)  the four-valued compositional reference:
        atom a            TRUE if w[a][i] else FALSE
        not / and / or    5 - v / min / max          implies(f, g) = or(not f, g)
        next f            sem4(f, i+1) if i+1 <= last else PRESUMABLY_FALSE
        f until g         max( max_{k in [i,last]} min(sem4(g,k), min_{j in [i,k)} sem4(f,j)),      -- g seen at k
                               min(PRESUMABLY_FALSE, min_{j in [i,last]} sem4(f,j)) )               -- g still to come
        eventually f      true until f                 always f = not eventually not f

sem4 is *impartial and anticipatory in the sound direction* (lemmas checked below on the bounded trace space):
    truthy(sem4(phi,w,i))  <=>  sat(phi,w,i)                        (end-exactness)
    sem4 = FALSE  =>  no extension of w satisfies phi at i           (early rejection is sound)
    sem4 = TRUE   =>  every extension of w satisfies phi at i        (needed below a `not`)

What the property needs from a monitor is *refinement* of sem4, `v <= sem4` in the information order:
    truthy(v) <=> truthy(sem4)      v == FALSE => sem4 == FALSE      v == TRUE => sem4 == TRUE
(a monitor may answer PRESUMABLY_x where sem4 already knows x -- that only postpones a rejection, which the property
allows ("rejected before the end ONLY when no continuation could satisfy the formula") -- but it must never answer a
definite value sem4 does not justify, and its truthiness must be exact).  min, max and 5-v are monotone for this order,
so per-class refinement given refining children composes to refinement for the whole tree.

Per class the obligation is therefore `_evaluate_at(i)` vs the sem4 equation of that operator over ARBITRARY child
values (abstract children: uninterpreted four-valued functions of the position), for traces of SYMBOLIC length.
For Atomic/Not/And/Or/Next/Implies the stronger `returns-spec` (equality) is proved.  UntilMonitor needs two loop invariants;
its obligations are split by `i == 0` (the only way a top-level until is evaluated) and `i > 0` (until below next/always/
eventually/until).

Bounded part (`bounded=True`): the sugar monitors (Always/Eventually/Implies: real constructor + real evaluation, trace
length <= 5, child values symbolic) and the end-to-end families (real proposition -> create_monitor -> update* -> evaluate on
all traces of length <= N over the atoms, checked against `sat` directly, including all extensions up to length N)."""
import ast
import itertools

import z3

from pyvc import contracts as C
from pyvc import extract
from pyvc import models_ltl as ML
from pyvc.interp import BuiltinFn, Env, Frame, FuncVal, SpecFn, SymRaise
from pyvc.values import PDict, PList, PObj, PSet, PyvcError, SSeq, SV, tobool, tonum

from .common import repo_class

MON = "rv_ltl.monitor"
PROP = "rv_ltl.proposition"
NAMES = ML.B4_NAMES
FALSE, PF, PT, TRUE = 1, 2, 3, 4


# ------------------------------------------------------------------------------------------------ z3 helpers
def zmin(a, b):
    a, b = _z(a), _z(b)
    return z3.If(a <= b, a, b)


def zmax(a, b):
    a, b = _z(a), _z(b)
    return z3.If(a >= b, a, b)


def _z(x):
    if isinstance(x, SV):
        return x.e
    if isinstance(x, bool):
        return z3.BoolVal(x)
    if isinstance(x, int):
        return z3.IntVal(x)
    return x


def zmin_all(xs, top=TRUE):
    r = z3.IntVal(top)
    for x in xs:
        r = zmin(r, x)
    return r


def zmax_all(xs, bot=FALSE):
    r = z3.IntVal(bot)
    for x in xs:
        r = zmax(r, x)
    return r


def refines(v, s):
    """the three refinement clauses of v against the reference value s, as z3 formulas"""
    v, s = _z(v), _z(s)
    return dict(
        truthy_iff_spec_truthy=(v >= PT) == (s >= PT),
        FALSE_only_if_spec_FALSE=z3.Implies(v == FALSE, s == FALSE),
        TRUE_only_if_spec_TRUE=z3.Implies(v == TRUE, s == TRUE),
    )


# ------------------------------------------------------------------------------------------------ formulas (spec side)
# phi ::= ("atom", name) | ("not", f) | ("and", f, g) | ("or", f, g) | ("implies", f, g) | ("next", f) | ("always", f)
#       | ("eventually", f) | ("until", f, g)


def show(f):
    op = f[0]
    if op == "atom":
        return f[1]
    if op in ("not", "next", "always", "eventually"):
        return f"{op} ({show(f[1])})" if f[1][0] != "atom" else f"{op} {show(f[1])}"
    return f"({show(f[1])}) {op} ({show(f[2])})" if op != "atom" else f[1]


def atoms_of(f):
    if f[0] == "atom":
        return [f[1]]
    out = []
    for g in f[1:]:
        for a in atoms_of(g):
            if a not in out:
                out.append(a)
    return out


def sat(f, w, i, n):
    """finite-trace LTL with strong next/until: z3 Bool (or python bool) for `w[0:n], i |= f`; w[a][t] are Bools"""
    op = f[0]
    if op == "atom":
        return _z(w[f[1]][i])
    if op == "not":
        return z3.Not(sat(f[1], w, i, n))
    if op == "and":
        return z3.And(sat(f[1], w, i, n), sat(f[2], w, i, n))
    if op == "or":
        return z3.Or(sat(f[1], w, i, n), sat(f[2], w, i, n))
    if op == "implies":
        return z3.Implies(sat(f[1], w, i, n), sat(f[2], w, i, n))
    if op == "next":
        return sat(f[1], w, i + 1, n) if i + 1 < n else z3.BoolVal(False)
    if op == "always":
        return z3.And(*[sat(f[1], w, k, n) for k in range(i, n)])
    if op == "eventually":
        return z3.Or(*[sat(f[1], w, k, n) for k in range(i, n)])
    if op == "until":
        return z3.Or(*[z3.And(sat(f[2], w, k, n), *[sat(f[1], w, j, n) for j in range(i, k)]) for k in range(i, n)])
    raise ValueError(op)


def sem4(f, w, i, n):
    """the four-valued reference (z3 Int term) -- see the module docstring"""
    op = f[0]
    if op == "atom":
        return z3.If(_z(w[f[1]][i]), z3.IntVal(TRUE), z3.IntVal(FALSE))
    if op == "not":
        return 5 - sem4(f[1], w, i, n)
    if op == "and":
        return zmin(sem4(f[1], w, i, n), sem4(f[2], w, i, n))
    if op == "or":
        return zmax(sem4(f[1], w, i, n), sem4(f[2], w, i, n))
    if op == "implies":
        return zmax(5 - sem4(f[1], w, i, n), sem4(f[2], w, i, n))
    if op == "next":
        return sem4(f[1], w, i + 1, n) if i + 1 < n else z3.IntVal(PF)
    if op == "until":
        L = [sem4(f[1], w, j, n) for j in range(i, n)]
        R = [sem4(f[2], w, k, n) for k in range(i, n)]
        return until4(L, R)
    if op == "eventually":
        R = [sem4(f[1], w, k, n) for k in range(i, n)]
        return until4([z3.IntVal(TRUE)] * len(R), R)
    if op == "always":
        R = [5 - sem4(f[1], w, k, n) for k in range(i, n)]
        return 5 - until4([z3.IntVal(TRUE)] * len(R), R)
    raise ValueError(op)


def until4(L, R):
    """sem4 equation of until over the child values at positions i..last (lists of equal length)"""
    seen = [zmin(R[k], zmin_all(L[:k])) for k in range(len(R))]
    return zmax(zmax_all(seen), zmin(PF, zmin_all(L)))


# ------------------------------------------------------------------------------------------------ abstract children
class ChildFn:
    """An abstract sub-monitor: its value at position k is an arbitrary B4 value, encoded by two uninterpreted
    predicates so that no range axiom is needed: value(k) = hi(k) ? (lo(k) ? TRUE : PT) : (lo(k) ? PF : FALSE)."""

    def __init__(self, name, definite=False):
        self.name = name
        self.hi = z3.Function(name + ".hi", z3.IntSort(), z3.BoolSort())
        self.lo = z3.Function(name + ".lo", z3.IntSort(), z3.BoolSort())
        self.definite = definite  # two-valued child (a non-temporal sub-formula): TRUE/FALSE only

    def z(self, k):
        k = _z(k) if not isinstance(k, int) else z3.IntVal(k)
        if self.definite:
            return z3.If(self.hi(k), z3.IntVal(TRUE), z3.IntVal(FALSE))
        return z3.If(self.hi(k), z3.If(self.lo(k), z3.IntVal(TRUE), z3.IntVal(PT)), z3.If(self.lo(k), z3.IntVal(PF), z3.IntVal(FALSE)))

    def table(self, eng, model, n):
        out = []
        for k in range(max(0, min(n, 12))):
            r = model.eval(self.z(k), model_completion=True)
            out.append(NAMES.get(r.as_long(), str(r)))
        return out


class ChildTableT(C.Type):
    """counter-model reader for an abstract child: its values at positions 0..last"""

    def __init__(self, fn, last):
        self.fn, self.last = fn, last

    def fresh(self, eng, name, I=None):
        return self.fn

    def concretize(self, eng, model, val):
        n = eng.eval_model(model, self.last) if isinstance(self.last, SV) else self.last
        return self.fn.table(eng, model, int(n) + 1)


def child_monitor(I, fn, last, cname, calls=None):
    """heap object standing for a conforming sub-monitor; evaluating it outside the trace is an obligation of the caller"""
    o = PObj("AbstractMonitor", tag=fn.name)

    def evaluate_at(k=0):
        inside = z3.And(_z(k) >= 0, _z(k) <= _z(last)) if isinstance(k, SV) or isinstance(last, SV) else z3.BoolVal(0 <= k <= last)
        if not I.in_spec:
            I.eng.check(f"{cname}#call:{fn.name}._evaluate_at.requires[position inside the trace]", inside, kind="precondition")
            I.eng.assume(inside)
            if calls is not None:
                calls.append((fn.name, k))
        return ML.b4(SV(z3.simplify(fn.z(k))) if True else None)

    o.fields["_evaluate_at"] = BuiltinFn(fn.name + "._evaluate_at", evaluate_at)
    o.fields["_last_index"] = last
    o.fields["_flatten"] = BuiltinFn(fn.name + "._flatten", lambda: PList([o]))
    o.fields["_update_internal"] = BuiltinFn(fn.name + "._update_internal", lambda m: None)
    return o


def b4val(x):
    v = ML.b4_value(x)
    return _z(v)


def mon_obj(clsname, last, **fields):
    o = PObj(repo_class(f"{MON}:{clsname}"), tag=clsname)
    o.fields["_last_index"] = last
    o.fields.update(fields)
    return o


class driver_frame:
    """Lets contract setup/post code run real functions of the carrier modules in place (all callees interpreted)."""

    def __init__(self, I, contract, module=MON):
        self.I, self.contract, self.module = I, contract, module

    def __enter__(self):
        node = ast.parse("lambda: None", mode="eval").body
        f = FuncVal(node, extract.get_module(self.module), None, None)
        fr = Frame(f, self.contract)
        fr.env = Env(f.module)
        self.I.frames.append(fr)
        self.I.call_depth += 1
        return self

    def __exit__(self, *a):
        self.I.call_depth -= 1
        self.I.frames.pop()
        return False


SMALL = 3


def check2(eng, name, goal, last, **kw):
    """Obligation over traces of every length.  A first instance restricted to short traces (last <= SMALL) is discharged
    before the general one so that, when the obligation is refuted, the first counter-model is small enough to replay."""
    goal = _z(goal)
    ok = eng.check(name, z3.Implies(_z(last) <= SMALL, goal), **kw)
    if ok:
        ok = eng.check(name, goal, **kw)
    return ok


class guarded:
    """Real code run by a contract's setup (constructors, earlier steps): an exception escaping it is an obligation failure of
    the contract (`#no-unexpected-exception`), not a checker error; the path ends there."""

    def __init__(self, I, cname):
        self.I, self.cname = I, cname

    def __enter__(self):
        return self

    def __exit__(self, et, ev, tb):
        if et is not None and issubclass(et, SymRaise):
            from pyvc.engine import PathEnd

            exc = ev.exc
            ename = getattr(exc.cls, "__name__", getattr(exc.cls, "name", str(exc.cls)))
            self.I.eng.check(f"{self.cname}#no-unexpected-exception", False, kind="raises", detail=f"{ename} while preparing the monitor (constructors / earlier steps), line {self.I.lineno}")
            raise PathEnd()
        return False


def sym_pos(eng):
    """symbolic trace: last >= 0, 0 <= i <= last"""
    last = eng.fresh_int("last")
    i = eng.fresh_int("i")
    eng.assume(z3.And(last.e >= 0, i.e >= 0, i.e <= last.e))
    eng.input_syms.append(("last", C.Int(), last))
    eng.input_syms.append(("i", C.Int(), i))
    return last, i


# ------------------------------------------------------------------------------------------------ replay helpers (real rv_ltl)
def _real_b4(name):
    import rv_ltl

    return getattr(rv_ltl.B4, name) if isinstance(name, str) else rv_ltl.B4(name)


def _scripted(table):
    """A real rv_ltl Monitor subclass whose value at each position is scripted (test double for a CHILD only)."""
    from rv_ltl.monitor import Monitor

    class Scripted(Monitor):
        def __init__(self, tab):
            super().__init__()
            self.tab = tab

        def _evaluate_at(self, i=0):
            if not (0 <= i < len(self.tab)):
                raise IndexError(f"child evaluated at position {i} outside the trace 0..{len(self.tab) - 1}")
            return _real_b4(self.tab[i])

    return Scripted(list(table))


def _py_until4(L, R):
    vals = [min([R[k]] + L[:k]) for k in range(len(R))]
    return max(vals + [min([PF] + L)])


def _py_refine_violation(v, s, clause):
    """text if value v does not refine reference s for the given clause ('*' = all)"""
    want = clause_key(clause)
    if want not in ("*", "truthy_iff_spec_truthy", "FALSE_only_if_spec_FALSE", "TRUE_only_if_spec_TRUE", "returns-spec"):
        return None
    if want in ("*", "truthy_iff_spec_truthy", "returns-spec") and (v >= PT) != (s >= PT):
        return f"verdict {NAMES[v]} but the strong finite-trace semantics gives {NAMES[s]} (truthiness differs)"
    if want in ("*", "FALSE_only_if_spec_FALSE", "returns-spec") and v == FALSE and s != FALSE:
        return f"verdict FALSE (would reject now) but the reference is {NAMES[s]}: a continuation can still satisfy the formula"
    if want in ("*", "TRUE_only_if_spec_TRUE", "returns-spec") and v == TRUE and s != TRUE:
        return f"verdict TRUE but the reference is {NAMES[s]}"
    if want == "returns-spec" and v != s:
        return f"verdict {NAMES[v]} but the reference is {NAMES[s]}"
    return None


def clause_key(clause):
    c = clause.split("#")[-1]
    for p in ("ensures.",):
        if c.startswith(p):
            c = c[len(p) :]
    if "[" in c:
        c = c[: c.index("[")]
    return c


def _num(x):
    return {v: k for k, v in NAMES.items()}[x] if isinstance(x, str) else int(x)


def register(reg):
    ML.install(reg)
    B4T = ML.b4_type()
    register_b4(reg, B4T)
    register_core(reg, B4T)
    register_until(reg, B4T)
    register_update(reg, B4T)
    register_sugar(reg, B4T)
    register_end_to_end(reg, B4T)




def short_of(target, key=None):
    mod, qual = target.split(":", 1)
    s = f"{mod.split('.')[-1]}.{qual}"
    if key:
        s += key[len(target) :]
    return s


# ================================================================================================ (0) the B4 algebra
def register_b4(reg, B4T):
    b4 = ML.B4

    def replay_b4(inputs, clause):
        import rv_ltl

        B = rv_ltl.B4
        if {m.name: m.value for m in B} != dict(TRUE=4, PRESUMABLY_TRUE=3, PRESUMABLY_FALSE=2, FALSE=1):
            return f"members {[(m.name, m.value) for m in B]}"
        for x in B:
            if (~x).value != 5 - x.value:
                return f"~{x} is {~x}"
            if x.is_truthy != (x.value >= 3) or x.is_falsy != (x.value <= 2):
                return f"{x}.is_truthy={x.is_truthy} is_falsy={x.is_falsy}"
            for y in B:
                if (x & y).value != min(x.value, y.value) or (x | y).value != max(x.value, y.value):
                    return f"{x} & {y} = {x & y}, {x} | {y} = {x | y}"
        if B.from_bool(True) is not B.TRUE or B.from_bool(False) is not B.FALSE:
            return "from_bool(True/False) is not TRUE/FALSE"
        return None

    def members_post(I, env, outcome):
        I.eng.check("b4.B4#members.TRUE=4_PRESUMABLY_TRUE=3_PRESUMABLY_FALSE=2_FALSE=1", ML.enum_members(b4) == dict(TRUE=4, PRESUMABLY_TRUE=3, PRESUMABLY_FALSE=2, FALSE=1))

    common = dict(replay=replay_b4, properties=("C11",))
    reg.add(C.Contract(f"{b4}.__and__", params=dict(self=B4T, value=B4T), ensures={"is_min": "result.value == min(self.value, value.value)"}, result=B4T, post=members_post, **common))
    reg.add(C.Contract(f"{b4}.__or__", params=dict(self=B4T, value=B4T), ensures={"is_max": "result.value == max(self.value, value.value)"}, result=B4T, **common))
    reg.add(C.Contract(f"{b4}.__invert__", params=dict(self=B4T), ensures={"is_mirror": "result.value == 5 - self.value"}, result=B4T, **common))
    reg.add(C.Contract(f"{b4}.is_truthy", params=dict(self=B4T), ensures={"iff_TRUE_or_PRESUMABLY_TRUE": "result == (self.value >= 3)"}, result=C.Bool(), **common))
    reg.add(C.Contract(f"{b4}.is_falsy", params=dict(self=B4T), ensures={"iff_FALSE_or_PRESUMABLY_FALSE": "result == (self.value <= 2)"}, result=C.Bool(), **common))

    def from_bool_at_call_sites(I, b):
        # at call sites the (verified) postcondition is used in closed form: the member whose value is `4 if b else 1`;
        # a symbolic truth value stays symbolic instead of forking the path
        t = I.truth(b)
        return ML.b4((TRUE if t else FALSE) if isinstance(t, bool) else SV(z3.If(t, z3.IntVal(TRUE), z3.IntVal(FALSE))))

    reg.add(C.Contract(f"{b4}.from_bool", params=dict(b=C.Bool()), ensures={"TRUE_iff_b": "result.value == (4 if b else 1)"}, call_model=from_bool_at_call_sites, **common))


# ================================================================================================ (1) Atomic / Not / And / Or / Next / constant
def _tables(inputs, names, last):
    out = {}
    for n in names:
        t = [_num(x) for x in inputs.get(n, [])][: last + 1]
        t += [FALSE] * (last + 1 - len(t))
        out[n] = t
    return out


def register_core(reg, B4T):
    # ---------------------------------------------------------------- AtomicMonitor._evaluate_at
    tgt = f"{MON}:AtomicMonitor._evaluate_at"
    cn = short_of(tgt)
    H = z3.Function("history", z3.IntSort(), z3.BoolSort())

    class HistT(C.Type):
        def __init__(self, last):
            self.last = last

        def concretize(self, eng, model, val):
            n = int(eng.eval_model(model, self.last)) + 1
            return [bool(z3.is_true(model.eval(H(z3.IntVal(k)), model_completion=True))) for k in range(min(n, 12))]

    def setup_atomic(I, env):
        last, i = sym_pos(I.eng)
        hist = SSeq(SV(last.e + 1), lambda k: SV(H(tonum(k))), "list", "history")
        I.eng.input_syms.append(("history", HistT(last), hist))
        env.vars["self"] = mon_obj("AtomicMonitor", last, _history=hist, proposition=PObj("AtomicProposition", tag="ap"))
        env.vars["i"] = i

    def post_atomic(I, env, outcome):
        if outcome[0] != "return":
            return
        i = env.vars["i"]
        check2(I.eng, f"{cn}#ensures.returns-spec", z3.And(ML.is_b4(outcome[1]), b4val(outcome[1]) == z3.If(H(i.e), z3.IntVal(TRUE), z3.IntVal(FALSE))), env.vars["self"].fields["_last_index"])

    def replay_atomic(inputs, clause):
        from rv_ltl import Atomic

        last, i = int(inputs["last"]), int(inputs["i"])
        h = list(inputs.get("history", []))[: last + 1]
        h += [False] * (last + 1 - len(h))
        m = Atomic(identifier="a").create_monitor()
        for b in h:
            m.update({"a": b})
        v = m._evaluate_at(i).value
        s = TRUE if h[i] else FALSE
        return None if v == s else f"AtomicMonitor fed {h}: _evaluate_at({i}) = {NAMES[v]}, expected {NAMES[s]}"

    reg.add(C.Contract(tgt, params=dict(self=C.Const(None), i=C.Const(None)), setup=setup_atomic, post=post_atomic, replay=replay_atomic, properties=("C11",)))

    # ---------------------------------------------------------------- _ConstantTrueMonitor
    tgt = f"{MON}:_ConstantTrueMonitor._evaluate_at"
    cn0 = short_of(tgt)

    def setup_const(I, env):
        last, i = sym_pos(I.eng)
        env.vars["self"] = mon_obj("_ConstantTrueMonitor", last)
        env.vars["i"] = i

    def post_const(I, env, outcome):
        if outcome[0] == "return":
            I.eng.check(f"{cn0}#ensures.returns-spec", z3.And(ML.is_b4(outcome[1]), b4val(outcome[1]) == TRUE))

    reg.add(C.Contract(tgt, params=dict(self=C.Const(None), i=C.Const(None)), setup=setup_const, post=post_const, properties=("C11",)))

    # ---------------------------------------------------------------- Not / Next / And / Or over abstract children
    def unary(clsname, spec, pyspec):
        tgt = f"{MON}:{clsname}._evaluate_at"
        cn = short_of(tgt)
        P = ChildFn("op")

        def setup(I, env):
            last, i = sym_pos(I.eng)
            I.eng.input_syms.append(("op", ChildTableT(P, last), P))
            env.vars["self"] = mon_obj(clsname, last, op=child_monitor(I, P, last, cn))
            env.vars["i"] = i
            env.vars["_last"] = last

        def post(I, env, outcome):
            if outcome[0] != "return":
                return
            i, last = env.vars["i"], env.vars["_last"]
            check2(I.eng, f"{cn}#ensures.returns-spec", z3.And(ML.is_b4(outcome[1]), b4val(outcome[1]) == spec(P, i.e, last.e)), last)

        def replay(inputs, clause):
            import rv_ltl.monitor as rm

            last, i = int(inputs["last"]), int(inputs["i"])
            if last > 11:
                return None
            t = _tables(inputs, ["op"], last)["op"]
            m = getattr(rm, clsname)(_scripted(t))
            m._last_index = last
            v = m._evaluate_at(i).value
            s = pyspec(t, i, last)
            return None if v == s else f"{clsname} over a child with values {[NAMES[x] for x in t]}: _evaluate_at({i}) = {NAMES[v]}, expected {NAMES[s]}"

        reg.add(C.Contract(tgt, params=dict(self=C.Const(None), i=C.Const(None)), setup=setup, post=post, replay=replay, inline=["Monitor._is_future"], properties=("C11",)))

    unary("NotMonitor", lambda P, i, last: 5 - P.z(i), lambda t, i, last: 5 - t[i])
    unary("NextMonitor", lambda P, i, last: z3.If(i + 1 <= last, P.z(i + 1), z3.IntVal(PF)), lambda t, i, last: t[i + 1] if i + 1 <= last else PF)

    def variadic(clsname, fold, unit, pyfold):
        tgt = f"{MON}:{clsname}._evaluate_at"
        cn = short_of(tgt)
        Ps = [ChildFn(f"ops{k}") for k in range(3)]

        def setup(I, env):
            last, i = sym_pos(I.eng)
            n = I.eng.choose(4, "number of operands")
            kids = []
            for P in Ps[:n]:
                I.eng.input_syms.append((P.name, ChildTableT(P, last), P))
                kids.append(child_monitor(I, P, last, cn))
            env.vars["self"] = mon_obj(clsname, last, ops=tuple(kids))
            env.vars["i"] = i
            env.vars["_n"] = n

        def post(I, env, outcome):
            if outcome[0] != "return":
                return
            i, n = env.vars["i"], env.vars["_n"]
            s = z3.IntVal(unit)
            for P in Ps[:n]:
                s = fold(s, P.z(i.e))
            check2(I.eng, f"{cn}#ensures.returns-spec", z3.And(ML.is_b4(outcome[1]), b4val(outcome[1]) == s), env.vars["self"].fields["_last_index"])

        def replay(inputs, clause):
            import rv_ltl.monitor as rm

            last, i = int(inputs["last"]), int(inputs["i"])
            if last > 11:
                return None
            names = [P.name for P in Ps if P.name in inputs]
            tabs = _tables(inputs, names, last)
            m = getattr(rm, clsname)(*[_scripted(tabs[n]) for n in names])
            m._last_index = last
            v = m._evaluate_at(i).value
            s = pyfold([unit] + [tabs[n][i] for n in names])
            return None if v == s else f"{clsname} over children valued {[NAMES[tabs[n][i]] for n in names]} at {i}: {NAMES[v]}, expected {NAMES[s]}"

        reg.add(C.Contract(tgt, params=dict(self=C.Const(None), i=C.Const(None)), setup=setup, post=post, replay=replay, bounded=True, note="0..3 operands (Scenic builds n-ary and/or from the source's operand list); operand values and trace length symbolic", properties=("C11",)))

    variadic("AndMonitor", zmin, TRUE, min)
    variadic("OrMonitor", zmax, FALSE, max)


# ================================================================================================ (2) UntilMonitor
UNTIL_TEXT = "UntilMonitor._evaluate_at disagrees with strong until"


def _public_until(Lt, Rt, i):
    """`next^i (a until b)` through the PUBLIC api of the real rv_ltl, a/b fed from two-valued tables -> final verdict value"""
    import rv_ltl

    a, b = rv_ltl.Atomic(identifier="a"), rv_ltl.Atomic(identifier="b")
    f = rv_ltl.Until(a, b)
    for _ in range(i):
        f = rv_ltl.Next(f)
    m = f.create_monitor()
    for x, y in zip(Lt, Rt):
        m.update({"a": x == TRUE, "b": y == TRUE})
    return m.evaluate().value


def _public_premature_false():
    """A realisation of `rhs presumably false, later truthy` with the public API: a until ((next next c) or d)."""
    import rv_ltl

    a, c, d = (rv_ltl.Atomic(identifier=x) for x in "acd")
    m = rv_ltl.Until(a, rv_ltl.Or(rv_ltl.Next(rv_ltl.Next(c)), d)).create_monitor()
    out = []
    for step in (dict(a=False, c=False, d=False), dict(a=False, c=False, d=True), dict(a=False, c=True, d=False)):
        m.update(step)
        out.append(str(m.evaluate()))
    if out[1] == "FALSE" and out[2] in ("TRUE", "PRESUMABLY_TRUE"):
        return f"; public API: `a until ((next next c) or d)` on a=FFF c=FFT d=FTF gives the verdicts {out}: FALSE at step 1 although the trace satisfies the formula at step 2"
    return ""


def replay_until(inputs, clause):
    from rv_ltl.monitor import UntilMonitor

    last, i = int(inputs["last"]), int(inputs["i"])
    if last > 11 or not (0 <= i <= last):
        return None
    tabs = _tables(inputs, ["lhs", "rhs"], last)
    Lt, Rt = tabs["lhs"], tabs["rhs"]
    m = UntilMonitor(_scripted(Lt), _scripted(Rt))
    m._last_index = last
    m.lhs._last_index = m.rhs._last_index = last
    v = m._evaluate_at(i).value
    s = _py_until4(Lt[i:], Rt[i:])
    key = clause_key(clause)
    bad = None
    if key in ("*", "truthy_only_if_spec_truthy") and v >= PT and s < PT:
        bad = "accepts although strong until does not hold"
    if key in ("*", "spec_truthy_only_if_truthy") and s >= PT and v < PT:
        bad = "does not accept although strong until holds"
    if key in ("*", "TRUE_only_if_spec_TRUE") and v == TRUE and s != TRUE:
        bad = "answers TRUE although not every continuation satisfies the until"
    definite = all(x in (TRUE, FALSE) for x in Rt)
    if key in ("*", "FALSE_only_if_spec_FALSE") or (key == "FALSE_only_if_spec_FALSE_given_non_temporal_rhs" and definite):
        if v == FALSE and s != FALSE:
            bad = "answers FALSE (reject now) although a continuation can still satisfy the until"
    if bad is None:
        return None
    txt = f"{UNTIL_TEXT}: lhs values {[NAMES[x] for x in Lt]}, rhs values {[NAMES[x] for x in Rt]}, _evaluate_at({i}) = {NAMES[v]}, reference {NAMES[s]}: {bad}"
    if "reject now" in bad and i == 0:
        txt += _public_premature_false()
    if i > 0:
        pv = _public_until([TRUE, FALSE, FALSE], [FALSE, TRUE, FALSE], 1)
        if pv < PT:
            txt += f"; public API: `next (a until b)` on a=TFF b=FTF evaluates to {NAMES[pv]} (the trace satisfies the formula: b holds at step 1)"
    if all(x in (TRUE, FALSE) for x in Lt + Rt):
        pv = _public_until(Lt, Rt, i)
        txt += f"; public API: `{'next ' * i}(a until b)` on a={''.join('T' if x == TRUE else 'F' for x in Lt)} b={''.join('T' if x == TRUE else 'F' for x in Rt)} evaluates to {NAMES[pv]}"
    return txt


def register_until(reg, B4T):
    tgt = f"{MON}:UntilMonitor._evaluate_at"
    L = ChildFn("lhs")
    M = z3.Function("minL", z3.IntSort(), z3.IntSort(), z3.IntSort())  # M(a,b) = min of lhs over [a,b), TRUE on the empty range
    a, b, t = z3.Ints("a!m b!m t!m")
    AX_DEF = [
        ("minL.empty", z3.ForAll([a], M(a, a) == TRUE)),
        ("minL.step", z3.ForAll([a, b], z3.Implies(a < b, M(a, b) == zmin(M(a, b - 1), L.z(b - 1))))),
    ]
    AX_LEMMA = [
        ("minL.antitone (proved by induction: UntilMonitor._evaluate_at[lemma]#lemma.minL_antitone.*)", z3.ForAll([a, b, t], z3.Implies(z3.And(a <= b, b <= t), M(a, t) <= M(a, b)))),
        ("minL.range (proved by induction: UntilMonitor._evaluate_at[lemma]#lemma.minL_range.*)", z3.ForAll([a, b], z3.Implies(a <= b, z3.And(FALSE <= M(a, b), M(a, b) <= TRUE)))),
    ]

    def make(key_suffix, definite_rhs):
        key = tgt + key_suffix if key_suffix else None
        cn = short_of(tgt, key)
        R = ChildFn("rhs", definite=definite_rhs)  # two-valued by construction in the [non-temporal rhs] variant
        def minL_term(I, x, y):
            """the term minL(x, y), unfolding its definition one level and recording it for the lemma instances"""
            zx, zy = tonum(x), tonum(y)
            term = M(zx, zy)
            key = (zx.get_id(), zy.get_id())
            seen = I.c11_mterms
            if key not in seen:
                seen[key] = (zx, zy)
                for _, ax in AX_DEF + AX_LEMMA[1:]:  # instances of the defining axioms and of the range lemma at (x, y)
                    I.eng.assume(z3.substitute_vars(ax.body(), *reversed([zx, zy][: ax.num_vars()])))
            return SV(term)

        spec_env = {
            "Rv": BuiltinFn("Rv", lambda k: SV(R.z(k))),
            "Lv": BuiltinFn("Lv", lambda k: SV(L.z(k))),
            "minL": SpecFn(minL_term, "minL", needs_interp=True),
        }

        def setup(I, env):
            eng = I.eng
            # proofs here take milliseconds; the obligations that are refuted on the installed rv_ltl (known findings) have
            # quantified hypotheses, on which z3 answers `unknown` only after its whole budget: keep that budget small
            eng.timeout_ms = min(eng.timeout_ms, 4000)
            # minL is used through instances only (definition unfolded where a term is built; lemma instances over the terms
            # present at the end): no quantified axiom in scope, so refuted obligations get genuine models from z3
            I.c11_mterms = {}
            last, i = sym_pos(eng)
            eng.input_syms.append(("lhs", ChildTableT(L, last), L))
            eng.input_syms.append(("rhs", ChildTableT(R, last), R))
            calls = []
            I.c11_calls = calls
            env.vars["self"] = mon_obj("UntilMonitor", last, lhs=child_monitor(I, L, last, cn, calls), rhs=child_monitor(I, R, last, cn, calls))
            env.vars["i"] = i
            env.vars["_last"] = last

        def post(I, env, outcome):
            eng = I.eng
            if outcome[0] != "return":
                return
            i, last = env.vars["i"].e, env.vars["_last"].e
            ok = ML.is_b4(outcome[1])
            eng.check(f"{cn}#ensures.returns_a_B4_member", ok)
            if not ok:
                return
            v = b4val(outcome[1])
            rhs_calls = [k for n, k in I.c11_calls if n == "rhs"]
            w = _z(rhs_calls[-1]) if rhs_calls else None  # the last position at which rhs was consulted (ghost: call log)
            kk = eng.fresh_int("kk").e  # an arbitrary position of the trace suffix
            inside = z3.And(i <= kk, kk <= last)
            for y in [kk, last + 1] + ([w] if w is not None else []):
                minL_term(I, SV(i), SV(y))
            terms = list(I.c11_mterms.values())
            for x1, y1 in terms:  # instances of the antitone lemma over all pairs of minL terms on this path
                for x2, y2 in terms:
                    if y1.get_id() != y2.get_id():
                        eng.assume(z3.Implies(z3.And(x1 == x2, x1 <= y1, y1 <= y2), M(x2, y2) <= M(x1, y1)))

            def at_witness(pred):
                return z3.BoolVal(False) if w is None else z3.And(i <= w, w <= last, pred(R.z(w), M(i, w)))

            goals = {
                # end-exactness carrier
                "truthy_only_if_spec_truthy": z3.Implies(v >= PT, at_witness(lambda r, m: z3.And(r >= PT, m >= PT))),
                "spec_truthy_only_if_truthy": z3.Implies(z3.And(inside, R.z(kk) >= PT, M(i, kk) >= PT), v >= PT),
                # definite answers must be justified (TRUE below a `not` becomes FALSE)
                "TRUE_only_if_spec_TRUE": z3.Implies(v == TRUE, at_witness(lambda r, m: z3.And(r == TRUE, m == TRUE))),
                "FALSE_only_if_spec_FALSE": z3.Implies(v == FALSE, z3.And(z3.Implies(inside, z3.Or(R.z(kk) == FALSE, M(i, kk) == FALSE)), M(i, last + 1) == FALSE)),
            }
            for x in range(0, SMALL + 2):  # the definition of minL, completely unfolded on short traces (exact small models)
                for y in range(x, SMALL + 3):
                    minL_term(I, x, y)
            for nm, g in goals.items():
                if definite_rhs and nm != "FALSE_only_if_spec_FALSE":
                    continue
                check2(eng, f"{cn}#ensures.{nm}[i==0]", z3.Implies(i == 0, g), last)
                check2(eng, f"{cn}#ensures.{nm}[i>0]", z3.Implies(i > 0, g), last)

        loops = {
            1: dict(invariants={"no_truthy_rhs_before_k": "forall(t, i, i + _i, Rv(t) < 3)"}, modifies={"result": B4T, "v": None, "u": None, "j": None}),
            2: dict(invariants={"result_is_min_of_rhs_at_k_and_lhs_so_far": "result.value == min(v.value, minL(i, i + _i))"}, modifies={"result": B4T, "u": None}),
        }
        reg.add(
            C.Contract(tgt, params=dict(self=C.Const(None), i=C.Const(None)), setup=setup, post=post, loops=loops, env=spec_env, replay=replay_until, properties=("C11",)),
            key=key,
        )

    make("", False)
    make("[non-temporal rhs]", True)

    # ---- the lemma used above, by induction on the right end of the range (only the two defining axioms in scope)
    key = tgt + "[lemma]"
    cnl = short_of(tgt, key)

    def setup_lemma(I, env):
        for n, ax in AX_DEF:
            I.eng.add_axiom(n, ax)
        env.vars["self"] = mon_obj("UntilMonitor", -1, lhs=None, rhs=None)
        env.vars["i"] = 0

    def post_lemma(I, env, outcome):
        eng = I.eng
        x, y, s = (eng.fresh_int(n).e for n in ("a", "b", "t"))
        eng.check(f"{cnl}#lemma.minL_antitone.base", z3.Implies(x <= y, M(x, y) <= M(x, y)))
        eng.check(f"{cnl}#lemma.minL_antitone.step", z3.Implies(z3.And(x <= y, y <= s, M(x, s) <= M(x, y)), M(x, s + 1) <= M(x, y)))
        eng.check(f"{cnl}#lemma.minL_range.base", z3.And(FALSE <= M(x, x), M(x, x) <= TRUE))
        eng.check(f"{cnl}#lemma.minL_range.step", z3.Implies(z3.And(x <= y, FALSE <= M(x, y), M(x, y) <= TRUE), z3.And(FALSE <= M(x, y + 1), M(x, y + 1) <= TRUE)))
        # composition: the operators of sem4 are monotone for the refinement order, so a tree of monitors that refine sem4 class by
        # class (over children that refine) refines sem4 as a whole.  until4 is checked for suffixes of length <= 4.
        def b4s(tag, n):
            vs = [eng.fresh_int(f"{tag}{k}").e for k in range(n)]
            return vs, z3.And(*[z3.And(v >= FALSE, v <= TRUE) for v in vs])

        def ref(v, s):
            return z3.And(*refines(v, s).values())

        (r1, r2), dom_r = b4s("r", 2)
        (s1, s2), dom_s = b4s("s", 2)
        hyp = z3.And(dom_r, dom_s, ref(r1, s1), ref(r2, s2))
        eng.check(f"{cnl}#lemma.refinement_preserved_by_not_and_or", z3.Implies(hyp, z3.And(ref(5 - r1, 5 - s1), ref(zmin(r1, r2), zmin(s1, s2)), ref(zmax(r1, r2), zmax(s1, s2)))))
        for n in range(1, 5):
            (Lr, dl1), (Rr, dr1), (Ls, dl2), (Rs, dr2) = b4s("Lr", n), b4s("Rr", n), b4s("Ls", n), b4s("Rs", n)
            hyp = z3.And(dl1, dr1, dl2, dr2, *[ref(a_, b_) for a_, b_ in zip(Lr + Rr, Ls + Rs)])
            eng.check(f"{cnl}#lemma.refinement_preserved_by_until", z3.Implies(hyp, ref(until4(Lr, Rr), until4(Ls, Rs))))
            # the clauses of the UntilMonitor contract (stated over the running minimum) are the refinement of until4
            v = eng.fresh_int("v").e
            mins = [zmin_all(Ls[:k]) for k in range(n + 1)]
            clauses = z3.And(
                (v >= PT) == z3.Or(*[z3.And(Rs[k] >= PT, mins[k] >= PT) for k in range(n)]),
                z3.Implies(v == TRUE, z3.Or(*[z3.And(Rs[k] == TRUE, mins[k] == TRUE) for k in range(n)])),
                z3.Implies(v == FALSE, z3.And(mins[n] == FALSE, *[z3.Or(Rs[k] == FALSE, mins[k] == FALSE) for k in range(n)])),
            )
            eng.check(f"{cnl}#lemma.contract_clauses_of_until_are_refinement_of_until4", z3.Implies(z3.And(dl2, dr2, v >= FALSE, v <= TRUE), clauses == ref(v, until4(Ls, Rs))))

    reg.add(C.Contract(tgt, params=dict(self=C.Const(None), i=C.Const(None)), setup=setup_lemma, post=post_lemma, properties=("C11",)), key=key)


# ================================================================================================ (3) Monitor.update / AtomicMonitor._update_internal
def register_update(reg, B4T):
    # ---------------------------------------------------------------- AtomicMonitor._update_internal
    tgt = f"{MON}:AtomicMonitor._update_internal"
    cn = short_of(tgt)

    def setup_ui(I, env):
        eng = I.eng
        n = eng.choose(3, "history length")
        hist = PList([eng.fresh_bool(f"h{k}") for k in range(n)])
        prop = PObj("AtomicProposition", tag="ap")
        other = PObj("AtomicProposition", tag="other")
        v = eng.fresh_bool("v")
        eng.input_syms.append(("v", C.Bool(), v))
        m = PDict([(other, eng.fresh_bool("v_other")), (prop, v)])
        env.vars["self"] = mon_obj("AtomicMonitor", n - 1, _history=hist, proposition=prop)
        env.vars["m"] = m
        env.vars["_old_hist"] = list(hist.items)
        env.vars["_v"] = v

    def post_ui(I, env, outcome):
        eng = I.eng
        if outcome[0] != "return":
            return
        self = env.vars["self"]
        old = env.vars["_old_hist"]
        new = self.fields["_history"].items
        eng.check(f"{cn}#ensures.last_index_incremented", self.fields["_last_index"] == len(old))
        eng.check(f"{cn}#ensures.history_has_one_entry_per_step", len(new) == len(old) + 1 and all(a is b for a, b in zip(old, new)))
        if len(new) == len(old) + 1:
            eng.check(f"{cn}#ensures.appended_value_is_the_value_of_its_own_proposition", _z(new[-1]) == _z(env.vars["_v"]))

    def replay_ui(inputs, clause):
        from rv_ltl import Atomic

        for hist in ([], [True], [False, True]):
            for v in (bool(inputs.get("v", True)), True, False):
                p, q = Atomic(identifier="p"), Atomic(identifier="q")
                m = p.create_monitor()
                for b in hist:
                    m._update_internal({p: b, q: not b})
                m._update_internal({q: not v, p: v})
                if m._history != hist + [v] or m._last_index != len(hist):
                    return f"AtomicMonitor with history {hist} updated with {v}: history {m._history}, _last_index {m._last_index}"
        return None

    reg.add(
        C.Contract(
            tgt,
            params=dict(self=C.Const(None), m=C.Const(None)),
            setup=setup_ui,
            post=post_ui,
            inline=["Monitor._update_internal"],
            replay=replay_ui,
            bounded=True,
            note="history of length 0..2 (contents symbolic); the step value is a bool -- rv_ltl's documented precondition (Step = Dict[..., bool]); "
            "None would be taken for `missing` and skipped (Scenic's side of that precondition is an obligation of PropositionMonitor.update)",
            properties=("C11",),
        )
    )

    # ---------------------------------------------------------------- Monitor.update on a concrete tree
    tgt = f"{MON}:Monitor.update"
    cn2 = short_of(tgt)
    SHAPE = ("until", ("and", ("atom", "a"), ("not", ("atom", "b"))), ("next", ("atom", "a")))
    holder = {}

    def setup_up(I, env):
        eng = I.eng
        with guarded(I, cn2), driver_frame(I, holder["c"]):
            props = {x: I.instantiate(repo_class(f"{PROP}:Atomic"), [], dict(identifier=x)) for x in atoms_of(SHAPE)}
            mon = build_monitor(I, SHAPE, props)
            prior = eng.choose(2, "earlier updates")
            for k in range(prior):
                step = PDict([(x, eng.fresh_bool(f"{x}@{k}")) for x in props])
                I.call_function(I.find_method(mon.cls, "update"), [mon, step], {})
        mode = eng.choose(3, "keys: identifiers / instances / b missing")
        vals = {x: eng.fresh_bool(f"{x}@now") for x in props}
        for x in props:
            eng.input_syms.append((x, C.Bool(), vals[x]))
        if mode == 0:
            step = PDict([(x, vals[x]) for x in props])
        elif mode == 1:
            step = PDict([(props[x], vals[x]) for x in props])
        else:
            step = PDict([("a", vals["a"]), ("unrelated", eng.fresh_bool("unrelated"))])
        nodes = all_nodes(mon)
        env.vars.update(self=mon, step=step, _mode=mode, _vals=vals, _props=props, _nodes=nodes)
        env.vars["_before"] = [(nd, nd.fields["_last_index"], list(nd.fields["_history"].items) if "_history" in nd.fields else None) for nd in nodes]

    def post_up(I, env, outcome):
        eng = I.eng
        mode, vals, props = env.vars["_mode"], env.vars["_vals"], env.vars["_props"]
        before = env.vars["_before"]
        if mode == 2:
            ok = outcome[0] == "raise" and getattr(outcome[1].cls, "name", "") == "MissingAtomicsException"
            eng.check(f"{cn2}#raises.MissingAtomicsException_iff_an_atom_has_no_value", ok)
            eng.check(f"{cn2}#ensures.nothing_updated_when_rejected", all(nd.fields["_last_index"] == li and (h is None or len(nd.fields["_history"].items) == len(h)) for nd, li, h in before))
            return
        eng.check(f"{cn2}#raises.MissingAtomicsException_iff_an_atom_has_no_value", outcome[0] == "return")
        if outcome[0] != "return":
            return
        eng.check(f"{cn2}#ensures.every_node_advanced_exactly_one_step", all(nd.fields["_last_index"] == li + 1 for nd, li, h in before))
        for nd, li, h in before:
            if h is None:
                continue
            new = nd.fields["_history"].items
            name = [x for x, p in props.items() if p is nd.fields["proposition"]][0]
            eng.check(f"{cn2}#ensures.atomic_history_gets_current_value_of_its_proposition", len(new) == len(h) + 1 and new[-1] is vals[name] and len(new) == nd.fields["_last_index"] + 1)

    def replay_up(inputs, clause):
        import rv_ltl

        a, b = rv_ltl.Atomic(identifier="a"), rv_ltl.Atomic(identifier="b")
        for by_instance in (False, True):
            m = rv_ltl.Until(rv_ltl.And(a, rv_ltl.Not(b)), rv_ltl.Next(a)).create_monitor()
            va, vb = bool(inputs.get("a", True)), bool(inputs.get("b", False))
            m.update({a: va, b: vb} if by_instance else {"a": va, "b": vb})
            nodes = m._flatten()
            if any(n._last_index != 0 for n in nodes):
                return f"after one update the nodes have _last_index {[n._last_index for n in nodes]}"
            for n in nodes:
                if hasattr(n, "_history") and n._history != [va if n.proposition is a else vb]:
                    return f"atomic monitor of {n.proposition.identifier} has history {n._history} after update a={va} b={vb}"
            try:
                m.update({"a": True})
                return "update without a value for b did not raise MissingAtomicsException"
            except rv_ltl.MissingAtomicsException:
                pass
            if any(n._last_index != 0 for n in nodes):
                return "a rejected update advanced some node"
        return None

    holder["c"] = C.Contract(
        tgt,
        params=dict(self=C.Const(None), step=C.Const(None)),
        setup=setup_up,
        post=post_up,
        raises=[C.Raises("MissingAtomicsException", mode="may")],
        inline_all=True,
        replay=replay_up,
        bounded=True,
        note=f"one concrete tree `{show(SHAPE)}` (atom a occurs twice: two atomic monitors of one proposition), 0 or 1 earlier updates, values symbolic",
        properties=("C11",),
    )
    reg.add(holder["c"])


def build_monitor(I, f, props):
    """real rv_ltl proposition for formula f (real constructors), then the real create_monitor"""
    p = build_prop(I, f, props)
    return I.call_function(I.find_method(p.cls, "create_monitor"), [p], {})


PROP_CLASS = {"not": "Not", "and": "And", "or": "Or", "implies": "Implies", "next": "Next", "always": "Always", "eventually": "Eventually", "until": "Until"}


def build_prop(I, f, props):
    if f[0] == "atom":
        return props[f[1]]
    return I.instantiate(repo_class(f"{PROP}:{PROP_CLASS[f[0]]}"), [build_prop(I, g, props) for g in f[1:]], {})


def all_nodes(mon):
    out = []

    def rec(m):
        if any(m is x for x in out):
            return
        out.append(m)
        for fld in ("op", "lhs", "rhs"):
            if isinstance(m.fields.get(fld), PObj) and "_last_index" in m.fields[fld].fields:
                rec(m.fields[fld])
        for x in m.fields.get("ops", ()):
            rec(x)

    rec(mon)
    return out


# ================================================================================================ (4) sugar monitors (bounded)
SUGAR_MAXLEN = 5


def set_last_index(mon, last):
    for nd in all_nodes(mon):
        if isinstance(nd.cls, str):
            continue
        nd.fields["_last_index"] = last


def register_sugar(reg, B4T):
    tgt = f"{MON}:_SyntacticSugarMonitor._evaluate_at"

    def make(kind, names, spec, pyspec):
        key = f"{tgt}[{kind}Monitor]"
        cn = short_of(tgt, key)
        Ps = [ChildFn(n) for n in names]
        holder = {}

        def setup(I, env):
            eng = I.eng
            last = eng.choose(SUGAR_MAXLEN, "trace length") # last index 0..SUGAR_MAXLEN-1
            i = eng.choose(last + 1, "position")
            eng.input_syms.append(("last", C.Const(last), last))
            eng.input_syms.append(("i", C.Const(i), i))
            kids = []
            for P in Ps:
                eng.input_syms.append((P.name, ChildTableT(P, last), P))
                kids.append(child_monitor(I, P, last, cn))
            with guarded(I, cn), driver_frame(I, holder["c"]):
                mon = I.instantiate(repo_class(f"{MON}:{kind}Monitor"), kids, {})  # the real constructor builds the desugared tree
            set_last_index(mon, last)  # class invariant established by Monitor.update: every node has seen the same number of steps
            env.vars.update(self=mon, i=i, _last=last)

        def post(I, env, outcome):
            eng = I.eng
            if outcome[0] != "return":
                return
            i, last = env.vars["i"], env.vars["_last"]
            ok = ML.is_b4(outcome[1])
            eng.check(f"{cn}#ensures.returns_a_B4_member", ok)
            if not ok:
                return
            v = b4val(outcome[1])
            tabs = [[P.z(k) for k in range(i, last + 1)] for P in Ps]
            s = spec(*tabs)
            for nm, g in refines(v, s).items():
                eng.check(f"{cn}#ensures.{nm}", g)
            if kind == "Implies":
                eng.check(f"{cn}#ensures.returns-spec", v == s)
            if kind == "Always":
                P = Ps[0]
                two_valued = z3.And(*[z3.Or(x == TRUE, x == FALSE) for x in tabs[0]])
                some_false = z3.Or(*[x == FALSE for x in tabs[0]])
                eng.check(f"{cn}#ensures.false_non_temporal_operand_rejected_at_once", z3.Implies(z3.And(two_valued, some_false), v == FALSE))

        def replay(inputs, clause):
            import rv_ltl.monitor as rm

            last, i = int(inputs["last"]), int(inputs["i"])
            tabs = _tables(inputs, names, last)
            m = getattr(rm, kind + "Monitor")(*[_scripted(tabs[n]) for n in names])
            for nd in m._flatten():
                nd._last_index = last
            v = m._evaluate_at(i).value
            s = pyspec(*[tabs[n][i:] for n in names])
            txt = _py_refine_violation(v, s, clause)
            key_ = clause_key(clause)
            if txt is None and kind == "Always" and key_ in ("*", "false_non_temporal_operand_rejected_at_once"):
                t = tabs[names[0]][i:]
                if all(x in (TRUE, FALSE) for x in t) and FALSE in t and v != FALSE:
                    txt = f"verdict {NAMES[v]} although the (two-valued) operand is false at some step"
            return None if txt is None else f"{kind}Monitor over operand values {[[NAMES[x] for x in tabs[n]] for n in names]} at position {i}: {txt}"

        holder["c"] = C.Contract(
            tgt,
            params=dict(self=C.Const(None), i=C.Const(None)),
            setup=setup,
            post=post,
            inline_all=True,
            replay=replay,
            bounded=True,
            note=f"real {kind}Monitor constructor + real evaluation of the desugared tree; traces of length <= {SUGAR_MAXLEN}, every position, operand values symbolic (all 4^n assignments)",
            properties=("C11",),
        )
        reg.add(holder["c"], key=key)

    T = lambda n: [z3.IntVal(TRUE)] * n
    make("Eventually", ["op"], lambda P: until4(T(len(P)), P), lambda P: _py_until4([TRUE] * len(P), P))
    make("Always", ["op"], lambda P: 5 - until4(T(len(P)), [5 - x for x in P]), lambda P: 5 - _py_until4([TRUE] * len(P), [5 - x for x in P]))
    make("Implies", ["lhs", "rhs"], lambda A, B: zmax(5 - A[0], B[0]), lambda A, B: max(5 - A[0], B[0]))


# ================================================================================================ (5) end to end on the bounded trace space
E2E_N = 4  # trace lengths 1..E2E_N; every prefix is a complete trace, every longer prefix an extension
UN = ("not", "next", "always", "eventually")
BIN = ("and", "or", "implies", "until")
TEMPORAL = ("next", "always", "eventually", "until")


def until_below_temporal(f, below=False):
    if f[0] == "atom":
        return False
    if f[0] == "until" and below:
        return True
    return any(until_below_temporal(g, below or f[0] in TEMPORAL) for g in f[1:])


def formula_families():
    a, b = ("atom", "a"), ("atom", "b")
    d1a = [(u, a) for u in UN] + [(o, a, b) for o in BIN]
    d1b = [(u, b) for u in UN] + [(o, b, a) for o in BIN]
    depth1 = [a] + d1a
    depth2 = [(u, x) for u in UN for x in d1a]
    depth2 += [(o, x, b) for o in BIN for x in d1a]
    depth2 += [("until", b, x) for x in d1a] + [("implies", b, x) for x in d1a[:4]]
    depth2 += [("and", ("always", a), ("eventually", b)), ("implies", ("always", a), ("next", b)), ("or", ("next", a), ("eventually", b))]
    seen, uniq = set(), []
    for f in depth1 + depth2:
        if f not in seen:
            seen.add(f)
            uniq.append(f)
    plain = [f for f in uniq if not until_below_temporal(f)]
    nested = [f for f in uniq if until_below_temporal(f)]
    c, d = ("atom", "c"), ("atom", "d")
    premature = [("until", a, ("or", ("next", ("next", c)), d)), ("not", ("until", a, ("or", ("next", ("next", c)), d)))]
    return plain, nested, premature


def py_sat(f, w, i, n):
    op = f[0]
    if op == "atom":
        return bool(w[f[1]][i])
    if op == "not":
        return not py_sat(f[1], w, i, n)
    if op == "and":
        return py_sat(f[1], w, i, n) and py_sat(f[2], w, i, n)
    if op == "or":
        return py_sat(f[1], w, i, n) or py_sat(f[2], w, i, n)
    if op == "implies":
        return (not py_sat(f[1], w, i, n)) or py_sat(f[2], w, i, n)
    if op == "next":
        return i + 1 < n and py_sat(f[1], w, i + 1, n)
    if op == "always":
        return all(py_sat(f[1], w, k, n) for k in range(i, n))
    if op == "eventually":
        return any(py_sat(f[1], w, k, n) for k in range(i, n))
    if op == "until":
        return any(py_sat(f[2], w, k, n) and all(py_sat(f[1], w, j, n) for j in range(i, k)) for k in range(i, n))
    raise ValueError(op)


def real_formula(f, atoms):
    import rv_ltl

    if f[0] == "atom":
        return atoms[f[1]]
    return getattr(rv_ltl, PROP_CLASS[f[0]])(*[real_formula(g, atoms) for g in f[1:]])


def replay_e2e(inputs, clause):
    """the real rv_ltl (public API) on the formula and trace of the counter-model, against the independent evaluator"""
    import itertools as it

    import rv_ltl

    f = ast.literal_eval(inputs["formula"])
    names = atoms_of(f)
    n = E2E_N
    w = {x: [bool(v) for v in inputs.get(x, [])][:n] for x in names}
    for x in names:
        w[x] += [False] * (n - len(w[x]))
    atoms = {x: rv_ltl.Atomic(identifier=x) for x in names}
    m = real_formula(f, atoms).create_monitor()
    key = clause_key(clause)
    tr = lambda upto: " ".join(f"{x}={''.join('T' if v else 'F' for v in w[x][:upto])}" for x in names)
    for t in range(n):
        m.update({x: w[x][t] for x in names})
        v = m.evaluate().value
        if key in ("*", "end_exact") and (v >= PT) != py_sat(f, w, 0, t + 1):
            return f"`{show(f)}` on the trace {tr(t + 1)}: verdict {NAMES[v]}, but the trace {'satisfies' if py_sat(f, w, 0, t + 1) else 'violates'} the formula (finite-trace semantics, strong next/until)"
        if key in ("*", "early_rejection_sound") and v == FALSE:
            for ext in range(t + 1, n + 1):
                if py_sat(f, w, 0, ext):
                    return f"`{show(f)}`: verdict FALSE (simulation rejected) after the prefix {tr(t + 1)}, but the continuation {tr(ext)} satisfies the formula"
    return None


def register_end_to_end(reg, B4T):
    tgt = f"{MON}:Monitor.evaluate"
    plain, nested, premature = formula_families()

    def make(tag, formulas, note):
        key = f"{tgt}[{tag}]"
        cn = short_of(tgt, key)
        holder = {}

        def setup(I, env):
            eng = I.eng
            f = formulas[eng.choose(len(formulas), "formula")]
            eng.input_syms.append(("formula", C.Const(repr(f)), repr(f)))
            names = atoms_of(f)
            w = {x: [eng.fresh_bool(f"{x}{t}") for t in range(E2E_N)] for x in names}
            for x in names:
                eng.input_syms.append((x, C.ListOf(C.Bool(), E2E_N), PList(w[x])))
            verdicts = []
            with guarded(I, cn), driver_frame(I, holder["c"]):
                props = {x: I.instantiate(repo_class(f"{PROP}:Atomic"), [], dict(identifier=x)) for x in names}
                mon = build_monitor(I, f, props)
                upd, ev = I.find_method(mon.cls, "update"), I.find_method(mon.cls, "evaluate")
                for t in range(E2E_N):
                    I.call_function(upd, [mon, PDict([(x, w[x][t]) for x in names])], {})
                    if t < E2E_N - 1:
                        verdicts.append(I.call_function(ev, [mon], {}))
            env.vars.update(self=mon, _f=f, _w=w, _verdicts=verdicts)

        def post(I, env, outcome):
            eng = I.eng
            if outcome[0] != "return":
                return
            f, w = env.vars["_f"], env.vars["_w"]
            verdicts = env.vars["_verdicts"] + [outcome[1]]
            if not all(ML.is_b4(vd) for vd in verdicts):
                eng.check(f"{cn}#ensures.returns_a_B4_member", False)
                return
            exact, sound = [], []
            for t, vd in enumerate(verdicts):  # every prefix is a complete trace of its own, and every longer prefix one of its extensions
                n = t + 1
                v = b4val(vd)
                exact.append((v >= PT) == sat(f, w, 0, n))
                sound.append(z3.Implies(v == FALSE, z3.And(*[z3.Not(sat(f, w, 0, m)) for m in range(n, E2E_N + 1)])))
            eng.check(f"{cn}#ensures.end_exact", z3.And(*exact))
            eng.check(f"{cn}#ensures.early_rejection_sound", z3.And(*sound))

        holder["c"] = C.Contract(
            tgt,
            params=dict(self=C.Const(None)),
            setup=setup,
            post=post,
            inline_all=True,
            replay=replay_e2e,
            bounded=True,
            note=f"{len(formulas)} formulas ({note}); all traces of length <= {E2E_N} over the atoms (symbolic truth values: every assignment), every prefix checked as a complete "
            f"trace and against all its extensions up to length {E2E_N}; real constructors, create_monitor, update and evaluate interpreted",
            properties=("C11",),
        )
        reg.add(holder["c"], key=key)

    CH = 6
    for k in range(0, len(plain), CH):
        make(f"until only at position 0, formulas {k}-{min(k + CH, len(plain)) - 1}", plain[k : k + CH], "depth <= 2 over a, b; `until` never below next/always/eventually/until")
    for k in range(0, len(nested), CH):
        make(f"until below a temporal operator, formulas {k}-{min(k + CH, len(nested)) - 1}", nested[k : k + CH], "depth <= 2 over a, b; an `until` below next/always/eventually/until, i.e. evaluated at positions > 0")
    make("temporal rhs of until", premature, "`a until ((next next c) or d)` and its negation")

    # ---- the reference semantics sem4 used by the per-class contracts, validated against `sat` on the same bounded space
    # (pure specification lemmas: no code of the dependency is involved; hung on Monitor.evaluate of a one-atom monitor)
    a_, b_ = ("atom", "a"), ("atom", "b")
    d1 = [(u, a_) for u in UN] + [(o, a_, b_) for o in BIN]
    d1b = [(u, b_) for u in UN] + [(o, b_, a_) for o in BIN]
    wide = [(o, x, y) for o in BIN for x in d1 for y in d1b[:4]] + [(o, b_, x) for o in BIN for x in d1]
    allf = plain + nested + premature + [f for f in wide if f not in plain and f not in nested]

    def make_lemma(k0, k1):
        key = f"{tgt}[lemma sem4 vs sat, formulas {k0}-{k1 - 1}]"
        cn = short_of(tgt, key)
        holder = {}

        def setup(I, env):
            with driver_frame(I, holder["c"]):
                p = I.instantiate(repo_class(f"{PROP}:Atomic"), [], dict(identifier="a"))
                mon = build_monitor(I, ("atom", "a"), {"a": p})
                I.call_function(I.find_method(mon.cls, "update"), [mon, PDict([("a", True)])], {})
            env.vars["self"] = mon

        def post(I, env, outcome):
            eng = I.eng
            for f in allf[k0:k1]:
                names = atoms_of(f)
                w = {x: [z3.Bool(f"{x}{t}") for t in range(E2E_N)] for x in names}
                tr, fa, tu = [], [], []
                for n in range(1, E2E_N + 1):
                    s4 = sem4(f, w, 0, n)
                    tr.append((s4 >= PT) == sat(f, w, 0, n))
                    fa.append(z3.Implies(s4 == FALSE, z3.And(*[z3.Not(sat(f, w, 0, m)) for m in range(n, E2E_N + 1)])))
                    tu.append(z3.Implies(s4 == TRUE, z3.And(*[sat(f, w, 0, m) for m in range(n, E2E_N + 1)])))
                eng.check(f"{cn}#lemma.sem4_truthy_iff_sat", z3.And(*tr), detail=show(f))
                eng.check(f"{cn}#lemma.sem4_FALSE_only_if_no_extension_satisfies", z3.And(*fa), detail=show(f))
                eng.check(f"{cn}#lemma.sem4_TRUE_only_if_every_extension_satisfies", z3.And(*tu), detail=show(f))

        holder["c"] = C.Contract(tgt, params=dict(self=C.Const(None)), setup=setup, post=post, inline_all=True, bounded=True, note=f"formulas {k0}..{k1 - 1} of the families above, traces of length <= {E2E_N}", properties=("C11",))
        reg.add(holder["c"], key=key)

    LCH = 80
    for k in range(0, len(allf), LCH):
        make_lemma(k, min(k + LCH, len(allf)))
