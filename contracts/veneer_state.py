"""Sidecar contracts for property C14: simulations (and compilations) leave scenes, scenarios and global
state untouched, even on failure.

Oracle (property statement): "Running a simulation never changes the scene it started from or the compiled
scenario: every object property, including overridden and simulator-updated ones, reads the same afterwards,
every `override` is undone when its scenario ends [...].  This holds however the run ends -- completion,
rejection, guard violation, or an exception raised by user code or by the simulator at any point -- and
afterwards compiling, sampling and simulating behave exactly as in a fresh process."

=> *reset contracts*: when the veneer becomes inactive (`deactivate` with activity 0, `endSimulation`) EVERY
component of the module state equals its value in a fresh process; every context manager restores the component
it sets on every exit; `Simulation.__init__` reaches its whole clean-up from every exit of its `try` body;
`_stop` reverts every property overridden since the scenario started to its value before the FIRST override.

The list of state components is extracted mechanically from the module (pyvc.models_dyn.veneer_state_names)."""
import z3

from pyvc import builtins_model as bm
from pyvc import contracts as C
from pyvc import extract
from pyvc import models_dyn as MD
from pyvc.interp import BuiltinFn, ClassVal, FuncVal, SymRaise
from pyvc.values import Opaque, PDict, PExc, PList, PObj, PSet, PyvcError, SV, compare, sv_and, sv_not, tobool

from .common import repo_class

V = "scenic.syntax.veneer"
SIM = "scenic.core.simulators"
DS = "scenic.core.dynamics.scenarios"
OT = "scenic.core.object_types"

# Components whose restoration is the obligation of ANOTHER contract of this file (frame assumption of the
# reset contracts: when `deactivate` / `endSimulation` run, these have their fresh-process value).  Every
# other extracted component is given an arbitrary ("dirty") value at entry.
RESTORED_BY = {
    "evaluatingRequirement": "veneer.executeInRequirement#ensures.restored_on_every_exit",
    "evaluatingGuard": "veneer.executeInGuard#ensures.restored_on_every_exit",
    "loadingModel": "veneer.model#ensures.loadingModel_restored_on_every_exit",
}
# additionally at `deactivate` (compile time): no simulation is in progress (asserted by the code, guaranteed by endSimulation)
RESET_BY_END_SIMULATION = ("currentSimulation", "currentBehavior", "runningScenarios")
# components that only compilation writes (mechanically: not assigned by any function that can run during a simulation)
SIM_ENTRY_POINTS = ("beginSimulation", "endSimulation", "finishScenarioSetup", "executeInScenario", "executeInBehavior", "executeInGuard", "executeInRequirement", "startScenario", "endScenario")

TWO_D = {"Point": "Point2D", "OrientedPoint": "OrientedPoint2D", "Object": "Object2D"}


def _cls2d(name):
    return repo_class(f"{OT}:{TWO_D[name]}")


def snap(v):
    """One-level-deep copy of containers; heap objects by identity."""
    if isinstance(v, PList):
        return PList([snap(x) for x in v.items])
    if isinstance(v, PDict):
        return PDict([(k, snap(x)) for k, x in zip(v.keys, v.vals)])
    if isinstance(v, PSet):
        return PSet([snap(x) for x in v.items])
    if isinstance(v, tuple):
        return tuple(snap(x) for x in v)
    return v


def snapshot_state(I):
    st = MD.current_state(I)
    return {nm: snap(st.get(nm)) for nm in st.all_names()}


def writes_of(funcs):
    """Names assigned under a `global` declaration by the given module functions (mechanical)."""
    import ast

    m = extract.get_module(V)
    out = set()
    for fn in m.tree.body:
        if isinstance(fn, ast.FunctionDef) and fn.name in funcs:
            glob = {nm for n in ast.walk(fn) if isinstance(n, ast.Global) for nm in n.names}
            for n in ast.walk(fn):
                if isinstance(n, ast.Name) and isinstance(n.ctx, ast.Store) and n.id in glob:
                    out.add(n.id)
                # in-place mutation of a module-level container: x.append / x.remove / x.update / x.clear / x.pop
                if isinstance(n, ast.Call) and isinstance(n.func, ast.Attribute) and isinstance(n.func.value, ast.Name):
                    if n.func.attr in ("append", "remove", "update", "clear", "pop", "extend", "add") and n.func.value.id in MD.veneer_state_names()[0]:
                        out.add(n.func.value.id)
    return out


def dirty_value(I, nm, init):
    eng = I.eng
    if isinstance(init, bool):
        v = eng.fresh_bool(f"veneer.{nm}")
        eng.input_syms.append((f"veneer.{nm}", C.Bool(), v))
        return v
    if init is None:
        return PObj("Dirty", tag=f"<some {nm}>")
    if isinstance(init, PList):
        return PList([PObj("Dirty", tag=f"<entry of {nm}>")])
    if isinstance(init, PDict):
        return PDict([("dirtyParam", 1)])
    if isinstance(init, PSet):
        return PSet(["dirtyParam"])
    raise PyvcError(f"no dirty value for veneer.{nm} (initial {init!r})")


def set_mode2d(I, st, on):
    """State invariant tying `mode2D` to the swapped classes (established by activate/beginSimulation)."""
    st.set("mode2D", on)
    for nm in TWO_D:
        cls = _cls2d(nm) if on else st.initial(I, nm)
        st.set(nm, cls)
        st.set(f"{OT}.{nm}", cls)


def check_all_initial(I, cname, tag, only=None, skip=()):
    """One obligation per state component: it has its fresh-process value."""
    st = MD.current_state(I)
    for nm in st.all_names():
        if nm in skip or (only is not None and nm not in only):
            continue
        ok = MD.same_value(I, st.get(nm), st.initial(I, nm))
        I.eng.check(f"{cname}#ensures.{tag}[{nm}]", ok, detail=f"veneer.{nm} = {st.get(nm)!r}, fresh process: {st.initial(I, nm)!r}")


def exc_name(exc):
    return getattr(exc.cls, "name", getattr(exc.cls, "__name__", str(exc.cls)))


def register(reg):
    MD.install_veneer_state(reg)
    MD.install_iterators(reg)
    from pyvc import models_spec

    models_spec.install(reg)

    state_env = lambda I: MD.current_state(I).env  # noqa: E731

    reg.models[f"{DS}:DynamicScenario._dummy"] = lambda I, cls, namespace=None: PObj(cls, dict(_dummyNamespace=namespace, _setup=None, _compose=None, _prepared=True), tag="placeholder scenario")
    reg.trust("DynamicScenario._dummy", "stub: returns a fresh placeholder scenario object (its construction is not a carrier of C14)")
    reg.models[f"{V}:len"] = lambda I, obj: I.builtins["len"].fn(obj)
    reg.trust("veneer.len", "the module's own `len(obj)` (= obj.__len__()) is the built-in len on lists/tuples/dicts")

    # =============================================================================== deactivate
    def setup_deactivate(I, env):
        st = MD.current_state(I)
        n = 1 + I.eng.choose(2, "activity at entry (1 or 2)")
        env.vars["_n"] = n
        for nm in st.names:
            init = st.initial(I, nm)
            if nm == "activity":
                st.set(nm, n)
            elif nm == "scenarioStack":
                st.set(nm, PList([PObj("Scenario", tag=f"scenario of module {k}") for k in range(n)]))
            elif nm in RESTORED_BY or nm in RESET_BY_END_SIMULATION or nm in TWO_D or nm == "mode2D":
                pass
            else:
                st.set(nm, dirty_value(I, nm, init))
        set_mode2d(I, st, I.eng.choose(2, "mode2D at entry?") == 1)
        env.vars["_entry"] = snapshot_state(I)

    def post_deactivate(I, env, outcome):
        st = MD.current_state(I)
        name = "veneer.deactivate"
        n, entry = env.vars["_n"], env.vars["_entry"]
        if outcome[0] != "return":
            return
        I.eng.check(f"{name}#ensures.activity_decreases_by_one", st.get("activity") == n - 1)
        I.eng.check(f"{name}#ensures.stack_matches_activity", len(st.get("scenarioStack").items) == n - 1)
        if n - 1 == 0:
            check_all_initial(I, name, "fresh_process_state_when_inactive")
        else:
            I.eng.check(f"{name}#ensures.enclosing_module_scenario_is_current_again", st.get("currentScenario") is entry["scenarioStack"].items[n - 2])
            # compilation of the importing module goes on: its parameters, locks and 2D mode are kept
            for nm in ("_globalParameters", "lockedParameters", "lockedModel", "mode2D", "Point", "OrientedPoint", "Object"):
                I.eng.check(f"{name}#ensures.importing_module_keeps[{nm}]", MD.same_value(I, st.get(nm), entry[nm]))

    reg.add(
        C.Contract(
            f"{V}:deactivate",
            params={},
            closure_env=state_env,
            setup=setup_deactivate,
            post=post_deactivate,
            replay=replay_compile_twice,
            properties=("C14",),
        )
    )

    # =============================================================================== activate ; deactivate
    def setup_activate(I, env):
        eng = I.eng
        st = MD.current_state(I)
        opts = PObj("CompileOptions", tag="options")
        has_over = eng.choose(2, "parameter/model overrides?") == 1
        opts.fields["paramOverrides"] = PDict([("p", 5)]) if has_over else PDict()
        opts.fields["modelOverride"] = "some.model" if has_over else None
        opts.fields["mode2D"] = eng.choose(2, "options.mode2D?") == 1
        env.vars["options"] = opts
        env.vars["namespace"] = PDict()
        env.vars["_entry"] = snapshot_state(I)

    def post_activate(I, env, outcome):
        st = MD.current_state(I)
        name = "veneer.activate"
        if outcome[0] != "return":
            return
        opts = env.vars["options"]
        I.eng.check(f"{name}#ensures.activity_is_one", st.get("activity") == 1)
        stack = st.get("scenarioStack")
        I.eng.check(f"{name}#ensures.placeholder_scenario_pushed_and_current", len(stack.items) == 1 and st.get("currentScenario") is stack.items[-1])
        I.eng.check(f"{name}#ensures.mode2D_iff_requested", st.get("mode2D") is opts.fields["mode2D"])
        swapped = all(st.get(nm) is (_cls2d(nm) if opts.fields["mode2D"] else st.initial(I, nm)) and st.get(f"{OT}.{nm}") is st.get(nm) for nm in TWO_D)
        I.eng.check(f"{name}#ensures.classes_swapped_iff_mode2D", swapped)
        # ... and the matching deactivate brings back the fresh-process state (real code, run with the same state vector)
        I.run_function(MD.state_function(I, "deactivate"), [], {}, None)
        check_all_initial(I, name, "then_deactivate_gives_fresh_process_state")

    reg.add(
        C.Contract(
            f"{V}:activate",
            params=dict(options=C.Const(None), namespace=C.Const(None)),
            closure_env=state_env,
            setup=setup_activate,
            post=post_activate,
            properties=("C14",),
        )
    )

    # =============================================================================== endSimulation
    sim_written = writes_of(SIM_ENTRY_POINTS)

    def make_sim(I, mode2d):
        ns_orig = PDict([("x", PObj("Dist", tag="unsampled x"))])
        ns_sampled = PDict([("x", 3)])
        ns = PDict(list(zip(ns_sampled.keys, ns_sampled.vals)))
        scene = PObj("Scene", tag="scene")
        dyn = PObj("DynamicScenario", tag="top-level scenario")
        dyn.fields["_setup"] = Opaque("setup") if I.eng.choose(2, "scenario has a setup block?") == 1 else None
        dyn.bound = []
        dyn.fields["_bindTo"] = BuiltinFn("_bindTo", lambda sc: dyn.bound.append(sc))
        dyn.fields["_unbind"] = BuiltinFn("_unbind", lambda: None)  # modelled scenario: the real _bindTo / _unbind pair is under contract in section (6)
        opts = PObj("CompileOptions", tag="compileOptions")
        opts.fields["mode2D"] = mode2d
        scene.fields.update(dynamicScenario=dyn, params=PDict([("p", 1)]), compileOptions=opts, behaviorNamespaces=PDict([("mod", (ns, ns_sampled, ns_orig))]))
        sim = PObj("Simulation", tag="simulation")
        sim.fields["scene"] = scene
        sim.ns, sim.ns_orig, sim.ns_sampled = ns, ns_orig, ns_sampled
        return sim

    def setup_end(I, env):
        st = MD.current_state(I)
        mode2d = I.eng.choose(2, "mode2D during the simulation?") == 1
        sim = make_sim(I, mode2d)
        # code running at simulation time may have created (or deleted) module-level names: the live namespace at
        # the end of a simulation is not restricted to the keys it had when the scene was made
        drift = I.eng.choose(3, "namespace during the simulation: same names / a global was created / a global was deleted")
        if drift == 1:
            sim.ns.set("created_while_simulating", 7)
        elif drift == 2:
            sim.ns.pop("x")
        I.eng.input_syms.append(("namespace_drift", C.Const(None), ["same names", "a global was created while simulating", "a global was deleted while simulating"][drift]))
        env.vars["sim"] = sim
        for nm in st.names:
            if nm in sim_written and nm not in RESTORED_BY and nm not in TWO_D and nm != "mode2D":
                st.set(nm, dirty_value(I, nm, st.initial(I, nm)))
        st.set("currentSimulation", sim)
        set_mode2d(I, st, mode2d)

    def post_end(I, env, outcome):
        name = "veneer.endSimulation"
        if outcome[0] != "return":
            return
        check_all_initial(I, name, "fresh_process_state_after_simulation")
        sim = env.vars["sim"]
        I.eng.check(f"{name}#ensures.behavior_namespaces_rebound_to_unsampled_values", MD.same_value(I, sim.ns, sim.ns_orig))

    reg.add(
        C.Contract(
            f"{V}:endSimulation",
            params=dict(sim=C.Const(None)),
            closure_env=state_env,
            setup=setup_end,
            post=post_end,
            replay=replay_end_simulation,
            properties=("C14",),
        )
    )

    # =============================================================================== beginSimulation ; endSimulation
    def setup_begin(I, env):
        env.vars["sim"] = make_sim(I, I.eng.choose(2, "scene compiled in 2D mode?") == 1)

    def post_begin(I, env, outcome):
        st = MD.current_state(I)
        name = "veneer.beginSimulation"
        sim = env.vars["sim"]
        if outcome[0] != "return":
            return
        I.eng.check(f"{name}#ensures.simulation_and_scenario_current", st.get("currentSimulation") is sim and st.get("currentScenario") is sim.fields["scene"].fields["dynamicScenario"])
        I.eng.check(f"{name}#ensures.scenario_bound_to_scene", sim.fields["scene"].fields["dynamicScenario"].bound == [sim.fields["scene"]])
        I.eng.check(f"{name}#ensures.behavior_namespaces_rebound_to_sampled_values", MD.same_value(I, sim.ns, sim.ns_sampled))
        I.run_function(MD.state_function(I, "endSimulation"), [sim], {}, None)
        check_all_initial(I, name, "then_endSimulation_gives_fresh_process_state")
        I.eng.check(f"{name}#ensures.then_endSimulation_rebinds_namespaces", MD.same_value(I, sim.ns, sim.ns_orig))

    reg.add(
        C.Contract(
            f"{V}:beginSimulation",
            params=dict(sim=C.Const(None)),
            closure_env=state_env,
            setup=setup_begin,
            post=post_begin,
            inline=["isActive"],
            replay=replay_simulate_then_compile,
            properties=("C14",),
        )
    )

    # =============================================================================== context managers
    def drive_cm(I, gen, on_inside, exits):
        """Run a @contextmanager generator the way contextlib does: up to its yield, then the `with` body
        ends in one of `exits` (None = normally, else an exception class thrown in at the yield)."""
        k = I.eng.choose(len(exits), "how the with-body ends")
        how = exits[k]
        I.eng.input_syms.append(("with_body_ends", C.Const(None), "normally" if how is None else getattr(how, "__name__", getattr(how, "name", str(how)))))
        yields = []

        def hook(I_, v):
            yields.append(v)
            if len(yields) == 1:
                on_inside()
                if how is not None:
                    e = PExc(how, ("raised in the with-body",))
                    e.fields.update(obj=None, name="x")
                    raise SymRaise(e)
            return None

        prev = I.registry.yield_hook
        I.registry.yield_hook = hook
        try:
            try:
                I.iterate(gen)
                out = ("return", None)
            except SymRaise as sr:
                out = ("raise", sr.exc)
        finally:
            I.registry.yield_hook = prev
        return how, yields, out

    def cm_contract(fname, params, setup, inside, restored, extra_post=None, exits=None, inline=(), requires_note=None):
        cname = f"veneer.{fname}"
        exits = exits or [None, bm.AnyException, AttributeError]

        def post(I, env, outcome):
            st = MD.current_state(I)
            if outcome[0] != "return":
                # raised before the generator was even created: impossible for a generator function
                I.eng.check(f"{cname}#ensures.generator_created", False)
                return
            entry = snapshot_state(I)
            env.vars["_entry_state"] = entry
            seen = {}

            def on_inside():
                seen["ok"] = inside(I, env, st)

            how, yields, out = drive_cm(I, outcome[1], on_inside, exits)
            if not yields:
                # the code before the yield raised (an `assert` on the entry state)
                I.eng.check(f"{cname}#ensures.enters_under_its_precondition", False, detail=f"{out!r}")
                return
            I.eng.check(f"{cname}#ensures.yields_exactly_once", len(yields) == 1)
            I.eng.check(f"{cname}#ensures.component_set_inside_the_block", bool(seen.get("ok")))
            for nm in restored:
                I.eng.check(f"{cname}#ensures.restored_on_every_exit[{nm}]", MD.same_value(I, st.get(nm), entry[nm]), detail=f"exit: {getattr(how, '__name__', how)}")
            # frame: nothing else in the module state changes
            for nm in st.all_names():
                if nm not in restored:
                    I.eng.check(f"{cname}#ensures.other_components_untouched", MD.same_value(I, st.get(nm), entry[nm]), detail=nm)
            if how is None:
                I.eng.check(f"{cname}#ensures.normal_exit_stays_normal", out[0] == "return")
            else:
                I.eng.check(f"{cname}#ensures.exception_not_swallowed", out[0] == "raise")
            if extra_post is not None:
                extra_post(I, env, st, how, out)

        reg.add(
            C.Contract(
                f"{V}:{fname}",
                params=params,
                closure_env=state_env,
                setup=setup,
                post=post,
                inline=list(inline),
                note=requires_note,
                replay=make_cm_replay(fname),
                properties=("C14", "C13") if fname == "executeInGuard" else ("C14",),
            )
        )

    # ---- executeInGuard
    cm_contract(
        "executeInGuard",
        {},
        setup=lambda I, env: None,
        inside=lambda I, env, st: st.get("evaluatingGuard") is True,
        restored=["evaluatingGuard"],
    )

    # ---- executeInBehavior
    def setup_beh(I, env):
        st = MD.current_state(I)
        st.set("currentBehavior", PObj("Behavior", tag="enclosing behavior") if I.eng.choose(2, "inside another behavior?") == 1 else None)
        env.vars["behavior"] = PObj("Behavior", tag="behavior")

    cm_contract(
        "executeInBehavior",
        dict(behavior=C.Const(None)),
        setup=setup_beh,
        inside=lambda I, env, st: st.get("currentBehavior") is env.vars["behavior"],
        restored=["currentBehavior"],
    )

    # ---- executeInScenario
    def setup_scen(I, env):
        st = MD.current_state(I)
        outer = None
        if I.eng.choose(2, "inside another scenario?") == 1:
            outer = PObj("Scenario", tag="enclosing scenario")
            outer.fields.update(_ego=PObj("Object", tag="outer ego"), _workspace=PObj("Workspace", tag="outer workspace"))
        st.set("currentScenario", outer)
        st.set("_globalParameters", PDict([("outerParam", 1)]))
        sc = PObj("Scenario", tag="scenario")
        sc.fields.update(_ego=None, _workspace=None, _globalParameters=PDict([("innerParam", 2)]))
        env.vars["scenario"] = sc
        env.vars["inheritEgo"] = I.eng.choose(2, "inheritEgo?") == 1

    cm_contract(
        "executeInScenario",
        dict(scenario=C.Const(None), inheritEgo=C.Const(None)),
        setup=setup_scen,
        inside=lambda I, env, st: st.get("currentScenario") is env.vars["scenario"] and st.get("_globalParameters") is env.vars["scenario"].fields["_globalParameters"],
        restored=["currentScenario", "_globalParameters"],
    )

    # ---- executeInRequirement
    def setup_req(I, env):
        st = MD.current_state(I)
        sc = PObj("Scenario", tag="scenario")
        keys = [PObj("Object", tag=f"object {k}") for k in range(2)]
        vals = [PObj("Object", tag=f"sampled object {k}") for k in range(2)]
        sc.fields.update(objects=tuple(keys), _objects=PList(keys), _ego=keys[0])
        env.vars["_old_objects"], env.vars["_old_ego"] = sc.fields["_objects"], sc.fields["_ego"]
        env.vars["scenario"] = sc
        env.vars["boundEgo"] = vals[0] if I.eng.choose(2, "requirement has an ego?") == 1 else None
        env.vars["values"] = PDict(list(zip(keys, vals)))
        env.vars["_vals"] = vals
        # during a simulation the scenario is already current; during scene generation nothing is
        st.set("currentScenario", sc if I.eng.choose(2, "scenario already current?") == 1 else None)

    def inside_req(I, env, st):
        sc = env.vars["scenario"]
        objs = sc.fields["_objects"]
        return (
            st.get("evaluatingRequirement") is True
            and st.get("currentScenario") is sc
            and isinstance(objs, tuple)
            and len(objs) == 2
            and all(a is b for a, b in zip(objs, env.vars["_vals"]))
            and (env.vars["boundEgo"] is None or sc.fields["_ego"] is env.vars["boundEgo"])
        )

    def extra_req(I, env, st, how, out):
        sc = env.vars["scenario"]
        I.eng.check("veneer.executeInRequirement#ensures.scenario_objects_and_ego_restored_on_every_exit", sc.fields["_objects"] is env.vars["_old_objects"] and sc.fields["_ego"] is env.vars["_old_ego"])

    cm_contract(
        "executeInRequirement",
        dict(scenario=C.Const(None), boundEgo=C.Const(None), values=C.Const(None)),
        setup=setup_req,
        inside=inside_req,
        restored=["evaluatingRequirement", "currentScenario"],
        extra_post=extra_req,
        exits=[None, bm.AnyException, AttributeError, repo_class("scenic.core.distributions:RandomControlFlowError")],
        requires_note="precondition: `values` has an entry for every object of the scenario (Scenario.dependencies contains all instances)",
    )

    # =============================================================================== startScenario / endScenario
    def setup_start(I, env):
        st = MD.current_state(I)
        others = [PObj("Scenario", tag=f"running scenario {k}") for k in range(I.eng.choose(3, "number of running scenarios"))]
        st.set("runningScenarios", PList(others))
        env.vars["scenario"] = PObj("Scenario", tag="scenario")
        env.vars["_others"] = others

    def post_start(I, env, outcome):
        st = MD.current_state(I)
        name = "veneer.startScenario"
        if outcome[0] != "return":
            return
        lst, others, sc = st.get("runningScenarios"), env.vars["_others"], env.vars["scenario"]
        I.eng.check(f"{name}#ensures.appended_as_youngest", len(lst.items) == len(others) + 1 and lst.items[-1] is sc and all(a is b for a, b in zip(lst.items, others)))
        # a scenario that starts later and the matching endScenario calls, in either order
        later = PObj("Scenario", tag="later scenario")
        I.run_function(MD.state_function(I, "startScenario"), [later], {}, None)
        first = [sc, later] if I.eng.choose(2, "which one ends first") == 0 else [later, sc]
        for k, s in enumerate(first):
            I.run_function(MD.state_function(I, "endScenario"), [s, "reason"], {"quiet": True}, None)
            if k == 0:
                lst = st.get("runningScenarios")
                I.eng.check(f"{name}#ensures.endScenario_removes_exactly_the_given_scenario", len(lst.items) == len(others) + 1 and lst.items[-1] is first[1] and all(a is b for a, b in zip(lst.items, others)))
        lst = st.get("runningScenarios")
        I.eng.check(f"{name}#ensures.then_endScenario_restores_the_list", len(lst.items) == len(others) and all(a is b for a, b in zip(lst.items, others)))

    reg.add(C.Contract(f"{V}:startScenario", params=dict(scenario=C.Const(None)), closure_env=state_env, setup=setup_start, post=post_start, replay=replay_running_scenarios, properties=("C14",)))

    # =============================================================================== instantiateSimulator
    def setup_inst(I, env):
        env.vars["factory"] = Opaque("simulatorFactory")
        env.vars["params"] = PDict([("p", 1)])

    def post_inst(I, env, outcome):
        st = MD.current_state(I)
        check_all_initial(I, "veneer.instantiateSimulator", "parameters_cleared_on_every_exit", only=["_globalParameters"])

    reg.add(
        C.Contract(
            f"{V}:instantiateSimulator",
            params=dict(factory=C.Const(None), params=C.Const(None)),
            closure_env=state_env,
            setup=setup_inst,
            post=post_inst,
            raises=[C.Raises("Exception", mode="may")],
            properties=("C14",),
        )
    )


# ----------------------------------------------------------------------------------------------------
# replay drivers (REAL code)

PROG_INITIAL = """
scenario Main():
    setup:
        if initial scenario:
            ego = new Object with tag 1
        else:
            ego = new Object with tag 2
"""

PROG_DIRTY = """
from scenic.core.simulators import DummySimulator as DummySimulatorFactory
param p = 5
simulator DummySimulatorFactory()
scenario Sub():
    setup:
        ego = new Object
scenario Main():
    setup:
        ego = new Object
"""

# a simulation that exercises sub-scenarios ending out of order (A before B), nested behaviors (still running when
# the simulation ends) and 2D mode; the top-level scenario has no setup block, so compiling it leaves
# `inInitialScenario` untouched and what the simulation does to the module state can be told apart
PROG_SIM = """
behavior Inner():
    while True:
        take 1
behavior Outer():
    do Inner()
scenario A():
    setup:
        ego = new Object with behavior Outer
        terminate after 1 steps
scenario B():
    setup:
        b = new Object at (20, 20), with behavior Outer
        terminate after 5 steps
scenario Main():
    compose:
        do A(), B()
"""


def _veneer_snapshot():
    import copy

    import scenic.core.object_types as ot
    import scenic.syntax.veneer as veneer

    names, ext = MD.veneer_state_names()
    out = {}
    for nm in names:
        v = getattr(veneer, nm)
        out[nm] = copy.copy(v) if isinstance(v, (list, dict, set)) else v
    for path in ext:
        out[path] = getattr(ot, path.rsplit(".", 1)[1])
    return out


def _component(clause):
    return clause.split("[", 1)[1].rstrip("]") if "[" in clause else None


def _differs(a, b):
    return (a is not b) if not isinstance(a, (list, dict, set, bool, int, str, type(None))) else a != b


def replay_compile_twice(inputs, clause):
    """Compile programs in one process and compare the veneer state with the fresh-process state."""
    import scenic

    fresh = _veneer_snapshot()
    comp = _component(clause)
    first = scenic.scenarioFromString(PROG_INITIAL, scenario="Main")
    scenic.scenarioFromString(PROG_DIRTY, scenario="Main", mode2D=True, params={"q": 1}, model="scenic.simulators.newtonian.model")
    after = _veneer_snapshot()
    diffs = [nm for nm in fresh if _differs(fresh[nm], after[nm])]
    if comp is not None and comp not in diffs:
        return None
    if not diffs:
        return None
    nm = comp or diffs[0]
    second = scenic.scenarioFromString(PROG_INITIAL, scenario="Main")
    extra = ""
    if first.egoObject.tag != second.egoObject.tag:
        extra = f"; compiling the same program again in this process gives ego.tag = {second.egoObject.tag} instead of {first.egoObject.tag}"
    return f"after compilation veneer.{nm} = {after[nm]!r} (fresh process: {fresh[nm]!r}){extra}"


def make_cm_replay(fname):
    """Unit-level driver: the REAL context manager of scenic.syntax.veneer, entered from a dirty entry state and
    left normally or by an exception; the module globals are compared before / inside / after."""

    def replay(inputs, clause):
        import scenic  # noqa: F401
        import scenic.syntax.veneer as veneer
        from scenic.core.distributions import RandomControlFlowError
        from scenic.core.dynamics.scenarios import DynamicScenario

        kinds = {"normally": None, "AnyException": KeyError, "AttributeError": AttributeError, "RandomControlFlowError": RandomControlFlowError}
        how = inputs.get("with_body_ends") if isinstance(inputs, dict) else None
        todo = [how] if how in kinds else list(kinds)
        for kind in todo:
            exc = kinds[kind]
            saved = {nm: getattr(veneer, nm) for nm in ("currentBehavior", "currentScenario", "_globalParameters", "evaluatingGuard", "evaluatingRequirement")}
            try:
                outer = DynamicScenario._dummy({})
                outer._ego, outer._workspace = object(), object()
                scen = DynamicScenario._dummy({})
                scen._globalParameters = {"innerParam": 2}
                keys, vals = [object(), object()], [object(), object()]
                scen._objects, scen._ego = list(keys), keys[0]
                if fname == "executeInGuard":
                    args, watch = (), ["evaluatingGuard"]
                elif fname == "executeInBehavior":
                    veneer.currentBehavior = object()
                    args, watch = (object(),), ["currentBehavior"]
                elif fname == "executeInScenario":
                    veneer.currentScenario, veneer._globalParameters = outer, {"outerParam": 1}
                    args, watch = (scen, True), ["currentScenario", "_globalParameters"]
                else:
                    veneer.currentScenario = None
                    args, watch = (scen, vals[0], dict(zip(map(id, keys), vals))), ["evaluatingRequirement", "currentScenario"]

                    class ById(dict):
                        def __getitem__(self, k):
                            return dict.__getitem__(self, id(k))

                    args = (scen, vals[0], ById(args[2]))
                before = {nm: getattr(veneer, nm) for nm in watch}
                old_objs, old_ego = scen._objects, scen._ego
                leaked = None
                try:
                    with getattr(veneer, fname)(*args):
                        if exc is not None:
                            raise exc("raised in the with-body")
                except (KeyError, AttributeError, RuntimeError, NameError) as e:
                    leaked = e
                after = {nm: getattr(veneer, nm) for nm in watch}
                for nm in watch:
                    if after[nm] is not before[nm] and after[nm] != before[nm]:
                        return f"`with veneer.{fname}(...)` left {'normally' if exc is None else 'by ' + exc.__name__}: veneer.{nm} is {after[nm]!r} afterwards, {before[nm]!r} at entry"
                if fname == "executeInRequirement" and (scen._objects is not old_objs or scen._ego is not old_ego):
                    return f"`with veneer.executeInRequirement(...)` left {'normally' if exc is None else 'by ' + exc.__name__}: the scenario's objects/ego are not restored"
                if exc is not None and leaked is None:
                    return f"`with veneer.{fname}(...)` swallowed the {exc.__name__} raised in its body"
            finally:
                for nm, v in saved.items():
                    setattr(veneer, nm, v)
        return None

    return replay


def replay_running_scenarios(inputs, clause):
    """Sub-scenarios that end out of order: the list of running scenarios must name exactly the running ones."""
    import scenic
    import scenic.syntax.veneer as veneer
    from scenic.core.simulators import DummySimulation, DummySimulator

    seen = []

    class Sim(DummySimulation):
        def step(self):
            seen.append([(str(s), s._isRunning) for s in veneer.runningScenarios])
            super().step()

    class Simulator(DummySimulator):
        def createSimulation(self, scene, **kwargs):
            return Sim(scene, **kwargs)

    sc = scenic.scenarioFromString(PROG_SIM, scenario="Main")
    scene, _ = sc.generate()
    try:
        Simulator().simulate(scene, maxSteps=3)
    except AssertionError as e:
        import traceback

        where = traceback.extract_tb(e.__traceback__)[-1]
        return f"with sub-scenarios A (ends after 1 step) and B running in parallel the simulation fails with AssertionError at {where.filename.rsplit('/', 1)[-1]}:{where.lineno} ({where.line}); veneer.runningScenarios per step: {seen}"
    for k, lst in enumerate(seen):
        if any(not running for _, running in lst):
            return f"at step {k} veneer.runningScenarios lists a stopped scenario: {lst}"
    if veneer.runningScenarios:
        return f"veneer.runningScenarios = {veneer.runningScenarios} after the simulation"
    return None


def replay_end_simulation(inputs, clause):
    """Namespace clauses: a real program whose behavior creates / deletes a module-level name while the simulation
    runs; the module namespaces of the compiled scenario must read the same before and after the simulation."""
    if "namespace" not in clause:
        return replay_simulate_then_compile(inputs, clause)
    import scenic
    from scenic.core.simulators import DummySimulator

    progs = {
        "creates": "behavior Tally():\n    global visits\n    visits = 1\n    while True:\n        wait\nego = new Object with behavior Tally\n",
        "deletes": "helper = 5\nbehavior Drop():\n    global helper\n    del helper\n    while True:\n        wait\nego = new Object with behavior Drop\n",
        "rebinds": "speed = Range(1, 2)\nbehavior B():\n    global speed\n    speed = 'changed'\n    while True:\n        wait\nego = new Object with behavior B\n",
    }
    for what, src in progs.items():
        sc = scenic.scenarioFromString(src, mode2D=True)
        before = {mod: dict(ns) for mod, ns in sc.behaviorNamespaces.items()}
        scene, _ = sc.generate()
        DummySimulator().simulate(scene, maxSteps=2)
        for mod, ns in sc.behaviorNamespaces.items():
            b, a = before[mod], dict(ns)
            added = sorted(k for k in a if k not in b)
            gone = sorted(k for k in b if k not in a)
            changed = sorted(k for k in a if k in b and a[k] is not b[k])
            if added or gone or changed:
                return f"a behavior that {what} a module-level name while the simulation runs: after the simulation the module namespace of the compiled scenario has names added {added}, missing {gone}, rebound {changed} (it must read as before the simulation)"
    return None


def replay_simulate_then_compile(inputs, clause):
    """Compile + sample + simulate, then compare the veneer state with the fresh-process state."""
    import scenic
    from scenic.core.simulators import DummySimulator

    fresh = _veneer_snapshot()
    comp = _component(clause)
    sc = scenic.scenarioFromString(PROG_SIM, scenario="Main", mode2D=True)
    before = _veneer_snapshot()
    scene, _ = sc.generate()
    try:
        DummySimulator().simulate(scene, maxSteps=3)
    except AssertionError as e:
        import traceback

        where = traceback.extract_tb(e.__traceback__)[-1]
        return f"the simulation fails with AssertionError at {where.filename.rsplit('/', 1)[-1]}:{where.lineno} ({where.line})"
    after = _veneer_snapshot()
    diffs = [nm for nm in fresh if _differs(fresh[nm], after[nm]) and not _differs(fresh[nm], before[nm])]
    if comp is not None and comp not in diffs:
        return None
    if not diffs:
        return None
    nm = comp or diffs[0]
    a = scenic.scenarioFromString(PROG_INITIAL, scenario="Main")
    extra = f"; a program compiled afterwards in this process gets ego.tag = {a.egoObject.tag} (fresh process: 1)" if a.egoObject.tag != 1 else ""
    return f"after a simulation veneer.{nm} = {after[nm]!r} (before it and in a fresh process: {fresh[nm]!r}){extra}"


# ====================================================================================================
# (2) overrides: DynamicScenario._override / _stop, Constructible._override / _revert

PROPS = ("foo", "bar")
SUBSETS = (("foo",), ("bar",), ("foo", "bar"))


def make_specifier(I, props, tag):
    spec = PObj("Specifier", tag=tag)
    spec.fields["priorities"] = PDict([(p, 1) for p in props])
    spec.newvals = {}
    for p in props:
        v = I.eng.fresh_real(f"{tag}.{p}")
        I.eng.input_syms.append((f"{tag}.{p}", C.Real(), v))
        spec.newvals[p] = v
    spec.fields["value"] = PDict(list(spec.newvals.items()))
    return spec


def resolve_model(I, specifiers, defaults):
    """Contract of `_resolveSpecifiers` used here (its correctness is property C06): every property gets the value
    of the user specifier that specifies it, otherwise the value of its default specifier."""
    out = PDict()
    for p, d in zip(defaults.keys, defaults.vals):
        out.set(p, d.fields["value"].get(p))
    for spec in I.iterate(specifiers):
        for p in spec.fields["priorities"].keys:
            out.set(p, spec.fields["value"].get(p))
    return (out, None)


def make_overridable(I, tag="obj", behavior=None):
    """A `Constructible` with two user properties; `_override` / `_revert` are the REAL methods (inlined by the
    contracts below), only specifier resolution is modelled (`resolve_model`)."""
    obj = PObj(repo_class(f"{OT}:Constructible"), tag=tag)
    obj.orig = {}
    for p in PROPS:
        v = I.eng.fresh_real(f"obj.{p}")
        I.eng.input_syms.append((f"obj.{p}", C.Real(), v))
        obj.fields[p] = v
        obj.orig[p] = v
    obj.fields["behavior"] = behavior
    obj.fields["speed"] = 0
    obj.fields.update(properties=("foo", "bar", "behavior", "speed"), _propertiesSet=PSet(["foo", "bar", "behavior", "speed"]), _dynamicProperties=PDict([("speed", float)]), _needsSampling=False)
    obj.fields["_resolveSpecifiers"] = BuiltinFn("_resolveSpecifiers", lambda specs, defaults=None, overriding=False: resolve_model(I, specs, defaults))
    return obj


def make_running_scenario(I, tag="scenario"):
    sc = PObj(repo_class(f"{DS}:DynamicScenario"), tag=tag)
    sc.fields.update(
        _overrides=PDict(),
        _monitors=PList(),
        _subScenarios=PList(),
        _runningIterator=None,
        _isRunning=True,
        _requirementMonitors=PList(),
        _recordedExprs=PList(),
        _agent=None,
    )
    MD.current_state(I).get("runningScenarios").items.append(sc)
    return sc


def scenario_method(I, name):
    cls = repo_class(f"{DS}:DynamicScenario")
    return I.find_method(cls, name)


def register_overrides(reg):
    reg.models[f"{V}:verbosePrint"] = lambda I, *a, **k: None
    reg.trust("veneer.verbosePrint", "stub: printing only")

    def do_overrides(I, sc, obj, n):
        """n calls of the REAL DynamicScenario._override on the same object, each with a non-empty set of properties."""
        seq = []
        f = scenario_method(I, "_override")
        for k in range(n):
            props = SUBSETS[I.eng.choose(len(SUBSETS), f"properties of override #{k + 1}")]
            spec = make_specifier(I, props, f"override{k + 1}")
            I.run_function(f, [sc, obj, (spec,)], {}, reg.contracts[f"{DS}:DynamicScenario._override"].inline_view())
            seq.append(props)
        I.eng.input_syms.append(("overrides", C.Const(None), repr(seq)))
        return seq

    # ---- _stop reverts everything
    def setup_stop(I, env):
        sc = make_running_scenario(I)
        obj = make_overridable(I)
        n = 1 + I.eng.choose(2, "number of overrides of the object (1 or 2)")
        env.vars["self"], env.vars["_obj"] = sc, obj
        env.vars["reason"] = "finished"
        env.vars["quiet"] = I.eng.choose(2, "quiet stop (clean-up after an exception)?") == 1
        env.vars["_seq"] = do_overrides(I, sc, obj, n)

    def post_stop(I, env, outcome):
        name = "scenarios.DynamicScenario._stop[after-overrides]"
        obj = env.vars["_obj"]
        if outcome[0] != "return":
            return
        for p in PROPS:
            I.eng.check(f"{name}#ensures.overridden_property_reads_as_before_the_first_override[{p}]", compare("==", obj.fields[p], obj.orig[p]), detail=f"overrides: {env.vars['_seq']!r}")
        I.eng.check(f"{name}#ensures.scenario_no_longer_running", env.vars["self"].fields["_isRunning"] is False and env.vars["self"] not in MD.current_state(I).get("runningScenarios").items)

    reg.add(
        C.Contract(
            f"{DS}:DynamicScenario._stop",
            params=dict(self=C.Const(None), reason=C.Const(None), quiet=C.Const(None)),
            setup=setup_stop,
            post=post_stop,
            inline=["DynamicScenario._override", "Invocable._stop", "endScenario", "Constructible._override", "Constructible._revert"],
            replay=replay_override_twice,
            properties=("C14",),
        ),
        key=f"{DS}:DynamicScenario._stop[after-overrides]",
    )

    # ---- _override keeps, for every property overridden so far, the value before the FIRST override
    def setup_over(I, env):
        sc = make_running_scenario(I)
        obj = make_overridable(I)
        env.vars["self"], env.vars["obj"] = sc, obj
        first = I.eng.choose(2, "an earlier override of the same object?") == 1
        seq = do_overrides(I, sc, obj, 1) if first else []
        props = SUBSETS[I.eng.choose(len(SUBSETS), "properties of this override")]
        env.vars["specifiers"] = (make_specifier(I, props, "this_override"),)
        env.vars["_seq"] = seq + [props]

    def post_over(I, env, outcome):
        name = "scenarios.DynamicScenario._override"
        sc, obj = env.vars["self"], env.vars["obj"]
        if outcome[0] != "return":
            return
        saved = sc.fields["_overrides"].get(obj)
        touched = sorted({p for props in env.vars["_seq"] for p in props})
        for p in PROPS:
            if p in touched:
                ok = isinstance(saved, PDict) and saved.has(p) and compare("==", saved.get(p), obj.orig[p])
                I.eng.check(f"{name}#ensures.value_before_first_override_recorded[{p}]", ok, detail=f"overrides: {env.vars['_seq']!r}")
            else:
                ok = not (isinstance(saved, PDict) and saved.has(p)) or compare("==", saved.get(p), obj.orig[p])
                I.eng.check(f"{name}#ensures.untouched_property_not_clobbered[{p}]", ok)

    reg.add(
        C.Contract(
            f"{DS}:DynamicScenario._override",
            params=dict(self=C.Const(None), obj=C.Const(None), specifiers=C.Const(None)),
            setup=setup_over,
            post=post_over,
            inline=["DynamicScenario._override", "Constructible._override"],
            replay=replay_override_bookkeeping,
            properties=("C14",),
        )
    )

    # ---- Constructible._override / _revert themselves
    def specifier_ctor(I, cls, args, kwargs):
        s = PObj("Specifier", tag=f"<{args[0]} specifier>")
        s.fields.update(name=args[0], priorities=args[1], value=args[2])
        return s

    reg.constructors["scenic.core.specifiers:Specifier"] = specifier_ctor
    reg.trust("Specifier(...)", "constructor stub: records name, priorities and value (dependency bookkeeping is C06)")
    reg.trust("Constructible._resolveSpecifiers", "modelled by its contract: each property gets the value of the user specifier naming it, else of its default specifier (C06)")

    def setup_cover(I, env):
        eng = I.eng
        beh = PObj("Behavior", tag="behavior")
        beh.assigned = []
        beh.fields["_assignTo"] = BuiltinFn("_assignTo", lambda agent: beh.assigned.append(agent))
        self = make_overridable(I, behavior=beh if eng.choose(2, "object has a behavior?") == 1 else None)
        which = eng.choose(5, "overridden properties")
        props = [("foo",), ("bar",), ("foo", "bar"), ("speed",), ("nosuch",)][which]
        spec = PObj("Specifier", tag="override")
        spec.fields["priorities"] = PDict([(p, 1) for p in props])
        spec.newvals = {p: eng.fresh_real(f"new.{p}") for p in props}
        spec.fields["value"] = PDict(list(spec.newvals.items()))
        env.vars["self"], env.vars["specifiers"] = self, (spec,)
        env.vars["_props"], env.vars["_spec"] = props, spec

    def post_cover(I, env, outcome):
        name = "object_types.Constructible._override"
        self, props, spec = env.vars["self"], env.vars["_props"], env.vars["_spec"]
        if outcome[0] == "raise":
            I.eng.check(f"{name}#raises.SpecifierError.only_for_dynamic_or_unknown_property", exc_name(outcome[1]) == "SpecifierError" and props[0] in ("speed", "nosuch"))
            for p in PROPS:
                I.eng.check(f"{name}#raises.object_unchanged_when_refused", self.fields[p] is self.orig[p])
            return
        I.eng.check(f"{name}#raises.SpecifierError.must_for_dynamic_or_unknown_property", props[0] not in ("speed", "nosuch"))
        if props[0] in ("speed", "nosuch"):
            return
        old = outcome[1]
        ok = isinstance(old, PDict) and len(old.keys) == len(props) and all(old.has(p) and old.get(p) is self.orig[p] for p in props)
        I.eng.check(f"{name}#ensures.returns_exactly_the_previous_values_of_the_overridden_properties", ok)
        for p in PROPS:
            want = spec.newvals[p] if p in props else self.orig[p]
            I.eng.check(f"{name}#ensures.new_values_assigned_others_kept[{p}]", compare("==", self.fields[p], want))
        # ... and _revert (real code) with the returned values restores the object
        I.run_function(I.find_method(repo_class(f"{OT}:Constructible"), "_revert"), [self, old], {}, None)
        for p in PROPS:
            v = self.fields[p]
            I.eng.check(f"{name}#ensures.then_revert_restores[{p}]", compare("==", v, self.orig[p]) if isinstance(v, (SV, int, float)) else False)

    reg.add(
        C.Contract(
            f"{OT}:Constructible._override",
            params=dict(self=C.Const(None), specifiers=C.Const(None)),
            setup=setup_cover,
            post=post_cover,
            replay=replay_constructible_override,
            raises=[C.Raises("SpecifierError", mode="may")],
            properties=("C14",),
        )
    )


def replay_override_bookkeeping(inputs, clause):
    """The REAL DynamicScenario._override on a real object, with the sequence of overrides of the counter-model."""
    import ast as _ast

    import scenic
    from scenic.core.dynamics.scenarios import DynamicScenario
    from scenic.syntax.veneer import With

    seq = [("foo",), ("bar",)]
    if isinstance(inputs, dict) and "overrides" in inputs:
        seq = [tuple(x) for x in _ast.literal_eval(inputs["overrides"] or "[]")]
        this = tuple(k.split(".", 1)[1] for k in inputs if k.startswith("this_override."))
        if this:
            seq.append(this)
    sc = scenic.scenarioFromString("ego = new Object with foo 0, with bar 0")
    scene, _ = sc.generate()
    obj = scene.objects[0]
    ds = DynamicScenario._dummy({})
    for k, props in enumerate(seq):
        ds._override(obj, [With(p, k + 1) for p in props])
    saved = ds._overrides.get(obj, {})
    want = clause.split("[", 1)[1].rstrip("]") if "[" in clause else None
    for prop in sorted({p for props in seq for p in props}):
        if want in ("foo", "bar") and want != prop:
            continue
        if saved.get(prop, "<nothing>") != 0:
            return f"after the overrides {seq} of one object (all properties 0 before), the scenario's record of values to restore is {saved}: for {prop} it has {saved.get(prop, '<nothing>')} instead of 0"
    return None


def replay_constructible_override(inputs, clause):
    """The REAL Constructible._override / _revert on a real object."""
    import scenic
    from scenic.core.errors import SpecifierError
    from scenic.syntax.veneer import With

    sc = scenic.scenarioFromString("ego = new Object with foo 0, with bar 0")
    scene, _ = sc.generate()
    obj = scene.objects[0]
    for props in (("foo",), ("bar",), ("foo", "bar")):
        old = obj._override([With(p, 7) for p in props])
        if old != {p: 0 for p in props}:
            return f"_override with {props} returned {old} as previous values (all properties were 0)"
        for p in ("foo", "bar"):
            if getattr(obj, p) != (7 if p in props else 0):
                return f"after _override with {props}, {p} reads {getattr(obj, p)}"
        obj._revert(old)
        if (obj.foo, obj.bar) != (0, 0):
            return f"_override with {props} then _revert with the returned values leaves foo, bar = {(obj.foo, obj.bar)} (were 0, 0)"
    for prop in ("speed", "nosuch"):
        try:
            obj._override([With(prop, 1)])
        except SpecifierError:
            continue
        return f"overriding {'the dynamic property' if prop == 'speed' else 'the unknown property'} {prop!r} is accepted"
    try:
        obj._override([With("foo", 1)])
    except SpecifierError:
        return "overriding the ordinary property 'foo' raises SpecifierError"
    return None


def replay_proxy(inputs, clause):
    """The REAL dynamic-proxy functions and Object attribute protocol on a real object."""
    import scenic
    from scenic.core.object_types import disableDynamicProxyFor, enableDynamicProxyFor

    sc = scenic.scenarioFromString("ego = new Object with foo 5")
    scene, _ = sc.generate()
    obj = scene.objects[0]
    raw = lambda: dict(object.__getattribute__(obj, "__dict__"))  # noqa: E731
    enableDynamicProxyFor(obj)
    before = raw()
    before.pop("_dynamicProxy")
    if object.__getattribute__(obj, "_dynamicProxy") is obj:
        return "enableDynamicProxyFor left the object as its own proxy"
    if obj.foo != 5:
        return f"right after enabling the proxy obj.foo reads {obj.foo} (5 before)"
    obj.foo = 9
    obj.carlaActor = "actor"
    now = raw()
    now.pop("_dynamicProxy")
    changed = [k for k in set(before) | set(now) if before.get(k, "<absent>") is not now.get(k, "<absent>")]
    if changed:
        return f"writes through the object during a simulation changed the original's own attributes {sorted(changed)}"
    if obj.foo != 9 or obj.carlaActor != "actor":
        return f"values written during the simulation do not read back (foo = {obj.foo})"
    del obj.carlaActor
    if hasattr(obj, "carlaActor"):
        return "del through the object did not remove the attribute from the proxy"
    disableDynamicProxyFor(obj)
    if object.__getattribute__(obj, "_dynamicProxy") is not obj:
        return "after disableDynamicProxyFor the object is not its own proxy"
    if obj.foo != 5:
        return f"after the simulation obj.foo reads {obj.foo} (5 before it)"
    return None


def replay_override_twice(inputs, clause):
    """A real dynamic scenario overriding properties of the same object with the sequence of `override`
    statements of the counter-model (default: foo, then bar)."""
    import ast as _ast

    import scenic
    from scenic.core.simulators import DummySimulator

    seq = [("foo",), ("bar",)]
    if isinstance(inputs, dict) and inputs.get("overrides"):
        seq = [tuple(x) for x in _ast.literal_eval(inputs["overrides"])]
        if any(k.startswith("this_override.") for k in inputs):
            seq.append(tuple(k.split(".", 1)[1] for k in inputs if k.startswith("this_override.")))
    stmts = []
    for k, props in enumerate(seq):
        stmts.append("        override ego " + ", ".join(f"with {p} {k + 1}" for p in props))
    src = (
        "behavior B():\n    while True:\n        take 1\n"
        "scenario Sub():\n    setup:\n" + "\n".join(stmts) + "\n        terminate after 2 steps\n"
        "scenario Main():\n    setup:\n        ego = new Object with foo 0, with bar 0, with behavior B\n"
        "        record ego.foo as foo\n        record ego.bar as bar\n    compose:\n        do Sub()\n        wait\n        wait\n"
    )
    sc = scenic.scenarioFromString(src, scenario="Main")
    scene, _ = sc.generate()
    sim = DummySimulator().simulate(scene, maxSteps=6)
    want = clause.split("[", 1)[1].rstrip("]") if "[" in clause else None
    for prop in ("foo", "bar"):
        if want in ("foo", "bar") and want != prop:
            continue
        series = dict(sim.result.records[prop])
        last = series[max(series)]
        if last != 0:
            return (
                f"scenario Sub does {'; '.join(x.strip() for x in stmts)} and stops after 2 steps; afterwards ego.{prop} still reads {last} "
                f"(before the overrides: 0); recorded {prop}: {sorted(series.items())}"
            )
    return None


# ====================================================================================================
# (3) Simulation.__init__: the clean-up is reached from every exit of the try body


def register_simulation_cleanup(reg):
    SIMCLS = f"{SIM}:Simulation"
    REJECT = "scenic.core.dynamics.utils:RejectSimulationException"

    def result_ctor(I, cls, args, kwargs):
        r = PObj(cls, tag="result")
        r.fields["args"] = tuple(args)
        return r

    reg.constructors[f"{SIM}:SimulationResult"] = result_ctor
    reg.trust("SimulationResult(...)", "constructor stub: a record of its arguments")

    def setup_init(I, env):
        eng = I.eng
        st = MD.current_state(I)
        log = []
        env.vars["_log"] = log
        # ---- scene: two objects, the first is an agent
        objs = []
        for k in range(2):
            o = PObj("Object", tag=f"object {k}")
            o.fields["_dynamicProxy"] = o
            o.fields["_copyWith"] = BuiltinFn("_copyWith", lambda o=o: PObj("Object", tag=f"proxy of {o.tag}"))
            o.fields["startDynamicSimulation"] = BuiltinFn("startDynamicSimulation", lambda o=o: MD.maybe_raise(I, f"{o.tag}.startDynamicSimulation()"))
            o.fields["behavior"] = None
            objs.append(o)
        beh = PObj("Behavior", tag="behavior of object 0")
        beh.fields["_isRunning"] = False

        def beh_stop(reason=None):
            log.append(("behavior._stop",))
            beh.fields["_isRunning"] = False

        beh.fields["_stop"] = BuiltinFn("_stop", beh_stop)
        objs[0].fields["behavior"] = beh

        dyn = PObj("DynamicScenario", tag="top-level scenario")
        dyn.fields["_setup"] = None
        dyn.fields["_isRunning"] = False
        dyn.fields["_bindTo"] = BuiltinFn("_bindTo", lambda sc: None)
        dyn.fields["_unbind"] = BuiltinFn("_unbind", lambda: None)  # see section (6)

        def dyn_start():
            dyn.fields["_isRunning"] = True
            st.get("runningScenarios").items.append(dyn)
            MD.maybe_raise(I, "dynamicScenario._start(): a precondition of the scenario is violated")
            beh.fields["_isRunning"] = True
            MD.maybe_raise(I, "dynamicScenario._start(): a precondition of a monitor is violated (behaviors already started)")

        def dyn_stop(reason, quiet=False):
            log.append(("scenario._stop", reason, quiet))
            st.get("runningScenarios").items.remove(dyn)
            dyn.fields["_isRunning"] = False
            if not quiet:
                MD.maybe_raise(I, "scenario._stop(): a `require eventually` was never satisfied", repo_class(REJECT))
            return reason

        dyn.fields["_start"] = BuiltinFn("_start", dyn_start)
        dyn.fields["_stop"] = BuiltinFn("_stop", dyn_stop)

        def rec(ty, step):
            MD.maybe_raise(I, "a `record final` expression raises")
            return PDict([("r", 1)])

        dyn.fields["_evaluateRecordedExprs"] = BuiltinFn("_evaluateRecordedExprs", rec)
        opts = PObj("CompileOptions", tag="compileOptions")
        opts.fields["mode2D"] = eng.choose(2, "scene compiled in 2D mode?") == 1
        scene = PObj("Scene", tag="scene")
        scene.fields.update(dynamicScenario=dyn, objects=tuple(objs), params=PDict([("p", 1)]), compileOptions=opts, behaviorNamespaces=PDict())

        # ---- the simulation object: simulator-specific methods are models that log and may raise
        self = PObj(repo_class(SIMCLS), tag="simulation")
        self.fields["initializeReplay"] = BuiltinFn("initializeReplay", lambda *a: None)
        self.fields["createObjectInSimulator"] = BuiltinFn("createObjectInSimulator", lambda o: MD.maybe_raise(I, f"createObjectInSimulator({o.tag})"))
        base_setup = I.find_method(repo_class(SIMCLS), "setup")

        def sim_setup():
            # a simulator interface's setup(): custom work, the base implementation (REAL code), more custom work
            MD.maybe_raise(I, "simulator-specific setup() before it calls the base implementation")
            I.run_function(base_setup, [self], {}, None)
            MD.maybe_raise(I, "simulator-specific setup() after the base implementation")

        self.fields["setup"] = BuiltinFn("setup", sim_setup)
        self.fields["updateObjects"] = BuiltinFn("updateObjects", lambda: MD.maybe_raise(I, "updateObjects(): the simulator read-back raises"))

        def run(dynamicScenario, maxSteps):
            MD.maybe_raise(I, "_run(): the simulator's step() raises")
            MD.maybe_raise(I, "_run(): the simulation is rejected", repo_class(REJECT))
            return ("termination type", "reason")

        self.fields["_run"] = BuiltinFn("_run", run)

        def destroy():
            log.append(("destroy",))
            MD.maybe_raise(I, "cleanup: destroy() raises")

        self.fields["destroy"] = BuiltinFn("destroy", destroy)
        env.vars.update(self=self, scene=scene, maxSteps=5, name="sim", timestep=None)
        env.vars["_objs"], env.vars["_beh"], env.vars["_dyn"] = objs, beh, dyn

    def post_init(I, env, outcome):
        eng = I.eng
        st = MD.current_state(I)
        faults = MD.faults_on_path(I)
        cleanup_faults = [f for f in faults if f.startswith("cleanup:")]
        body_faults = [f for f in faults if not f.startswith("cleanup:")]
        where = "destroy_raises" if cleanup_faults else ("failure_in_try_body" if body_faults else "normal_run")
        name = "simulators.Simulation.__init__"
        detail = f"faults: {faults!r}; outcome: {outcome[0]} {outcome[1] if outcome[0] == 'raise' else ''}"
        eng.input_syms.append(("faults", C.Const(None), repr(faults)))
        log, objs, beh, dyn = env.vars["_log"], env.vars["_objs"], env.vars["_beh"], env.vars["_dyn"]

        def chk(what, ok, extra=""):
            eng.check(f"{name}#ensures.{what}@{where}", ok, detail=detail + extra)

        if not faults:
            chk("returns_normally_with_a_result", outcome[0] == "return" and env.vars["self"].fields.get("result") is not None)
        elif not cleanup_faults:
            # the exception that ended the run is the one the caller sees (not one raised by the clean-up itself)
            ok = outcome[0] == "raise" and bool(outcome[1].args) and outcome[1].args[0] == f"raised by {body_faults[0]}"
            chk("the_original_exception_propagates", ok)
        chk("destroy_called_exactly_once", log.count(("destroy",)) == 1)
        chk("every_dynamic_proxy_disabled", all(o.fields["_dynamicProxy"] is o for o in objs))
        chk("no_behavior_or_scenario_left_running", beh.fields["_isRunning"] is False and dyn.fields["_isRunning"] is False and not st.get("runningScenarios").items)
        if body_faults and not body_faults[0].startswith(("scenario._stop", "a `record final`")):
            # stopped by the clean-up: without evaluating `require eventually` (which could reject and hide the failure)
            chk("scenarios_stopped_quietly_after_a_failure", all(e[2] is True for e in log if e[0] == "scenario._stop"))
        dirty = [nm for nm in st.all_names() if MD.same_value(I, st.get(nm), st.initial(I, nm)) is not True]
        chk("veneer_state_as_in_a_fresh_process", not dirty, extra="; differing components: " + ", ".join(f"{nm} = {st.get(nm)!r}" for nm in dirty))

    reg.add(
        C.Contract(
            f"{SIMCLS}.__init__",
            params=dict(self=C.Const(None), scene=C.Const(None), maxSteps=C.Const(None), name=C.Const(None), timestep=C.Const(None)),
            setup=setup_init,
            post=post_init,
            inline=["isActive", "Simulation._createObject", "enableDynamicProxyFor", "disableDynamicProxyFor", "Simulation.setup"],
            raises=[C.Raises("Exception", mode="may")],
            replay=replay_simulation_faults,
            note="bounded: a scene of two objects (one agent); every modelled callee of the try body may raise; in the clean-up only the simulator's destroy() may raise",
            bounded=True,
            properties=("C14",),
        )
    )


FAULT_PROGRAM = """
behavior B():
    while True:
        take 1
class Thing(Object):
    def startDynamicSimulation(self):
        if globalParameters.failStart == self.idx:
            raise RuntimeError("startDynamicSimulation failed")
param failStart = -1
ego = new Thing with behavior B, with idx 0
other = new Thing at (10, 10), with idx 1
"""


def replay_simulation_faults(inputs, clause):
    """Inject the fault of the counter-model into a real simulation (DummySimulation subclass / real Scenic
    program), then look at the veneer state, the scene's objects and a second simulation of the same scene."""
    import ast as _ast

    import scenic
    from scenic.core.simulators import DummySimulation, DummySimulator

    faults = _ast.literal_eval(inputs.get("faults", "[]")) if isinstance(inputs, dict) else []
    if not faults:
        return None

    class Boom(Exception):
        pass

    def boom(*a, **k):
        raise Boom("injected")

    methods = {}
    program, params, expect_boom = FAULT_PROGRAM, {}, True
    for fault in faults:
        if fault.startswith("simulator-specific setup() before"):

            def setup(self):
                boom()
                super(Sim, self).setup()

            methods["setup"] = setup
        elif fault.startswith("simulator-specific setup() after"):

            def setup(self):
                super(Sim, self).setup()
                boom()

            methods["setup"] = setup
        elif fault.startswith("createObjectInSimulator(object 1"):
            state = {"n": 0}

            def create(self, obj):
                state["n"] += 1
                if state["n"] == 2:
                    boom()

            methods["createObjectInSimulator"] = create
        elif fault.startswith("createObjectInSimulator"):
            methods["createObjectInSimulator"] = boom
        elif fault.startswith("object 0.startDynamicSimulation"):
            params, expect_boom = {"failStart": 0}, False
        elif fault.startswith("object 1.startDynamicSimulation"):
            params, expect_boom = {"failStart": 1}, False
        elif fault.startswith("updateObjects"):
            methods["getProperties"] = boom
        elif fault.startswith("_run(): the simulator's step"):
            methods["step"] = boom
        elif fault.startswith("_run(): the simulation is rejected"):
            program, expect_boom = FAULT_PROGRAM + "require always False\n", False
        elif fault.startswith("scenario._stop()"):
            program, expect_boom = FAULT_PROGRAM + "require eventually False\n", False
        elif fault.startswith("a `record final`"):
            program, expect_boom = FAULT_PROGRAM + "record final (1 / (ego.idx)) as boom\n", False
        elif fault.startswith("dynamicScenario._start(): a precondition of the scenario"):
            program, expect_boom = FAULT_PROGRAM.replace("behavior B():", "behavior B():\n    precondition: False"), False
        elif fault.startswith("dynamicScenario._start(): a precondition of a monitor"):
            program, expect_boom = FAULT_PROGRAM + "monitor M():\n    precondition: False\n    wait\nrequire monitor M()\n", False
        elif fault.startswith("cleanup: destroy"):
            methods["destroy"] = boom
        else:
            return None
    Sim = type("Sim", (DummySimulation,), methods)

    class Simulator(DummySimulator):
        def createSimulation(self, scene, **kwargs):
            return Sim(scene, **kwargs)

    fresh = _veneer_snapshot()
    sc = scenic.scenarioFromString(program, params=params)
    scene, _ = sc.generate()
    seen = None
    try:
        Simulator().simulate(scene, maxSteps=2, maxIterations=1, raiseGuardViolations=True)
    except BaseException as e:  # noqa
        seen = e
    after = _veneer_snapshot()
    problems = []
    body_fault = [f for f in faults if not f.startswith("cleanup:")]
    if body_fault and not methods.get("destroy") and isinstance(seen, (AttributeError, AssertionError)):
        problems.append(f"the caller sees {type(seen).__name__}: {seen} instead of the exception that ended the run")
    dirty = [nm for nm in fresh if _differs(fresh[nm], after[nm])]
    for nm in dirty:
        problems.append(f"veneer.{nm} = {after[nm]!r} afterwards (fresh process: {fresh[nm]!r})")
    for k, o in enumerate(scene.objects):
        if object.__getattribute__(o, "_dynamicProxy") is not o:
            problems.append(f"scene object {k} still reads through its dynamic proxy")
        b = o.behavior
        if b is not None and b._isRunning:
            problems.append(f"the behavior of scene object {k} is still running")
    if problems:
        try:
            DummySimulator().simulate(scene, maxSteps=2)
        except BaseException as e:  # noqa
            problems.append(f"a later simulation of the same scene with the plain DummySimulator fails with {type(e).__name__}: {e}")
    what = clause.split("#ensures.")[-1].split("@")[0]
    relevant = {
        "the_original_exception_propagates": ("the caller sees",),
        "every_dynamic_proxy_disabled": ("dynamic proxy",),
        "no_behavior_or_scenario_left_running": ("still running", "runningScenarios"),
        "veneer_state_as_in_a_fresh_process": ("veneer.",),
    }.get(what)
    if relevant is not None:
        if not any(any(r in p for r in relevant) for p in problems):
            return None
    if not problems:
        return None
    return f"fault injected: {faults!r}: " + "; ".join(problems[:5])


# ====================================================================================================
# (4) dynamic proxy isolation


def register_proxy(reg):
    OBJ = f"{OT}:Object"

    def make_obj(I):
        o = PObj(repo_class(OBJ), tag="obj")
        o.fields["foo"] = I.eng.fresh_real("obj.foo")
        o.fields["_dynamicProxy"] = o
        o.copies = []

        def copy_with(**kw):
            c = PObj(repo_class(OBJ), tag="copy of obj")
            c.fields.update({k: v for k, v in o.fields.items() if k not in ("_dynamicProxy", "_copyWith")})
            c.fields["_dynamicProxy"] = c
            o.copies.append(c)
            return c

        o.fields["_copyWith"] = BuiltinFn("_copyWith", copy_with)
        return o

    def method(I, name):
        return I.find_method(repo_class(OBJ), name)

    def setup_enable(I, env):
        env.vars["obj"] = make_obj(I)

    def post_enable(I, env, outcome):
        try:
            return post_enable_inner(I, env, outcome)
        except SymRaise as sr:
            I.eng.check("object_types.enableDynamicProxyFor#ensures.attribute_protocol_does_not_raise", False, detail=repr(sr.exc))

    def post_enable_inner(I, env, outcome):
        name = "object_types.enableDynamicProxyFor"
        o = env.vars["obj"]
        if outcome[0] != "return":
            return
        orig = dict(o.fields)
        proxy = o.fields["_dynamicProxy"]
        I.eng.check(f"{name}#ensures.proxy_is_a_fresh_copy", proxy is not o and len(o.copies) == 1 and proxy is o.copies[0])
        # reads through the object see the copy's value, which equals the original's
        r = I.run_function(method(I, "__getattribute__"), [o, "foo"], {}, None)
        I.eng.check(f"{name}#ensures.reads_unchanged_right_after_enabling", compare("==", r, orig["foo"]))
        # a write through the object (simulator read-back, override, user code) changes the copy only
        new = I.eng.fresh_real("written")
        I.run_function(method(I, "__setattr__"), [o, "foo", new], {}, None)
        I.eng.check(f"{name}#ensures.writes_go_to_the_proxy", compare("==", proxy.fields["foo"], new))
        I.eng.check(f"{name}#ensures.original_fields_untouched_by_writes", all(o.fields[k] is v for k, v in orig.items()) and len(o.fields) == len(orig))
        r = I.run_function(method(I, "__getattribute__"), [o, "foo"], {}, None)
        I.eng.check(f"{name}#ensures.reads_see_the_written_value_during_the_simulation", compare("==", r, new))
        # a new attribute set during the simulation does not appear on the original either
        I.run_function(method(I, "__setattr__"), [o, "carlaActor", "actor"], {}, None)
        I.eng.check(f"{name}#ensures.new_attributes_land_on_the_proxy", "carlaActor" not in o.fields and proxy.fields.get("carlaActor") == "actor")
        I.run_function(method(I, "__delattr__"), [o, "carlaActor"], {}, None)
        I.eng.check(f"{name}#ensures.deletes_act_on_the_proxy", "carlaActor" not in proxy.fields and len(o.fields) == len(orig))
        # after the simulation: reads give the original values again
        from pyvc.interp import FuncVal as _F

        dis = I.resolve_global(extract.get_module(OT), "disableDynamicProxyFor")
        I.run_function(dis, [o], {}, None)
        I.eng.check(f"{name}#ensures.then_disable_makes_the_object_its_own_proxy", o.fields["_dynamicProxy"] is o)
        r = I.run_function(method(I, "__getattribute__"), [o, "foo"], {}, None)
        I.eng.check(f"{name}#ensures.then_disable_reads_the_original_value", compare("==", r, orig["foo"]))

    reg.add(
        C.Contract(
            f"{OT}:enableDynamicProxyFor",
            params=dict(obj=C.Const(None)),
            setup=setup_enable,
            post=post_enable,
            replay=replay_proxy,
            properties=("C14",),
        )
    )


# ====================================================================================================
# (5) scenario start / stop: nested overrides are unwound innermost first; nothing that depends on one simulation
#     (time limit in steps, running flag) survives on the compile-time scenario object into the next simulation


def register_start_stop(reg):
    # =============================================================================== _stop with a running child overriding the same object
    def setup_nested(I, env):
        eng = I.eng
        parent = make_running_scenario(I, "parent scenario")
        child = make_running_scenario(I, "child scenario (still running)")
        parent.fields["_subScenarios"] = PList([child])
        obj = make_overridable(I)
        seen = []
        mon = PObj("Monitor", tag="monitor of the parent")
        mon.fields["_isRunning"] = True

        def mon_stop(reason=None):
            mon.fields["_isRunning"] = False
            seen.append(("monitor stopped", {p: obj.fields[p] for p in PROPS}))

        mon.fields["_stop"] = BuiltinFn("_stop", mon_stop)
        parent.fields["_monitors"] = PList([mon])
        view = reg.contracts[f"{DS}:DynamicScenario._override"].inline_view()
        f = scenario_method(I, "_override")
        pp = SUBSETS[eng.choose(len(SUBSETS), "properties overridden by the parent")]
        cp = SUBSETS[eng.choose(len(SUBSETS), "properties overridden by the child")]
        I.run_function(f, [parent, obj, (make_specifier(I, pp, "parent_override"),)], {}, view)
        I.run_function(f, [child, obj, (make_specifier(I, cp, "child_override"),)], {}, view)
        eng.input_syms.append(("nested", C.Const(None), repr((pp, cp))))
        env.vars.update(self=parent, reason="time limit reached", quiet=eng.choose(2, "quiet stop?") == 1)
        env.vars["_world"] = (parent, child, obj, mon, seen, pp, cp, {p: obj.fields[p] for p in PROPS})

    def post_nested(I, env, outcome):
        name = "scenarios.DynamicScenario._stop[nested-overrides]"
        parent, child, obj, mon, seen, pp, cp, before_stop = env.vars["_world"]
        if outcome[0] != "return":
            return
        detail = f"parent overrides {pp}, its running child overrides {cp}"
        for p in PROPS:
            I.eng.check(f"{name}#ensures.property_overridden_by_the_scenario_or_its_sub_scenarios_reads_as_before_the_first_override[{p}]", compare("==", obj.fields[p], obj.orig[p]), detail=detail)
        I.eng.check(f"{name}#ensures.running_sub_scenarios_and_monitors_are_stopped", child.fields["_isRunning"] is False and mon.fields["_isRunning"] is False and not MD.current_state(I).get("runningScenarios").items)
        # step 1e: "first recursively stop any sub-scenarios it is running, THEN revert the effects of any override statements it executed"
        ok = len(seen) == 1 and all(seen[0][1][p] is before_stop[p] for p in PROPS)
        I.eng.check(f"{name}#ensures.own_overrides_still_in_place_while_monitors_and_sub_scenarios_are_being_stopped", ok, detail=detail)

    reg.add(
        C.Contract(
            f"{DS}:DynamicScenario._stop",
            params=dict(self=C.Const(None), reason=C.Const(None), quiet=C.Const(None)),
            setup=setup_nested,
            post=post_nested,
            inline=["DynamicScenario._stop", "DynamicScenario._override", "Invocable._stop", "endScenario", "Constructible._override", "Constructible._revert"],
            replay=replay_nested_overrides,
            bounded=True,
            note="bounded: one parent with one running child scenario and one monitor; both scenarios override one or both of two properties of the same object",
            properties=("C14",),
        ),
        key=f"{DS}:DynamicScenario._stop[nested-overrides]",
    )

    # =============================================================================== _start, twice on the same compile-time object
    BEH = "scenic.core.dynamics.behaviors:Behavior"

    def make_compiled_scenario(I, spec, tag, faults):
        """The scenario object as compilation leaves it (`__init__` values; time limit from `terminate after`)."""
        sc = PObj(repo_class(f"{DS}:DynamicScenario"), tag=tag)
        flag = {"on": faults}
        sc.fault_flag = flag
        agent = PObj("Object", tag="agent")
        beh = PObj(repo_class(BEH), tag="behavior")
        beh.fields["_assignTo"] = BuiltinFn("_assignTo", lambda a: flag["on"] and MD.maybe_raise(I, "behavior._assignTo(): a precondition of the behavior is violated"))
        agent.fields["behavior"] = beh
        mon = PObj("Monitor", tag="monitor")
        mon.fields["_isRunning"] = False

        def mon_start():
            if flag["on"]:
                MD.maybe_raise(I, "monitor._start(): a precondition of the monitor is violated")
            mon.fields["_isRunning"] = True

        def mon_stop(reason=None):
            mon.fields["_isRunning"] = False

        mon.fields["_start"], mon.fields["_stop"] = BuiltinFn("_start", mon_start), BuiltinFn("_stop", mon_stop)
        treq = PObj("DynamicRequirement", tag="temporal requirement")
        treq.fields["toMonitor"] = BuiltinFn("toMonitor", lambda: PObj("RequirementMonitor", dict(lastValue=PObj("B4", dict(is_falsy=False), tag="value")), tag="requirement monitor"))

        def check_pre():
            if flag["on"]:
                MD.maybe_raise(I, "the scenario's own precondition is violated when it starts (check delayed from compile time)")

        sc.fields.update(
            _isRunning=False, _prepared=True, _delayingPreconditionCheck=spec["delayed"], _args=(), _kwargs=PDict(), _agent=None, _runningIterator=None,
            _timeLimit=spec["N"], _timeLimitIsInSeconds=spec["seconds"], _timeLimitInSteps=None, _elapsedTime=0,
            _temporalRequirements=PList([treq]), _requirementMonitors=None, _compose=None, _agents=PList([agent]), _monitors=PList([mon]),
            _subScenarios=PList(), _overrides=PDict(), _recordedExprs=PList(), _globalParameters=PDict(), _ego=None, _workspace=None,
        )
        # the remaining attributes DynamicScenario.__init__ gives every scenario and _bindTo rebinds (read by a _bindTo that saves them, section 6)
        sc.fields.update(_objects=PList([agent]), _terminationConditions=PList(), _terminateSimulationConditions=PList(), _recordedInitialExprs=PList(), _recordedFinalExprs=PList())
        sc.fields["_checkAllPreconditions"] = BuiltinFn("_checkAllPreconditions", check_pre)
        scene = PObj("Scene", tag="scene")
        scene.fields.update(egoObject=agent, workspace=PObj("Workspace", tag="workspace"), objects=(agent,), monitors=(mon,), temporalRequirements=PList([treq]), terminationConditions=PList(), terminateSimulationConditions=PList(), recordedExprs=PList(), recordedInitialExprs=PList(), recordedFinalExprs=PList())
        return sc, scene

    def new_simulation(I, tag, ts):
        sim = PObj("Simulation", tag=tag)
        sim.fields.update(timestep=ts, name=tag)
        MD.current_state(I).set("currentSimulation", sim)
        return sim

    def setup_restart(I, env):
        eng = I.eng
        unit = eng.choose(3, "time limit: none / in steps / in seconds")
        n = None
        if unit:
            n = eng.fresh_real("N")
            eng.assume(compare(">=", n, 0))
            eng.input_syms.append(("N", C.Real(), n))
        spec = dict(N=n, seconds=(unit == 2), delayed=eng.choose(2, "precondition check delayed until start?") == 1)
        ts = []
        for k in (1, 2):
            t = eng.fresh_real(f"timestep{k}")
            eng.assume(compare(">", t, 0))
            eng.input_syms.append((f"timestep{k}", C.Real(), t))
            ts.append(t)
        eng.input_syms.append(("limit_unit", C.Const(None), ["none", "steps", "seconds"][unit]))
        sc, scene = make_compiled_scenario(I, spec, "compiled scenario", faults=True)
        new_simulation(I, "first simulation", ts[0])
        env.vars["self"] = sc
        env.vars["_world"] = (spec, ts, scene)

    def limit_for(spec, t):
        from pyvc.values import arith

        if spec["N"] is None:
            return None
        return arith("/", spec["N"], t) if spec["seconds"] else spec["N"]

    def same_field(I, a, b):
        """Equality of what two scenario objects hold: scalars by value, modelled objects by role (tag), lists element-wise."""
        if isinstance(a, BuiltinFn) or isinstance(b, BuiltinFn):
            return True
        if isinstance(a, PObj) and isinstance(b, PObj):
            return a.tag == b.tag
        if isinstance(a, (PList, tuple)) and isinstance(b, (PList, tuple)):
            xs, ys = (a.items if isinstance(a, PList) else list(a)), (b.items if isinstance(b, PList) else list(b))
            return len(xs) == len(ys) and all(same_field(I, x, y) is True for x, y in zip(xs, ys))
        if isinstance(a, PDict) and isinstance(b, PDict):
            return len(a.keys) == len(b.keys)
        return MD.same_value(I, a, b)

    def post_restart(I, env, outcome):
        eng = I.eng
        name = "scenarios.DynamicScenario._start"
        sc = env.vars["self"]
        spec, ts, scene = env.vars["_world"]
        st = MD.current_state(I)
        faults = MD.faults_on_path(I)
        eng.input_syms.append(("faults", C.Const(None), repr(faults)))
        if outcome[0] == "raise":
            # the caller's clean-up (Simulation.__init__) stops exactly the scenarios listed as running
            ok = sc.fields["_isRunning"] is False or any(x is sc for x in st.get("runningScenarios").items)
            eng.check(f"{name}#ensures.a_failed_start_leaves_the_scenario_stopped_or_registered_for_the_clean_up", ok, detail=f"fault: {faults!r}")
            return
        want1 = limit_for(spec, ts[0])
        eng.check(f"{name}#ensures.time_limit_in_steps_from_the_limit_and_this_simulations_timestep", want1 is None and sc.fields["_timeLimitInSteps"] is None or want1 is not None and compare("==", sc.fields["_timeLimitInSteps"], want1))
        eng.check(f"{name}#ensures.running_registered_clock_at_zero", sc.fields["_isRunning"] is True and st.get("runningScenarios").items == [sc] and sc.fields["_elapsedTime"] == 0)
        # ---- end of the first simulation (REAL _stop, as Simulation.__init__ calls it), then a second simulation of the same scene
        view = reg.contracts[f"{DS}:DynamicScenario._start"].inline_view()
        sc.fault_flag["on"] = False
        sc.fields["_elapsedTime"] = 3
        I.run_function(scenario_method(I, "_stop"), [sc, "simulation terminated"], {}, view)
        st.set("currentSimulation", None)
        I.run_function(scenario_method(I, "_bindTo"), [sc, scene], {}, view)
        new_simulation(I, "second simulation", ts[1])
        I.run_function(scenario_method(I, "_start"), [sc], {}, view)
        want2 = limit_for(spec, ts[1])
        got = sc.fields["_timeLimitInSteps"]
        eng.check(
            f"{name}#relational.second_start_recomputes_the_time_limit_from_the_current_timestep",
            want2 is None and got is None or want2 is not None and got is not None and compare("==", got, want2),
            detail=f"limit unit: {['none', 'steps', 'seconds'][1 + spec['seconds'] if spec['N'] is not None else 0]}",
        )
        # ---- reference: a freshly compiled copy started once with the second simulation's timestep
        st.get("runningScenarios").items.clear()
        ref, ref_scene = make_compiled_scenario(I, spec, "compiled scenario", faults=False)
        I.run_function(scenario_method(I, "_bindTo"), [ref, ref_scene], {}, view)
        I.run_function(scenario_method(I, "_start"), [ref], {}, view)
        diff = []
        for k in sorted(set(sc.fields) | set(ref.fields)):
            if k not in sc.fields or k not in ref.fields:
                diff.append(k)
                continue
            r = same_field(I, sc.fields[k], ref.fields[k])
            if r is True:
                continue
            if r is False or not eng.check(f"{name}#relational.second_simulation_finds_the_scenario_as_a_fresh_process_does[{k}]", r):
                diff.append(k)
        eng.check(f"{name}#relational.second_simulation_finds_the_scenario_as_a_fresh_process_does", not [k for k in diff if same_field(I, sc.fields.get(k), ref.fields.get(k)) is False], detail=f"fields that differ from a freshly compiled scenario started with the same timestep: {diff}")

    reg.add(
        C.Contract(
            f"{DS}:DynamicScenario._start",
            params=dict(self=C.Const(None)),
            setup=setup_restart,
            post=post_restart,
            inline=["DynamicScenario._start", "DynamicScenario._stop", "DynamicScenario._bindTo", "Invocable._start", "Invocable._stop", "Invocable._finalizeArguments", "startScenario", "endScenario"],
            raises=[C.Raises("Exception", mode="may")],
            replay=replay_restart,
            bounded=True,
            note="bounded: one agent, one monitor, one temporal requirement, no compose block; time limit none / N steps / N seconds with symbolic N and two symbolic timesteps",
            properties=("C14",),
        )
    )


def replay_nested_overrides(inputs, clause):
    """Real nested scenarios overriding the same property; the parent is ended while the child still runs."""
    import scenic
    from scenic.core.simulators import DummySimulator

    src = """
scenario Main():
    setup:
        ego = new Object with foo 0, with bar 0, with behavior Report
        record ego.foo as foo
        record ego.bar as bar
    compose:
        wait
        do Outer() for 2 steps
        wait
        wait
scenario Outer():
    setup:
        override ego with foo 1, with bar 1
    compose:
        do Inner()
scenario Inner():
    setup:
        override ego with foo 2, with bar 2
    compose:
        while True:
            wait
behavior Report():
    while True:
        take self.foo
"""
    sc = scenic.scenarioFromString(src, scenario="Main")
    scene, _ = sc.generate()
    sim = DummySimulator().simulate(scene, maxSteps=5, maxIterations=1)
    if sim is None:
        return "nested overrides: the simulation was rejected"
    want = clause.split("[", 1)[1].rstrip("]") if "[" in clause else None
    for prop in ("foo", "bar"):
        if want in ("foo", "bar") and want != prop:
            continue
        vals = [v for _, v in sim.result.records[prop]]
        if vals[:3] != [0, 2, 2]:
            return f"nested overrides of ego.{prop}: recorded {vals}; expected 0 before, 2 while Outer (1) and Inner (2) run"
        if any(v != 0 for v in vals[3:]):
            return f"Outer overrides ego.{prop} to 1 and runs Inner, which overrides it to 2; `do Outer() for 2 steps` ends Outer while Inner is still running; afterwards ego.{prop} reads {vals[3:]} instead of 0 (recorded: {vals})"
    return None


RESTART_PROGRAM = """
behavior Count():
    n = 0
    while True:
        take n
        n += 1
ego = new Object with behavior Count
terminate after 2 seconds
"""

STUCK_PROGRAM = """
flag = [False]
scenario Main():
    precondition: flag[0]
    setup:
        ego = new Object
"""


def replay_restart(inputs, clause):
    """Several simulations from ONE compiled scenario, compared with freshly compiled copies."""
    import scenic
    from scenic.core.simulators import DummySimulator

    faults = inputs.get("faults", "[]") if isinstance(inputs, dict) else "[]"
    if "precondition is violated when it starts" in faults or clause == "*" or "failed_start" in clause:
        sc = scenic.scenarioFromString(STUCK_PROGRAM, scenario="Main")
        scene, _ = sc.generate()
        first = DummySimulator().simulate(scene, maxSteps=2, maxIterations=1)
        if first is None and sc.dynamicScenario._isRunning:
            try:
                DummySimulator().simulate(scene, maxSteps=2, maxIterations=1)
                second = "is accepted"
            except AssertionError as e:
                import traceback

                w = traceback.extract_tb(e.__traceback__)[-1]
                second = f"dies with AssertionError at {w.filename.rsplit('/', 1)[-1]}:{w.lineno} ({w.line})"
            return f"a top-level scenario whose precondition is false when the simulation starts: the simulation is rejected, but the compiled scenario object stays marked as running (_isRunning = True); the next simulation of the same scene {second}"
        if "failed_start" in clause:
            return None

    def steps(scenario, scene, ts):
        sim = DummySimulator().simulate(scene, maxSteps=30, timestep=ts, maxIterations=1)
        return None if sim is None else sim.currentTime

    shared = scenic.scenarioFromString(RESTART_PROGRAM)
    scene, _ = shared.generate()
    for ts in (1, 0.5, 0.25, 1):
        got = steps(shared, scene, ts)
        fresh = scenic.scenarioFromString(RESTART_PROGRAM)
        fscene, _ = fresh.generate()
        want = steps(fresh, fscene, ts)
        if got != want:
            return f"`terminate after 2 seconds`, simulations with timesteps 1, 0.5, 0.25, 1 from one compiled scenario: the run with timestep {ts} takes {got} steps; a freshly compiled copy takes {want}"
    return None


# ====================================================================================================
# (6) the compiled scenario after a simulation: everything `DynamicScenario._bindTo(scene)` binds when a simulation
#     begins is unbound again when it is over ("Running a simulation never changes [...] the compiled scenario";
#     "afterwards compiling, sampling and simulating behave exactly as in a fresh process")

CANSEE_PROGRAM = """
ego = new Object at (0, 0, 0), with visibleDistance 100, with viewAngles (360 deg, 180 deg)
wall = new Object at (Range(-10, 10), Range(3, 6), 0), with width 6, with length 0.5, with height 6
target = new Object at (Range(-10, 10), Range(8, 12), 0), with width 1, with length 1, with height 1
require ego can see target
"""

BINDING_PROGRAM = """
behavior B():
    while True:
        wait
monitor M():
    while True:
        wait
ego = new Object at (Range(0, 1), 0), with behavior B
other = new Object at (10, Range(10, 11))
require monitor M()
require always ego.x < 100
terminate when ego.x > 50
terminate simulation when ego.x > 60
record ego.x as x
record initial ego.x as x0
record final ego.x as x1
"""


def register_scene_binding(reg):
    DYN = f"{DS}:DynamicScenario"

    def make_compiled_top_level(I):
        """The top-level scenario object as compilation leaves it: the REAL `__init__`, then compile-time contents
        (unsampled objects, compiled requirements) for the lists the compiler fills."""
        dyn = PObj(repo_class(DYN), tag="compiled top-level scenario")
        I.run_function(I.find_method(repo_class(DYN), "__init__"), [dyn], {}, reg.contracts[KEY].inline_view())
        unsampled = [PObj("Object", tag=f"unsampled object {k}") for k in range(2)]
        workspace = PObj("Workspace", tag="workspace")
        dyn.fields.update(_setup=None, _compose=None, _prepared=True, _dummyNamespace=PDict())
        dyn.fields.update(_ego=unsampled[0], _workspace=workspace, _objects=PList(list(unsampled)), _agents=PList([unsampled[0]]))
        for nm in ("_temporalRequirements", "_terminationConditions", "_terminateSimulationConditions", "_recordedExprs", "_recordedInitialExprs", "_recordedFinalExprs"):
            dyn.fields[nm] = PList([PObj("CompiledRequirement", tag=f"compiled requirement in {nm}")])
        return dyn, workspace

    def make_scene(I, dyn, workspace, mode2d):
        """A scene sampled from the scenario: sampled copies of the objects, requirements bound to the sample;
        the workspace is the scenario's own (Scenario.generate passes it on)."""
        objs = [PObj("Object", tag=f"object {k} of the scene") for k in range(2)]
        objs[0].fields["behavior"] = PObj("Behavior", tag="behavior")
        objs[1].fields["behavior"] = None
        scene = PObj("Scene", tag="scene")
        opts = PObj("CompileOptions", tag="compileOptions")
        opts.fields["mode2D"] = mode2d
        scene.fields.update(dynamicScenario=dyn, params=PDict([("p", 1)]), compileOptions=opts, behaviorNamespaces=PDict(), egoObject=objs[0], workspace=workspace, objects=tuple(objs), monitors=(PObj("Monitor", tag="monitor instantiated for the scene"),))
        for nm in ("temporalRequirements", "terminationConditions", "terminateSimulationConditions", "recordedExprs", "recordedInitialExprs", "recordedFinalExprs"):
            scene.fields[nm] = (PObj("BoundRequirement", tag=f"{nm} bound to the scene"),)
        return scene

    def fields_snapshot(o):
        return {k: snap(v) for k, v in o.fields.items() if not isinstance(v, (BuiltinFn, FuncVal))}

    def setup_bind(I, env):
        dyn, workspace = make_compiled_top_level(I)
        scene = make_scene(I, dyn, workspace, I.eng.choose(2, "scene compiled in 2D mode?") == 1)
        sim = PObj("Simulation", tag="simulation")
        sim.fields["scene"] = scene
        env.vars["sim"] = sim
        env.vars["_world"] = (dyn, scene, fields_snapshot(dyn))

    def post_bind(I, env, outcome):
        eng = I.eng
        name = "veneer.beginSimulation[scenario-binding]"
        dyn, scene, before = env.vars["_world"]
        if outcome[0] != "return":
            eng.check(f"{name}#ensures.begins_normally_from_the_inactive_state", False, detail=repr(outcome[1]))
            return
        f = dyn.fields
        eng.check(f"{name}#ensures.scenario_bound_to_the_objects_of_the_scene", f["_ego"] is scene.fields["egoObject"] and isinstance(f["_objects"], PList) and len(f["_objects"].items) == 2 and all(a is b for a, b in zip(f["_objects"].items, scene.fields["objects"])))
        bound = sorted(k for k in f if k in before and MD.same_value(I, f[k], before[k]) is not True)
        # what the run itself does to the bound attributes before the clean-up ends the simulation
        during = eng.choose(3, "the run: fails before the scenario starts / the scenario is started and stopped / a requirement and a monitor are added while it runs")
        eng.input_syms.append(("run", C.Const(None), ["fails before the scenario starts", "scenario started and stopped", "requirement and monitor added while running"][during]))
        view = reg.contracts[KEY].inline_view()
        if during == 2:
            I.run_function(scenario_method(I, "_addDynamicRequirement"), [dyn, "require", Opaque("condition"), 1, None], {}, view)
            f["_monitors"].items.append(PObj("Monitor", tag="monitor added while running"))
        if during >= 1:
            f["_monitors"] = PList()  # DynamicScenario._stop
            f["_requirementMonitors"] = None
        I.run_function(MD.state_function(I, "endSimulation"), [env.vars["sim"]], {}, view)
        for k in sorted(set(before) | set(f)):
            v = f.get(k)
            if isinstance(v, (BuiltinFn, FuncVal)):
                continue
            if k in before:
                ok = MD.same_value(I, v, before[k])
                what = f"{'bound by _bindTo; ' if k in bound else ''}after the simulation: {v!r}; before it: {before[k]!r}"
            else:
                # bookkeeping the binding itself creates must hold nothing once the simulation is over
                ok = v is None or (isinstance(v, (PList, PDict)) and not (v.items if isinstance(v, PList) else v.keys))
                what = f"attribute created during the simulation still holds {v!r}"
            eng.check(f"{name}#ensures.compiled_scenario_unchanged_after_endSimulation[{k}]", ok, detail=what)

    def ctor_dynreq(I, cls, args, kwargs):
        return PObj(cls, dict(ty=args[0], line=args[2], name=args[3], toMonitor=BuiltinFn("toMonitor", lambda: PObj("RequirementMonitor", tag="requirement monitor"))), tag="requirement added while running")

    reg.constructors.setdefault("scenic.core.requirements:DynamicRequirement", ctor_dynreq)
    reg.trust("DynamicRequirement(...)", "constructor stub: a record of its arguments (its semantics is C11)")
    KEY = f"{V}:beginSimulation[scenario-binding]"
    reg.add(
        C.Contract(
            f"{V}:beginSimulation",
            params=dict(sim=C.Const(None)),
            closure_env=lambda I: MD.current_state(I).env,
            setup=setup_bind,
            post=post_bind,
            inline=["isActive", "DynamicScenario.__init__", "Invocable.__init__", "DynamicScenario._bindTo", "DynamicScenario._unbind", "DynamicScenario._addDynamicRequirement"],
            replay=replay_scene_binding,
            bounded=True,
            note="bounded: a scene of two objects (one agent), one monitor, one requirement of each kind; the scene shares the workspace object with the compiled scenario (Scenario.generate); "
            "the compiled scenario object is built by the REAL DynamicScenario.__init__ and bound by the REAL _bindTo",
            properties=("C14",),
        ),
        key=KEY,
    )


def _scene_bound_attrs():
    return ("_ego", "_workspace", "_objects", "_agents", "_monitors", "_temporalRequirements", "_terminationConditions", "_terminateSimulationConditions", "_recordedExprs", "_recordedInitialExprs", "_recordedFinalExprs")


def replay_scene_binding(inputs, clause):
    """Real programs: the attributes of the compiled scenario before and after one simulation (normal run, and a run
    whose simulator fails while creating the objects), and sampling with fixed seeds before / after one simulation."""
    import random

    import numpy

    import scenic
    from scenic.core.simulators import DummySimulation, DummySimulator

    want = _component(clause)
    run = inputs.get("run") if isinstance(inputs, dict) else None

    class FailingSim(DummySimulation):
        def createObjectInSimulator(self, obj):
            raise RuntimeError("injected: the simulator cannot create the object")

    class FailingSimulator(DummySimulator):
        def createSimulation(self, scene, **kwargs):
            return FailingSim(scene, **kwargs)

    def contents(v):
        return list(v) if isinstance(v, (list, tuple)) else v

    def differs(a, b):
        if isinstance(a, list) or isinstance(b, list):
            return not (isinstance(a, list) and isinstance(b, list) and len(a) == len(b) and all(x is y for x, y in zip(a, b)))
        return a is not b

    def brief(v):
        if isinstance(v, list):
            return "[" + ", ".join(brief(x) for x in v) + "]"
        if isinstance(v, (int, float, str, bool, type(None))):
            return repr(v)
        return f"<{type(v).__name__} #{id(v) % 10000}>"

    found = []
    for failing in ([True] if run == "fails before the scenario starts" else [False] if run else [False, True]):
        sc = scenic.scenarioFromString(BINDING_PROGRAM, mode2D=True)
        ds = sc.dynamicScenario
        before = {k: contents(v) for k, v in vars(ds).items()}
        scene, _ = sc.generate()
        try:
            (FailingSimulator() if failing else DummySimulator()).simulate(scene, maxSteps=2, maxIterations=1)
        except RuntimeError:
            pass
        after = {k: contents(v) for k, v in vars(ds).items()}
        for k in sorted(set(before) | set(after)):
            if want is not None and k != want:
                continue
            if want is None and k in before and k not in _scene_bound_attrs():
                # per-run counters (_elapsedTime, _timeLimitInSteps) keep the values of the last run; DynamicScenario._start
                # re-initialises them before any read (relational clauses of the _start contract, section 5): not judged here
                continue
            if k in before and k in after and not differs(before[k], after[k]):
                continue
            if k not in before and (after[k] is None or after[k] == [] or after[k] == {}):
                continue
            how = "a simulation whose simulator fails while creating the objects" if failing else "a simulation"
            found.append(f"after {how}, dynamicScenario.{k} of the COMPILED scenario holds {brief(after.get(k, '<absent>'))} (before the simulation: {brief(before.get(k, '<absent>'))})")
    if not found:
        return None

    # consequence for later sampling: `X can see Y` in a requirement takes its occluders from dynamicScenario._objects
    def samples(simulate_first):
        random.seed(12345)
        numpy.random.seed(12345)
        sc = scenic.scenarioFromString(CANSEE_PROGRAM)
        if simulate_first:
            scene, _ = sc.generate()
            DummySimulator().simulate(scene, maxSteps=1)
        random.seed(777)
        numpy.random.seed(777)
        out = []
        for _ in range(5):
            scene, n = sc.generate(maxIterations=2000)
            out.append((n, round(scene.objects[2].position.x, 3)))
        return out

    extra = ""
    if want in (None, "_objects"):
        a, b = samples(False), samples(True)
        if a != b:
            extra = f"; with `require ego can see target` and fixed seeds, five scenes sampled without a simulation in between: (iterations, target.x) = {a}; the same after one simulation in this process: {b} (the wall of the FIRST scene is used as occluder)"
    return found[0] + extra


# ====================================================================================================
# (7) a start that fails half-way, then the clean-up: `DynamicScenario._stop(quiet=True)` must wind down exactly what
#     `_start` got going -- in particular recorders that never began recording -- without raising, so that the run ends
#     with the exception that caused it and `veneer.endSimulation` is reached


def register_failed_start_cleanup(reg):
    DYN = f"{DS}:DynamicScenario"
    REC = "scenic.core.sensors:Recorder"
    KEY = f"{DYN}._start[then-clean-up]"

    def setup_fs(I, env):
        eng = I.eng
        st = MD.current_state(I)
        sc = PObj(repo_class(DYN), tag="top-level scenario")
        agent = PObj("Object", tag="agent")
        beh = PObj(repo_class("scenic.core.dynamics.behaviors:Behavior"), tag="behavior")
        beh.fields["_isRunning"] = False

        def assign(a):
            beh.fields["_isRunning"] = True
            MD.maybe_raise(I, "behavior._assignTo(): a precondition of the behavior is violated")

        def beh_stop(reason=None):
            beh.fields["_isRunning"] = False

        beh.fields["_assignTo"], beh.fields["_stop"] = BuiltinFn("_assignTo", assign), BuiltinFn("_stop", beh_stop)
        agent.fields["behavior"] = beh
        mon = PObj("Monitor", tag="monitor")
        mon.fields["_isRunning"] = False

        def mon_start():
            mon.fields["_isRunning"] = True
            MD.maybe_raise(I, "monitor._start(): a precondition of the monitor is violated")

        def mon_stop(reason=None):
            mon.fields["_isRunning"] = False

        mon.fields["_start"], mon.fields["_stop"] = BuiltinFn("_start", mon_start), BuiltinFn("_stop", mon_stop)
        # two `record ... to <file>` statements: REAL Recorder objects (begin/endRecording are the real methods);
        # the second recorder is of a user-defined subclass whose beginRecording may fail before it starts recording
        recs, exprs = [], []
        begin = I.find_method(repo_class(REC), "beginRecording")
        for k in range(2):
            r = PObj(repo_class(REC), tag=f"recorder {k}")
            r.fields["_recording"] = False
            if k == 1:

                def begin2(config, simName, timestep, params, r=r):
                    MD.maybe_raise(I, "recorder.beginRecording(): the second recorder cannot open its file")
                    return I.run_function(begin, [r, config, simName, timestep, params], {}, reg.contracts[KEY].inline_view())

                r.fields["beginRecording"] = BuiltinFn("beginRecording", begin2)
            cfg = PObj("RecordingConfiguration", dict(name=f"rec{k}", period=(1, "steps"), delay=(0, "steps"), recorder=r), tag=f"recording configuration {k}")
            exprs.append(PObj("BoundRequirement", dict(recConfig=cfg, name=f"rec{k}"), tag=f"recorded expression {k}"))
            recs.append(r)
        exprs.append(PObj("BoundRequirement", dict(recConfig=None, name="plain"), tag="recorded expression without a file"))
        sc.fields.update(
            _isRunning=False, _prepared=True, _delayingPreconditionCheck=False, _args=(), _kwargs=PDict(), _agent=None, _runningIterator=None,
            _timeLimit=None, _timeLimitIsInSeconds=False, _timeLimitInSteps=None, _elapsedTime=0, _temporalRequirements=PList(), _requirementMonitors=None,
            _compose=None, _agents=PList([agent]), _monitors=PList([mon]), _subScenarios=PList(), _overrides=PDict(), _recordedExprs=tuple(exprs),
            _globalParameters=PDict(), _ego=agent, _workspace=None,
        )
        sim = PObj("Simulation", tag="simulation")
        sim.fields.update(timestep=1, name="sim")
        st.set("currentSimulation", sim)
        env.vars["self"] = sc
        env.vars["_world"] = (sc, beh, mon, recs)

    def post_fs(I, env, outcome):
        eng = I.eng
        st = MD.current_state(I)
        name = "scenarios.DynamicScenario._start[then-clean-up]"
        sc, beh, mon, recs = env.vars["_world"]
        faults = MD.faults_on_path(I)
        eng.input_syms.append(("faults", C.Const(None), repr(faults)))
        where = "failed_start" if faults else "normal_start"
        detail = f"faults: {faults!r}"
        view = reg.contracts[KEY].inline_view()
        if not faults:
            eng.check(f"{name}#ensures.starts_normally_and_every_recorder_is_recording", outcome[0] == "return" and all(r.fields["_recording"] is True for r in recs), detail=detail)
        else:
            eng.check(f"{name}#ensures.the_failure_propagates", outcome[0] == "raise" and bool(outcome[1].args) and outcome[1].args[0] == f"raised by {faults[0]}", detail=detail)
        # ---- the clean-up of Simulation.__init__: behaviors, then every scenario still listed as running, quietly
        if beh.fields["_isRunning"]:
            beh.fields["_isRunning"] = False
        raised = None
        for s in list(reversed(st.get("runningScenarios").items)):
            try:
                I.run_function(scenario_method(I, "_stop"), [s, "exception"], {"quiet": True}, view)
            except SymRaise as sr:
                raised = sr.exc
                break
        eng.check(f"{name}#ensures.the_quiet_stop_of_the_clean_up_does_not_raise@{where}", raised is None, detail=detail + (f"; _stop(quiet=True) raises {exc_name(raised)}" if raised is not None else ""))
        eng.check(f"{name}#ensures.no_recorder_left_recording_after_the_clean_up@{where}", all(r.fields["_recording"] is False for r in recs), detail=detail)
        eng.check(f"{name}#ensures.nothing_left_running_after_the_clean_up@{where}", sc.fields["_isRunning"] is False and mon.fields["_isRunning"] is False and not st.get("runningScenarios").items, detail=detail)

    reg.add(
        C.Contract(
            f"{DYN}._start",
            params=dict(self=C.Const(None)),
            setup=setup_fs,
            post=post_fs,
            inline=["DynamicScenario._start", "DynamicScenario._stop", "Invocable._start", "Invocable._stop", "Invocable._finalizeArguments", "startScenario", "endScenario", "Recorder.beginRecording", "Recorder.endRecording"],
            raises=[C.Raises("Exception", mode="may")],
            replay=replay_failed_start_with_recorder,
            bounded=True,
            note="bounded: one agent, one monitor, two `record ... to` recorders (REAL scenic.core.sensors.Recorder objects; the second may fail in beginRecording) and one plain record; "
            "the clean-up loop of Simulation.__init__ is executed by the postcondition with the REAL _stop",
            properties=("C14",),
        ),
        key=KEY,
    )

    # ---- Simulation.__init__: the veneer is reset whatever the quiet _stop of the clean-up does
    SIMCLS = f"{SIM}:Simulation"
    KEY2 = f"{SIMCLS}.__init__[clean-up-faults]"
    base = reg.contracts[f"{SIMCLS}.__init__"]

    def setup_cf(I, env):
        base.setup(I, env)
        dyn, log = env.vars["_dyn"], env.vars["_log"]
        inner = dyn.fields["_stop"].fn

        def dyn_stop(reason, quiet=False):
            r = inner(reason, quiet=quiet)
            if quiet:
                # user-extensible code runs here too: monitors' and sub-scenarios' _stop, recorders' endRecording (file I/O)
                MD.maybe_raise(I, "cleanup: scenario._stop(quiet=True) raises (a recorder's endRecording fails)")
            return r

        dyn.fields["_stop"] = BuiltinFn("_stop", dyn_stop)

    def post_cf(I, env, outcome):
        eng = I.eng
        st = MD.current_state(I)
        name = "simulators.Simulation.__init__[clean-up-faults]"
        faults = MD.faults_on_path(I)
        eng.input_syms.append(("faults", C.Const(None), repr(faults)))
        if not any(f.startswith("cleanup: scenario._stop") for f in faults):
            return  # the other paths are the obligations of the un-keyed contract
        detail = f"faults: {faults!r}; outcome: {outcome[0]} {outcome[1] if outcome[0] == 'raise' else ''}"
        objs = env.vars["_objs"]
        eng.check(f"{name}#ensures.an_exception_reaches_the_caller", outcome[0] == "raise", detail=detail)
        eng.check(f"{name}#ensures.every_dynamic_proxy_disabled", all(o.fields["_dynamicProxy"] is o for o in objs), detail=detail)
        dirty = [nm for nm in st.all_names() if MD.same_value(I, st.get(nm), st.initial(I, nm)) is not True]
        eng.check(f"{name}#ensures.veneer_state_as_in_a_fresh_process_whatever_the_clean_up_stop_does", not dirty, detail=detail + "; differing components: " + ", ".join(f"{nm} = {st.get(nm)!r}" for nm in dirty))

    reg.add(
        C.Contract(
            f"{SIMCLS}.__init__",
            params=dict(base.params),
            setup=setup_cf,
            post=post_cf,
            inline=list(base.inline),
            raises=[C.Raises("Exception", mode="may")],
            replay=replay_cleanup_stop_raises,
            bounded=True,
            note="bounded: the world of the un-keyed Simulation.__init__ contract; additionally the quiet _stop of the clean-up may raise after it has unregistered the scenario",
            properties=("C14",),
        ),
        key=KEY2,
    )


RECORDER_PROGRAM = """
from scenic.core.sensors import Recorder
class Unwritable(Recorder):
    def beginRecording(self, config, simulationName, timestep, globalParams):
        raise OSError("cannot open the output file")
    def recordValue(self, value, step):
        pass
behavior B():
    {pre0}
    while True:
        wait
behavior B2():
    {pre1}
    while True:
        wait
ego = new Object with behavior B
other = new Object at (10, 10), with behavior B2
record ego.position {to0}
record other.position {to1}
"""


def _simulate_and_look(program, simulator=None, **kw):
    """Compile + sample + simulate on the real code; returns (exception seen by the caller, veneer components that
    differ from the fresh-process state, what a later compilation / simulation in the same process does)."""
    import scenic
    from scenic.core.simulators import DummySimulator

    fresh = _veneer_snapshot()
    sc = scenic.scenarioFromString(program)
    scene, _ = sc.generate()
    seen = None
    try:
        (simulator or DummySimulator()).simulate(scene, maxSteps=2, maxIterations=1, raiseGuardViolations=True, **kw)
    except BaseException as e:  # noqa
        seen = e
    after = _veneer_snapshot()
    dirty = [f"veneer.{nm} = {str(after[nm])[:60]}" for nm in fresh if _differs(fresh[nm], after[nm])]
    later = []
    for req in scene.recordedExprs:
        rec = getattr(getattr(req, "recConfig", None), "recorder", None)
        if rec is not None and getattr(rec, "_recording", False):
            later.append(f"the recorder of `record ... to` ({type(rec).__name__}) is still marked as recording after the simulation")
    if dirty:
        try:
            scenic.scenarioFromString("ego = new Object")
        except BaseException as e:  # noqa
            later.append(f"a later compilation in this process fails with {type(e).__name__}: {e}")
    return seen, dirty, later


def replay_failed_start_with_recorder(inputs, clause):
    """`record ... to <file>` + a failure while the top-level scenario starts, on the real code.  Oracle: the caller
    sees what it sees when the same program records without a file (`record ... as`), and the veneer is reset."""
    import ast as _ast
    import os
    import tempfile
    import traceback

    faults = _ast.literal_eval(inputs.get("faults", "[]")) if isinstance(inputs, dict) else []
    path = os.path.join(tempfile.mkdtemp(prefix="c14rec"), "rec.npz")
    to_file = dict(to0=f'to "{path}"', to1="as second")
    cases = []
    if not faults or any(f.startswith("behavior._assignTo") for f in faults):
        cases.append(("a precondition of the ego's behavior is violated when the scenario starts", dict(pre0="precondition: False", pre1="", **to_file)))
    if not faults or any(f.startswith("monitor._start") for f in faults):
        # (monitors cannot state preconditions in this grammar; the real-code stand-in for "fails after the first behavior has started")
        cases.append(("a precondition of the SECOND agent's behavior is violated (the first behavior has already started)", dict(pre0="", pre1="precondition: False", **to_file)))
    if not faults or any(f.startswith("recorder.beginRecording") for f in faults):
        cases.append(("the recorder of a second `record ... to` statement fails in beginRecording", dict(pre0="", pre1="", to0=f'to "{path}"', to1="to Unwritable()")))
    if not faults or clause == "*":
        cases.append(("nothing fails", dict(pre0="", pre1="", **to_file)))
    for what, sub in cases:
        ref = dict(sub, to0="as first", to1="as second")
        want, _, _ = _simulate_and_look(RECORDER_PROGRAM.format(**ref)) if "Unwritable" not in sub["to1"] else (OSError("cannot open the output file"), None, None)
        seen, dirty, later = _simulate_and_look(RECORDER_PROGRAM.format(**sub))
        problems = []
        if type(seen) is not type(want):
            where = ""
            if seen is not None:
                w = traceback.extract_tb(seen.__traceback__)[-1]
                where = f" at {w.filename.rsplit('/', 1)[-1]}:{w.lineno} ({w.line})"
            problems.append(f"the caller sees {type(seen).__name__ if seen is not None else 'no exception'}{where} instead of {type(want).__name__ if want is not None else 'a normal run'}")
        problems += dirty + later
        if problems:
            return f'`record ego.position to "<file>"` and {what}: ' + "; ".join(problems[:5])
    return None


def replay_cleanup_stop_raises(inputs, clause):
    """A user-defined recorder whose endRecording raises when the recording is cancelled by the clean-up."""
    import ast as _ast

    faults = _ast.literal_eval(inputs.get("faults", "[]")) if isinstance(inputs, dict) else []
    if faults and not any(f.startswith("cleanup: scenario._stop") for f in faults):
        return None
    program = """
from scenic.core.sensors import Recorder
class Flaky(Recorder):
    def recordValue(self, value, step):
        pass
    def endRecording(self, canceled):
        super().endRecording(canceled)
        if canceled:
            raise OSError("cannot remove the partial recording")
behavior B():
    wait
    require False
ego = new Object with behavior B
record ego.position to Flaky()
"""
    seen, dirty, later = _simulate_and_look(program)
    if dirty:
        return f"a recorder whose endRecording raises while the clean-up cancels the recording of a rejected run: the caller sees {type(seen).__name__}; afterwards " + "; ".join((dirty + later)[:5])
    return None


# ====================================================================================================
# (8) `do <behavior>`: a sub-behaviour whose start fails (precondition violated, bad arguments) is not left running


SUB_START_PROGRAM = """
behavior Sub():
    precondition: simulation().timestep < 1
    wait
sub = Sub()
behavior Main():
    do sub
    while True:
        wait
ego = new Object with behavior Main
"""


def register_sub_behavior_start(reg):
    BH = "scenic.core.dynamics.behaviors"
    KEY = f"{BH}:Behavior._invokeInner[failed-start]"
    PRE = "scenic.core.dynamics.guards:PreconditionViolation"

    def setup_sub(I, env):
        eng = I.eng
        st = MD.current_state(I)
        flag = {"on": True}
        sub = PObj(repo_class(f"{BH}:Behavior"), tag="sub-behaviour")
        sub.fields.update(_isRunning=False, _agent=None, _runningIterator=None, _args=(), _kwargs=PDict())
        n_yields = eng.choose(2, "actions taken by the sub-behaviour (0-1)")

        def make_gen(agent, *a, **k):
            if flag["on"]:
                MD.maybe_raise(I, "makeGenerator(): the behavior is invoked with the wrong arguments")
            return MD.ScriptedIterator("sub-behaviour generator", lambda k: ("yield", (f"action {k}",)) if k < n_yields else ("return", None))

        def check_pre():
            if flag["on"]:
                MD.maybe_raise(I, "_checkAllPreconditions(): a precondition of the sub-behaviour is violated", repo_class(PRE))

        sub.fields["makeGenerator"] = BuiltinFn("makeGenerator", make_gen)
        sub.fields["_checkAllPreconditions"] = BuiltinFn("_checkAllPreconditions", check_pre)
        outer = PObj(repo_class(f"{BH}:Behavior"), tag="invoking behavior")
        st.set("currentBehavior", outer)
        env.vars.update(self=outer, agent=PObj("Agent", tag="agent"), subs=(sub,))
        env.vars["_world"] = (sub, outer, flag, n_yields)

    def drain(I, gen):
        try:
            return ("return", I.iterate(gen))
        except SymRaise as sr:
            return ("raise", sr.exc)

    def post_sub(I, env, outcome):
        eng = I.eng
        name = "behaviors.Behavior._invokeInner[failed-start]"
        sub, outer, flag, n_yields = env.vars["_world"]
        if outcome[0] != "return":
            eng.check(f"{name}#ensures.generator_created", False)
            return
        ended = drain(I, outcome[1])
        faults = MD.faults_on_path(I)
        eng.input_syms.append(("faults", C.Const(None), repr(faults)))
        detail = f"faults: {faults!r}"
        f = sub.fields
        if faults:
            eng.check(f"{name}#ensures.the_failure_of_the_start_propagates", ended[0] == "raise" and bool(ended[1].args) and ended[1].args[0] == f"raised by {faults[0]}", detail=detail)
        else:
            eng.check(f"{name}#ensures.normal_completion_when_the_sub_behaviour_finishes", ended[0] == "return" and len(ended[1]) == n_yields, detail=detail)
        eng.check(f"{name}#ensures.sub_behaviour_not_left_running_however_its_start_ends", f["_isRunning"] is False and f["_agent"] is None and f["_runningIterator"] is None, detail=detail + f"; afterwards _isRunning = {f['_isRunning']}, _agent = {f['_agent']!r}")
        eng.check(f"{name}#ensures.the_invoker_is_the_current_behavior_again", MD.current_state(I).get("currentBehavior") is outer, detail=detail)
        # ---- the same behaviour object invoked again (next simulation of the scene / next iteration of a loop), nothing failing
        flag["on"] = False
        again = drain(I, I.run_function(I.find_method(repo_class(f"{BH}:Behavior"), "_invokeInner"), [outer, PObj("Agent", tag="agent of the next run"), (sub,)], {}, reg.contracts[KEY].inline_view()))
        eng.check(f"{name}#relational.a_later_invocation_of_the_same_behaviour_object_runs_as_in_a_fresh_process", again[0] == "return" and len(again[1]) == n_yields, detail=detail + (f"; the later invocation raises {exc_name(again[1])}" if again[0] == "raise" else ""))

    reg.add(
        C.Contract(
            f"{BH}:Behavior._invokeInner",
            params=dict(self=C.Const(None), agent=C.Const(None), subs=C.Const(None)),
            setup=setup_sub,
            post=post_sub,
            inline=["Behavior._invokeInner", "Behavior._start", "Behavior._stop", "Invocable._start", "Invocable._stop", "Invocable._finalizeArguments"],
            replay=replay_sub_behavior_start,
            bounded=True,
            note="bounded: the sub-behaviour takes 0-1 actions; its start is the REAL Behavior._start / Invocable._start with makeGenerator and _checkAllPreconditions modelled (each may raise)",
            properties=("C14",),
        ),
        key=KEY,
    )


def replay_sub_behavior_start(inputs, clause):
    """One behaviour object (created when the program is compiled) invoked with `do` in two simulations of the same
    scene: its precondition is violated in the first one (timestep 1) and holds in the second (timestep 0.5)."""
    import traceback

    import scenic
    from scenic.core.simulators import DummySimulator

    def second_run(first):
        sc = scenic.scenarioFromString(SUB_START_PROGRAM)
        scene, _ = sc.generate()
        sub = sc.behaviorNamespaces["__main__"][0]["sub"] if isinstance(sc.behaviorNamespaces["__main__"], tuple) else sc.behaviorNamespaces["__main__"]["sub"]
        seen1 = None
        if first:
            try:
                DummySimulator().simulate(scene, maxSteps=2, maxIterations=1, timestep=1, raiseGuardViolations=True)
            except BaseException as e:  # noqa
                seen1 = e
        state = (sub._isRunning, sub._agent is not None)
        try:
            sim = DummySimulator().simulate(scene, maxSteps=2, maxIterations=1, timestep=0.5, raiseGuardViolations=True)
            out = "completes" if sim is not None else "is rejected"
        except BaseException as e:  # noqa
            w = traceback.extract_tb(e.__traceback__)[-1]
            out = f"dies with {type(e).__name__} at {w.filename.rsplit('/', 1)[-1]}:{w.lineno} ({w.line})"
        return seen1, state, out

    _, _, fresh = second_run(False)
    seen1, state, used = second_run(True)
    if state[0] or state[1] or used != fresh:
        return (
            f"`sub = Sub()` at top level, `do sub` in the ego's behavior, precondition of Sub: simulation().timestep < 1.  First simulation (timestep 1) ends with "
            f"{type(seen1).__name__}; afterwards the behaviour object of the COMPILED scenario has _isRunning = {state[0]}, _agent set: {state[1]}; "
            f"a second simulation of the same scene with timestep 0.5 {used} (in a fresh process it {fresh})"
        )
    return None


_register_veneer = register


def register(reg):  # noqa: F811
    _register_veneer(reg)
    register_overrides(reg)
    register_simulation_cleanup(reg)
    register_proxy(reg)
    register_start_stop(reg)
    register_scene_binding(reg)
    register_failed_start_cleanup(reg)
    register_sub_behavior_start(reg)
